package main

// Shared by C09, C10, C11, C16: a scripted MTProto peer for an already-keyed session (the server side
// of the MTProto 1.0 envelope comes from x_envelope.go, written from the protocol description), a
// scenario runner that drives the REAL client (mtproto.NewMTProto on a stored session,
// CreateConnection, concurrent MakeRequest calls) against it, and the event log ("trace") of
// everything observable: frames the server received, messages it sent, values the calls returned,
// sessions stored. Identifiers in this file start with rs.

import (
	"bytes"
	"compress/gzip"
	"crypto/sha1"
	"encoding/base64"
	"encoding/binary"
	"encoding/hex"
	"encoding/json"
	"fmt"
	"io"
	"math/big"
	"net"
	"os"
	"path/filepath"
	"reflect"
	"runtime"
	"sort"
	"strconv"
	"strings"
	"sync"
	"time"

	"github.com/xelaj/mtproto"
	"github.com/xelaj/mtproto/internal/encoding/tl"
	"github.com/xelaj/mtproto/internal/mtproto/messages"
	"github.com/xelaj/mtproto/internal/mtproto/objects"
	"github.com/xelaj/mtproto/internal/session"
	"github.com/xelaj/mtproto/internal/transport"
)

const (
	rsCrcPing      = 0x7abe77ec
	rsCrcPong      = 0x347773c5
	rsCrcAck       = 0x62d6b459
	rsCrcRpcResult = 0xf35c6d01
	rsCrcRpcError  = 0x2144ca19
	rsCrcBadSalt   = 0xedab447b
	rsCrcBadMsg    = 0xa7eff811
	rsCrcNewSess   = 0x9ec20908
	rsCrcContainer = 0x73f1f8dc
	rsCrcGzip      = 0x3072cfa1
	rsCrcVector    = 0x1cb5c415
	rsCrcTrue      = 0x997275b5
	rsCrcFalse     = 0xbc799737
	rsCrcFutSalt   = 0x0949d9dc
	rsCrcDHOk      = 0xd0e8075c // server_DH_params_ok nonce:int128 server_nonce:int128 encrypted_answer:bytes
	rsTagBase      = 7000
)

type rsLog struct {
	mu sync.Mutex
	ev []string
}

func (l *rsLog) add(format string, a ...interface{}) {
	l.mu.Lock()
	l.ev = append(l.ev, fmt.Sprintf(format, a...))
	l.mu.Unlock()
}

func (l *rsLog) snapshot() []string {
	l.mu.Lock()
	defer l.mu.Unlock()
	return append([]string{}, l.ev...)
}

type rsFrame struct {
	Salt, Sid, Mid uint64
	Seq            uint32
	Body           []byte
	Caller         int // for a request frame: the caller whose tag the request carries
}

type rsServer struct {
	ln      net.Listener
	key     []byte
	log     *rsLog
	mu      sync.Mutex
	conn    net.Conn
	conns   int
	frames  []rsFrame // every client frame, in arrival order
	reqs    []rsFrame // the request frames (pings) among them
	acks    []rsFrame // the msgs_ack frames among them
	held    []uint64  // msg_ids taken earlier for messages that are delivered late (plan step "h")
	slots   map[int]rsFrame // msg_id and seq_no of container members that are delivered again (member "#<slot>(item)")
	last    []byte    // the last top-level packet sent, for a verbatim re-send (plan step "=")
	lastLog string
	nextID  uint64
	content uint32 // number of content-related messages sent
	sid     uint64
	plain   int // frames that arrived unencrypted (a key exchange was attempted)
	cond    *sync.Cond
	callers int          // number of callers of the scenario: a ping whose id names none of them is the library's own keepalive ping
	pings   []rsFrame    // the keepalive pings, in arrival order
	lost    map[int]bool // connections (by number) that ended with the client's last writes unread: hard close, reset, cut frame
}

func rsNewServer(key []byte, log *rsLog) *rsServer {
	ln, err := net.Listen("tcp", "127.0.0.1:0")
	if err != nil {
		panic(err)
	}
	s := &rsServer{ln: ln, key: key, log: log, nextID: uint64(time.Now().Unix())<<32 | 1}
	s.cond = sync.NewCond(&s.mu)
	go s.acceptLoop()
	return s
}

func (s *rsServer) acceptLoop() {
	for {
		c, err := s.ln.Accept()
		if err != nil {
			return
		}
		s.mu.Lock()
		s.conn = c
		s.conns++
		n := s.conns
		s.cond.Broadcast()
		s.mu.Unlock()
		s.log.add("N:%d", n)
		go s.readLoop(c, n)
	}
}

func (s *rsServer) readLoop(c net.Conn, connNo int) {
	keySeen := false
	ann := make([]byte, 4)
	if _, err := io.ReadFull(c, ann); err != nil {
		return
	}
	for {
		hdr := make([]byte, 4)
		if _, err := io.ReadFull(c, hdr); err != nil {
			return
		}
		pkt := make([]byte, binary.LittleEndian.Uint32(hdr))
		if _, err := io.ReadFull(c, pkt); err != nil {
			return
		}
		if len(pkt) >= 8 && binary.LittleEndian.Uint64(pkt) == 0 {
			s.mu.Lock()
			s.plain++
			s.mu.Unlock()
			s.log.add("P:%d", len(pkt))
			continue
		}
		if !keySeen && len(pkt) >= 8 {
			// A:<n>:<auth_key_id>: the key id the client uses on connection n (first encrypted frame): the lifecycle
			// model (lean/Mtv/Client/Lifecycle.lean, replayed by lean/Driver/C16Life.lean) asks for the same on every one
			keySeen = true
			s.log.add("A:%d:%d", connNo, binary.LittleEndian.Uint64(pkt))
		}
		m, why := envOpen(0, s.key, pkt, true)
		if why != "" {
			s.log.add("X:unreadable:%s", why)
			continue
		}
		f := rsFrame{Salt: m.Salt, Sid: m.Sid, Mid: m.Mid, Seq: m.Seq, Body: m.Body}
		s.mu.Lock()
		s.frames = append(s.frames, f)
		s.sid = m.Sid
		ctor := uint32(0)
		if len(f.Body) >= 4 {
			ctor = binary.LittleEndian.Uint32(f.Body)
		}
		// every message the client writes is checked byte for byte against what its sender meant: a request is
		// exactly the serialisation of its type for the caller's tag (ping#7abe77ec ping_id:long unless the caller
		// kind names another request type, see rsReqTypes), an acknowledgement exactly msgs_ack#62d6b459
		// msg_ids:Vector<long> with at least one id and nothing behind the last one. Anything else under those
		// constructors is a message the client damaged between encoding and writing it (event X).
		switch {
		case ctor == rsCrcPing && len(f.Body) == 12 && s.callers > 0 &&
			(int64(binary.LittleEndian.Uint64(f.Body[4:])) < rsTagBase || int64(binary.LittleEndian.Uint64(f.Body[4:])) >= rsTagBase+int64(s.callers)):
			// a well-formed ping that is no caller's request: the client's own keepalive (it sends one per minute of
			// a connection's life). K:<msg_id>:<seq_no>:<salt>
			s.pings = append(s.pings, f)
			s.log.add("K:%d:%d:%d", f.Mid, f.Seq, int64(f.Salt))
		case ctor == rsCrcPing && len(f.Body) == 12:
			tag := int64(binary.LittleEndian.Uint64(f.Body[4:]))
			f.Caller = int(tag - rsTagBase)
			s.reqs = append(s.reqs, f)
			s.log.add("S:%d:%d:%d:%d:q", tag-rsTagBase, f.Mid, f.Seq, int64(f.Salt))
		case ctor == rsCrcPing:
			s.log.add("X:malformed-request(%d_bytes_%s)", len(f.Body), rsHexHead(f.Body))
		case rsIsReqCtor(ctor):
			// a request of another type: the sixth field names its constructor
			name, tag, n, ok := rsReqParse(f.Body)
			if !ok || !bytes.Equal(f.Body, rsReqWire(name, tag, n)) {
				s.log.add("X:malformed-request(%d_bytes_%s)", len(f.Body), rsHexHead(f.Body))
				break
			}
			f.Caller = int(tag - rsTagBase)
			s.reqs = append(s.reqs, f)
			s.log.add("S:%d:%d:%d:%d:q:%08x", tag-rsTagBase, f.Mid, f.Seq, int64(f.Salt), ctor)
		case ctor == rsCrcAck:
			n := -1
			if len(f.Body) >= 12 && binary.LittleEndian.Uint32(f.Body[4:]) == rsCrcVector {
				n = int(binary.LittleEndian.Uint32(f.Body[8:]))
			}
			if n < 1 || len(f.Body) != 12+8*n {
				s.log.add("X:malformed-msgs_ack(%d_bytes_%s)", len(f.Body), rsHexHead(f.Body))
				break
			}
			var ids []string
			for i := 0; i < n; i++ {
				ids = append(ids, strconv.FormatUint(binary.LittleEndian.Uint64(f.Body[12+8*i:]), 10))
			}
			s.acks = append(s.acks, f)
			s.log.add("S:L:%d:%d:%d:k:%s", f.Mid, f.Seq, int64(f.Salt), strings.Join(ids, "+"))
		default:
			s.log.add("S:?:%d:%d:%d:o:%08x", f.Mid, f.Seq, int64(f.Salt), ctor)
		}
		s.cond.Broadcast()
		s.mu.Unlock()
	}
}

// waitReqs blocks until n request frames have arrived (or the timeout passes).
func (s *rsServer) waitReqs(n int, d time.Duration) bool {
	deadline := time.Now().Add(d)
	s.mu.Lock()
	defer s.mu.Unlock()
	for len(s.reqs) < n {
		if time.Now().After(deadline) {
			return false
		}
		s.mu.Unlock()
		time.Sleep(200 * time.Microsecond)
		s.mu.Lock()
	}
	return true
}

func (s *rsServer) waitConns(n int, d time.Duration) bool {
	deadline := time.Now().Add(d)
	for {
		s.mu.Lock()
		ok := s.conns >= n
		s.mu.Unlock()
		if ok {
			return true
		}
		if time.Now().After(deadline) {
			return false
		}
		time.Sleep(200 * time.Microsecond)
	}
}

// latestReq returns the latest request frame of caller i.
func (s *rsServer) latestReq(i int) (rsFrame, bool) {
	s.mu.Lock()
	defer s.mu.Unlock()
	for k := len(s.reqs) - 1; k >= 0; k-- {
		if s.reqs[k].Caller == i {
			return s.reqs[k], true
		}
	}
	return rsFrame{}, false
}

// rsHexHead: the first bytes of a message, for an X event
func rsHexHead(b []byte) string {
	if len(b) > 24 {
		b = b[:24]
	}
	return fmt.Sprintf("%x", b)
}

func (s *rsServer) newMsgID() uint64 {
	s.nextID += 4
	return s.nextID
}

// sendBody seals and sends one message; content-related messages get an odd seq_no.
func (s *rsServer) sendBody(body []byte, contentRelated bool, desc string) uint64 {
	return s.sendBodyID(0, body, contentRelated, desc)
}

// sendBodyID: useID != 0 sends under a msg_id taken earlier (a message created before others that were
// delivered first).
func (s *rsServer) sendBodyID(useID uint64, body []byte, contentRelated bool, desc string) uint64 {
	s.mu.Lock()
	mid := useID
	if mid == 0 {
		mid = s.newMsgID()
	}
	seq := s.content * 2
	if contentRelated {
		seq++
		s.content++
	}
	c := s.conn
	sid := s.sid
	s.mu.Unlock()
	line := fmt.Sprintf("R:%d:%d:%s", mid, seq, desc)
	s.log.add("%s", line)
	pkt := envSeal(8, s.key, envMsg{Salt: 0x1122334455667788, Sid: sid, Mid: mid, Seq: seq, Body: body}, rsPad(len(body)))
	hdr := make([]byte, 4)
	binary.LittleEndian.PutUint32(hdr, uint32(len(pkt)))
	s.mu.Lock()
	s.last, s.lastLog = append(hdr, pkt...), line
	s.mu.Unlock()
	if c != nil {
		_, _ = c.Write(append(hdr, pkt...))
	}
	return mid
}

// resend delivers the last top-level message once more, byte for byte (a server that has not seen its
// acknowledgement does that).
func (s *rsServer) resend() bool {
	s.mu.Lock()
	pkt, line, c := s.last, s.lastLog, s.conn
	s.mu.Unlock()
	if pkt == nil || c == nil {
		return false
	}
	s.log.add("%s", line)
	_, _ = c.Write(pkt)
	return true
}

// sendPlain writes a PLAIN-TEXT frame on the session's connection: auth_key_id 0, a msg_id, the length, the body —
// the envelope of the key exchange. Nobody needs the auth key to write one, so on a session that already works
// under its key such a frame does not come from the server: whatever it carries, the client must not take it for
// a message (event U:<msg_id>:<description>, never R). how: "" well formed (server-parity msg_id, true length);
// "~" a msg_id of client parity; "+" a length field four bytes larger than the body (the last two are refused by
// the envelope layer whatever the session's state).
func (s *rsServer) sendPlain(body []byte, desc, how string) {
	s.mu.Lock()
	mid := s.newMsgID()
	c := s.conn
	s.mu.Unlock()
	declared := uint32(len(body))
	switch how {
	case "~":
		mid &^= 3
	case "+":
		declared += 4
	}
	s.log.add("U:%d:%s", mid, desc)
	pkt := rsCat(rsU64(0), rsU64(mid), rsU32(declared), body)
	if c != nil {
		_, _ = c.Write(rsCat(rsU32(uint32(len(pkt))), pkt))
	}
}

// sendJunk writes a frame of the TRANSPORT level that is not a sealed message (event J:<payload in hex>, "-" for an
// empty one; never R: the server's counters stay as they are). what: c<n> — the four-byte error code n (int32; a real
// server answers a keyed client with -404, -429, -444); z<n> — n zero bytes (n = 4: the code 0; n >= 8: auth_key_id 0);
// k<n> — n bytes (8 <= n) that begin with the session's auth_key_id, the rest filler: below 24 bytes there is no
// room for a msg_key; o<n> — the same under another (non-zero) auth_key_id; x<hex> — these bytes.
func (s *rsServer) sendJunk(what string) bool {
	if what == "" {
		return false
	}
	var pl []byte
	n, _ := strconv.Atoi(what[1:])
	fill := func(head []byte, n int) []byte {
		b := append([]byte{}, head...)
		for i := len(b); i < n; i++ {
			b = append(b, byte(0xA1+7*i))
		}
		return b[:n]
	}
	switch what[0] {
	case 'c':
		v, err := strconv.ParseInt(what[1:], 10, 32)
		if err != nil {
			return false
		}
		pl = rsU32(uint32(int32(v)))
	case 'z':
		if n < 0 || n > 1<<16 {
			return false
		}
		pl = make([]byte, n)
	case 'k', 'o':
		if n < 8 || n > 1<<16 {
			return false
		}
		h := sha1.Sum(s.key)
		id := append([]byte{}, h[12:20]...)
		if what[0] == 'o' {
			id[3] ^= 0x5a
		}
		pl = fill(id, n)
	case 'x':
		b, err := hex.DecodeString(what[1:])
		if err != nil {
			return false
		}
		pl = b
	default:
		return false
	}
	s.mu.Lock()
	c := s.conn
	s.mu.Unlock()
	if len(pl) == 0 {
		s.log.add("J:-")
	} else {
		s.log.add("J:%s", hex.EncodeToString(pl))
	}
	if c != nil {
		_, _ = c.Write(rsCat(rsU32(uint32(len(pl))), pl))
	}
	return true
}

// ---- yield rules: hold a goroutine of the client at a named point (build-tag hooks in /repo) -------------

type rsYieldRule struct {
	point, sel string
	d          time.Duration
	n          int
}

var (
	rsYieldMu    sync.Mutex
	rsYieldRules []*rsYieldRule
	rsYieldHits  = map[string]int{}
)

func rsYieldSel(arg interface{}) string {
	var body []byte
	switch a := arg.(type) {
	case *objects.MsgsAck:
		return "k"
	case *objects.PingParams, *rsPingDelayDisconnect, *objects.MsgsStateReq, *objects.MsgResendReq, *objects.ReqPQParams,
		*objects.ReqDHParamsParams, *objects.SetClientDHParamsParams, *rsRpcDropAnswer, *rsGetFutureSalts, *rsDestroySession:
		return "q"
	case messages.Common:
		body = a.GetMsg()
	case tl.Object:
		return "o"
	}
	if len(body) >= 4 {
		switch binary.LittleEndian.Uint32(body) {
		case rsCrcAck:
			return "k"
		case rsCrcPing, rsCrcPingDelay, rsCrcStateReq, rsCrcResendReq, rsCrcReqPQ, rsCrcReqDH, rsCrcSetDH, rsCrcDropAnswer, rsCrcGetSalts, rsCrcDestroy:
			return "q"
		case rsCrcRpcResult:
			return "r"
		}
	}
	return "o"
}

func rsYield(point string, arg interface{}) {
	sel := rsYieldSel(arg)
	var d time.Duration
	rsYieldMu.Lock()
	for _, ru := range rsYieldRules {
		if ru.n > 0 && ru.point == point && (ru.sel == "*" || ru.sel == sel) {
			ru.n--
			d = ru.d
			rsYieldHits[point+"/"+ru.sel]++
			break
		}
	}
	rsYieldMu.Unlock()
	if d > 0 {
		time.Sleep(d)
	}
}

// ---- fault rules: make a chosen write of the client fail (build-tag hook in internal/transport) ------------

var (
	rsFaultRules []*rsYieldRule // d unused
	rsFaultLog   *rsLog
)

func rsFault(point string, arg interface{}) error {
	sel := rsYieldSel(arg)
	hit := false
	rsYieldMu.Lock()
	for _, ru := range rsFaultRules {
		if ru.n > 0 && ru.point == point && (ru.sel == "*" || ru.sel == sel) {
			ru.n--
			hit = true
			rsYieldHits["fault:"+point+"/"+ru.sel]++
			break
		}
	}
	log := rsFaultLog
	rsYieldMu.Unlock()
	if !hit {
		return nil
	}
	if log != nil {
		ids := "-"
		if mc, ok := arg.(messages.Common); ok && sel == "k" {
			b := mc.GetMsg()
			var xs []string
			if len(b) >= 12 {
				n := int(binary.LittleEndian.Uint32(b[8:]))
				for i := 0; i < n && 12+8*i+8 <= len(b); i++ {
					xs = append(xs, strconv.FormatUint(binary.LittleEndian.Uint64(b[12+8*i:]), 10))
				}
			}
			ids = strings.Join(xs, "+")
		}
		// F:<sel>:<ids>: the write of this message failed (for an acknowledgement: the ids it named)
		log.add("F:%s:%s", sel, ids)
	}
	return fmt.Errorf("injected transient write error")
}

// rsTeardown reports how often each yield rule actually held a goroutine.
func rsTeardown() {
	rsYieldMu.Lock()
	defer rsYieldMu.Unlock()
	if theG != nil && len(rsYieldHits) > 0 {
		hits := map[string]int{}
		for k, v := range rsYieldHits {
			hits[k] = v
		}
		theG.Extra["yield_points_hit"] = hits
	}
}

// rsAddYield parses "y<p><sel>:<µs>:<n>" — p: w = transport write, c = caller between send and receive,
// r = receive loop before it processes a message, R = the receive goroutine before a read of the connection; sel: k ack, q request, r rpc_result, o other, * any.
func rsAddYield(st string) bool {
	parts := strings.Split(st[1:], ":")
	if len(parts) != 3 || len(parts[0]) != 2 {
		return false
	}
	point := map[byte]string{'w': "write", 'c': "call:sent", 'r': "recv:process", 'R': "read"}[parts[0][0]]
	if point == "" {
		return false
	}
	rsYieldMu.Lock()
	rsYieldRules = append(rsYieldRules, &rsYieldRule{point: point, sel: parts[0][1:], d: time.Duration(atoi(parts[1])) * time.Microsecond, n: atoi(parts[2])})
	rsYieldMu.Unlock()
	return true
}

func rsPad(bodyLen int) []byte {
	return make([]byte, (16-(32+bodyLen)%16)%16)
}

// closeConn closes the connection in an orderly way: it sends FIN (half-close) and keeps reading until
// the client has closed its side, so that the client sees an end of stream and not a reset.
func (s *rsServer) closeConn() {
	s.mu.Lock()
	c := s.conn
	s.mu.Unlock()
	if c == nil {
		return
	}
	if tc, ok := c.(*net.TCPConn); ok {
		_ = tc.CloseWrite()
		go func() {
			time.Sleep(300 * time.Millisecond)
			_ = tc.Close()
		}()
		return
	}
	_ = c.Close()
}

// markLost: the connection in use ends without the server reading what the client still writes into it
func (s *rsServer) markLost() net.Conn {
	s.mu.Lock()
	defer s.mu.Unlock()
	if s.lost == nil {
		s.lost = map[int]bool{}
	}
	s.lost[s.conns] = true
	return s.conn
}

// dropConn closes the connection at once, both directions (a server process that ends, a load balancer that drops
// the session): when nothing of the client is unread the client still sees an orderly end of stream, after
// everything the server sent — but whatever it writes from now on (the acknowledgements it owes) goes nowhere,
// the first write at the latest provokes a reset and the following ones fail.
func (s *rsServer) dropConn() {
	if c := s.markLost(); c != nil {
		_ = c.Close()
	}
}

// resetConn: the connection is reset (RST instead of FIN; what was not read yet on either side is gone)
func (s *rsServer) resetConn() {
	c := s.markLost()
	if tc, ok := c.(*net.TCPConn); ok {
		_ = tc.SetLinger(0)
	}
	if c != nil {
		_ = c.Close()
	}
}

// cutConn: the first n bytes of the frame that would carry body reach the client, then the stream ends (n < 4: inside
// the length prefix, n >= 4: inside the packet). The message is never delivered: no R event.
func (s *rsServer) cutConn(n int, body []byte, contentRelated bool) {
	s.mu.Lock()
	mid := s.newMsgID()
	seq := s.content * 2
	if contentRelated {
		seq++
		s.content++
	}
	sid := s.sid
	s.mu.Unlock()
	pkt := envSeal(8, s.key, envMsg{Salt: 0x1122334455667788, Sid: sid, Mid: mid, Seq: seq, Body: body}, rsPad(len(body)))
	frame := rsCat(rsU32(uint32(len(pkt))), pkt)
	if n > len(frame)-1 {
		n = len(frame) - 1
	}
	c := s.markLost()
	if c != nil && n > 0 {
		_, _ = c.Write(frame[:n])
	}
	s.closeConn()
}

func (s *rsServer) stop() {
	_ = s.ln.Close()
	s.closeConn()
}

// ---- TL building blocks (by hand: the peer does not use the repository's codec) ----------------------

func rsU32(v uint32) []byte { b := make([]byte, 4); binary.LittleEndian.PutUint32(b, v); return b }
func rsU64(v uint64) []byte { b := make([]byte, 8); binary.LittleEndian.PutUint64(b, v); return b }
func rsCat(parts ...[]byte) []byte {
	var out []byte
	for _, p := range parts {
		out = append(out, p...)
	}
	return out
}
func rsStr(b []byte) []byte {
	var out []byte
	if len(b) < 254 {
		out = append([]byte{byte(len(b))}, b...)
	} else {
		out = append([]byte{0xfe, byte(len(b)), byte(len(b) >> 8), byte(len(b) >> 16)}, b...)
	}
	for len(out)%4 != 0 {
		out = append(out, 0)
	}
	return out
}
func rsGzip(plain []byte) []byte {
	var buf bytes.Buffer
	w := gzip.NewWriter(&buf)
	_, _ = w.Write(plain)
	_ = w.Close()
	return rsCat(rsU32(rsCrcGzip), rsStr(buf.Bytes()))
}

// rsResult builds the result payload for a caller kind; val is its canonical text (as dumpAny prints
// what the call must return).
// rsGzipRaw: the bare gzip stream of plain (rsGzip wraps it into gzip_packed)
func rsGzipRaw(plain []byte) []byte {
	var buf bytes.Buffer
	w := gzip.NewWriter(&buf)
	_, _ = w.Write(plain)
	_ = w.Close()
	return buf.Bytes()
}

// rsErrFamilies: the parametrised error families of the API documentation (prefix, suffix): the text the server
// sends carries a number between them; the structured error names the family with X in its place and carries
// the number as its parameter. PHONE_MIGRATE_ is left out: the client acts on it (reconnects) instead of
// returning it (C17 covers that).
var rsErrFamilies = [][2]string{
	{"FLOOD_WAIT_", ""}, {"SLOWMODE_WAIT_", ""}, {"FILE_MIGRATE_", ""}, {"FILE_PART_", "_MISSING"},
	{"TAKEOUT_INIT_DELAY_", ""}, {"USER_MIGRATE_", ""}, {"NETWORK_MIGRATE_", ""}, {"STATS_MIGRATE_", ""},
	{"SESSION_TOO_FRESH_", ""}, {"PASSWORD_TOO_FRESH_", ""}, {"FLOOD_TEST_PHONE_WAIT_", ""}, {"EMAIL_UNCONFIRMED_", ""},
}

// rsErrVal: what a call answered with rpc_error(code, text) must return, written from the documentation — for
// a text of a parametrised family with a plain decimal parameter: E:<code>:<family with X>:<parameter>:<the
// numbers the error's text mentions: the parameter, then the code>; for any other text E:<code>:<text>.
func rsErrVal(code int, text string) string {
	for _, f := range rsErrFamilies {
		if strings.HasPrefix(text, f[0]) && strings.HasSuffix(text, f[1]) && len(text) > len(f[0])+len(f[1]) {
			mid := text[len(f[0]) : len(text)-len(f[1])]
			if n, err := strconv.Atoi(mid); err == nil && strconv.Itoa(n) == mid && n >= 0 {
				return fmt.Sprintf("E:%d:%sX%s:%d:%d+%d", code, f[0], f[1], n, n, code)
			}
		}
	}
	return fmt.Sprintf("E:%d:%s", code, text)
}

// rsNumbers: the maximal runs of digits of a text, joined by "+"
func rsNumbers(s string) string {
	var out []string
	for i := 0; i < len(s); {
		if s[i] < '0' || s[i] > '9' {
			i++
			continue
		}
		j := i
		for j < len(s) && s[j] >= '0' && s[j] <= '9' {
			j++
		}
		out = append(out, s[i:j])
		i = j
	}
	return strings.Join(out, "+")
}

// rsBigBytes: n reproducible bytes for caller tag (no long runs of one value, different for every caller)
func rsBigBytes(n, tag int) []byte {
	b := make([]byte, n)
	x := uint32(tag)*2654435761 + 12345
	for i := range b {
		x = x*1664525 + 1013904223
		b[i] = byte(x >> 24)
	}
	return b
}

// rsShowBytes: how a bytes field appears in a trace — hex as dumpAny prints it when short, length and digest
// when long (a result of a megabyte would make every trace line megabytes long)
func rsShowBytes(b []byte) string {
	if len(b) <= 64 {
		return "b" + hexD(b)
	}
	return fmt.Sprintf("bL%d.%08x", len(b), fnv32(b))
}

// rsShorten applies rsShowBytes's rule to the dump of a returned value
func rsShorten(dump string) string {
	var out strings.Builder
	for i := 0; i < len(dump); {
		if dump[i] != 'b' || (i > 0 && dump[i-1] != '(' && dump[i-1] != ';') {
			out.WriteByte(dump[i])
			i++
			continue
		}
		j := i + 1
		for j < len(dump) && (dump[j] >= '0' && dump[j] <= '9' || dump[j] >= 'a' && dump[j] <= 'f') {
			j++
		}
		if j-(i+1) <= 128 || (j-(i+1))%2 != 0 {
			out.WriteString(dump[i:j])
		} else {
			raw := make([]byte, (j-(i+1))/2)
			for k := range raw {
				v, _ := strconv.ParseUint(dump[i+1+2*k:i+3+2*k], 16, 8)
				raw[k] = byte(v)
			}
			out.WriteString(rsShowBytes(raw))
		}
		i = j
	}
	return out.String()
}

func rsResult(kind string, tag int) (payload []byte, val string) {
	if strings.HasPrefix(kind, "ob") && len(kind) > 2 {
		// ob<n>: an object with a bytes field of n bytes (server_DH_params_ok: two int128 and a string) — what a
		// file part looks like to the transport: one result of about n bytes
		n := atoi(kind[2:])
		data := rsBigBytes(n, tag)
		i128 := func(v int) []byte { b := make([]byte, 16); binary.BigEndian.PutUint64(b[8:], uint64(v)); return b }
		return rsCat(rsU32(rsCrcDHOk), i128(tag), i128(tag*5+2), rsStr(data)),
			fmt.Sprintf("od0e8075c(i16:%d;i16:%d;%s)", tag, tag*5+2, rsShowBytes(data))
	}
	if strings.HasPrefix(kind, "e") && len(kind) > 1 {
		// e<code>.<TEXT>: rpc_error with this code and text (the real families: FLOOD_WAIT_<n>, FILE_MIGRATE_<n> …)
		dot := strings.Index(kind, ".")
		if dot < 0 {
			panic("bad caller kind " + kind)
		}
		code, text := atoi(kind[1:dot]), kind[dot+1:]
		return rsCat(rsU32(rsCrcRpcError), rsU32(uint32(int32(code))), rsStr([]byte(text))), rsErrVal(code, text)
	}
	if strings.HasPrefix(kind, "vl") && len(kind) > 2 { // vl<n>: Vector<long> of n elements (serialised size 8+8n)
		n := atoi(kind[2:])
		b := rsCat(rsU32(rsCrcVector), rsU32(uint32(n)))
		xs := make([]string, n)
		for i := 0; i < n; i++ {
			b = append(b, rsU64(uint64(tag+i))...)
			xs[i] = fmt.Sprintf("l%d", tag+i)
		}
		return b, "v(" + strings.Join(xs, ";") + ")"
	}
	switch kind {
	case "o": // an object: pong carrying the caller's tag
		return rsCat(rsU32(rsCrcPong), rsU64(uint64(tag)), rsU64(uint64(tag)*3+1)),
			fmt.Sprintf("o347773c5(l%d;l%d)", tag, tag*3+1)
	case "b": // Bool
		if tag%2 == 0 {
			return rsU32(rsCrcTrue), "T"
		}
		return rsU32(rsCrcFalse), "F"
	case "vl": // Vector<long>
		return rsCat(rsU32(rsCrcVector), rsU32(3), rsU64(uint64(tag)), rsU64(uint64(tag)+1), rsU64(0)),
			fmt.Sprintf("v(l%d;l%d;l0)", tag, tag+1)
	case "vo": // Vector<future_salt> (boxed objects)
		fs := func(a uint32, salt uint64) []byte {
			return rsCat(rsU32(rsCrcFutSalt), rsU32(a), rsU32(a+1), rsU64(salt))
		}
		return rsCat(rsU32(rsCrcVector), rsU32(2), fs(uint32(tag), 11), fs(uint32(tag)+5, 12)),
			fmt.Sprintf("v(o0949d9dc(w%d;w%d;l11);o0949d9dc(w%d;w%d;l12))", tag, tag+1, tag+5, tag+6)
	case "e": // rpc_error
		text := fmt.Sprintf("SOME_ERROR_%d", tag)
		return rsCat(rsU32(rsCrcRpcError), rsU32(uint32(400+tag%100)), rsStr([]byte(text))),
			fmt.Sprintf("E:%d:%s", 400+tag%100, text)
	}
	panic("bad caller kind " + kind)
}

func rsRpcResult(reqID uint64, payload []byte) []byte {
	return rsCat(rsU32(rsCrcRpcResult), rsU64(reqID), payload)
}

// ---- request types -----------------------------------------------------------------------------------------
//
// A caller kind may name the request its call sends: "<result kind>@<request type>" (without "@…": ping). MakeRequest
// takes any tl.Object, so an application can send every request of the MTProto service schema: the ones the
// repository's objects package defines (req_pq, req_DH_params, set_client_DH_params, ping, msgs_state_req,
// msg_resend_req) and the ones it only names in comments (rpc_drop_answer, get_future_salts, ping_delay_disconnect,
// destroy_session), defined here. Every request carries the caller's tag in its first field; the peer recognises
// the type by its constructor, rebuilds the serialisation by hand from the schema line and compares byte for byte.
//
//   pi                ping#7abe77ec ping_id:long
//   pd                ping_delay_disconnect#f3427b8c ping_id:long disconnect_delay:int
//   sr<n>  (n >= 1)   msgs_state_req#da69fb52 msg_ids:Vector<long>
//   rr<n>  (n >= 1)   msg_resend_req#7d861a08 msg_ids:Vector<long>
//   pq                req_pq#60469778 nonce:int128
//   dh                req_DH_params#d712e4be nonce:int128 server_nonce:int128 p:bytes q:bytes public_key_fingerprint:long encrypted_data:bytes
//   sc                set_client_DH_params#f5045f1f nonce:int128 server_nonce:int128 encrypted_data:bytes
//   da                rpc_drop_answer#58e4a740 req_msg_id:long
//   fs                get_future_salts#b921bd04 num:int
//   ds                destroy_session#e7512126 session_id:long

const (
	rsCrcPingDelay  = 0xf3427b8c
	rsCrcStateReq   = 0xda69fb52
	rsCrcResendReq  = 0x7d861a08
	rsCrcReqPQ      = 0x60469778
	rsCrcReqDH      = 0xd712e4be
	rsCrcSetDH      = 0xf5045f1f
	rsCrcDropAnswer = 0x58e4a740
	rsCrcGetSalts   = 0xb921bd04
	rsCrcDestroy    = 0xe7512126
)

type rsPingDelayDisconnect struct {
	PingID          int64
	DisconnectDelay int32
}

func (*rsPingDelayDisconnect) CRC() uint32 { return rsCrcPingDelay }

type rsRpcDropAnswer struct{ ReqMsgID int64 }

func (*rsRpcDropAnswer) CRC() uint32 { return rsCrcDropAnswer }

type rsGetFutureSalts struct{ Num int32 }

func (*rsGetFutureSalts) CRC() uint32 { return rsCrcGetSalts }

type rsDestroySession struct{ SessionID int64 }

func (*rsDestroySession) CRC() uint32 { return rsCrcDestroy }

var rsReqCtors = map[string]uint32{"pi": rsCrcPing, "pd": rsCrcPingDelay, "sr": rsCrcStateReq, "rr": rsCrcResendReq, "pq": rsCrcReqPQ,
	"dh": rsCrcReqDH, "sc": rsCrcSetDH, "da": rsCrcDropAnswer, "fs": rsCrcGetSalts, "ds": rsCrcDestroy}

func rsIsReqCtor(ctor uint32) bool {
	for _, c := range rsReqCtors {
		if c == ctor {
			return true
		}
	}
	return false
}

// rsContentRelated: the MTProto description, "Content-related Message: a message requiring an explicit
// acknowledgment. These include all the user and many service messages, virtually all with the exception of
// containers and acknowledgments" — the seq_no of a content-related message is odd, of the two exceptions even.
// Written from that sentence, not from the client's table.
func rsContentRelated(ctor uint32) bool {
	return ctor != rsCrcAck && ctor != rsCrcContainer
}

// rsSplitKind: "o@sr3" -> result kind "o", request type "sr", 3; a kind without a request type: ping
func rsSplitKind(kind string) (res, req string, n int) {
	at := strings.LastIndex(kind, "@")
	if at < 0 {
		return kind, "pi", 0
	}
	name := kind[at+1:]
	if len(name) > 2 && (name[:2] == "sr" || name[:2] == "rr") {
		if v, err := strconv.Atoi(name[2:]); err == nil && v >= 1 && v <= 100000 {
			return kind[:at], name[:2], v
		}
		return kind, "pi", 0
	}
	if _, ok := rsReqCtors[name]; ok && name != "sr" && name != "rr" {
		return kind[:at], name, 0
	}
	return kind, "pi", 0 // an "@" of an error text
}

func rsReqIDs(tag int64, n int) []int64 {
	ids := make([]int64, n)
	for j := range ids {
		ids[j] = tag + int64(j)*(1<<34) // the first id is the tag
	}
	return ids
}

func rsI128(v int64) []byte {
	b := make([]byte, 16)
	binary.BigEndian.PutUint64(b[8:], uint64(v))
	return b
}

// rsReqObject: what the application passes to MakeRequest
func rsReqObject(req string, tag int64, n int) tl.Object {
	i128 := func(v int64) *tl.Int128 { return &tl.Int128{Int: big.NewInt(v)} }
	switch req {
	case "pi":
		return &objects.PingParams{PingID: tag}
	case "pd":
		return &rsPingDelayDisconnect{PingID: tag, DisconnectDelay: 75}
	case "sr":
		return &objects.MsgsStateReq{MsgIDs: rsReqIDs(tag, n)}
	case "rr":
		return &objects.MsgResendReq{MsgIDs: rsReqIDs(tag, n)}
	case "pq":
		return &objects.ReqPQParams{Nonce: i128(tag)}
	case "dh":
		return &objects.ReqDHParamsParams{Nonce: i128(tag), ServerNonce: i128(tag*3 + 1), P: []byte{0x49, 0x4c, 0x55, 0x3b}, Q: []byte{0x53, 0x91, 0x10, 0x73},
			PublicKeyFingerprint: tag * 7, EncryptedData: rsBigBytes(256, int(tag))}
	case "sc":
		return &objects.SetClientDHParamsParams{Nonce: i128(tag), ServerNonce: i128(tag*3 + 1), EncryptedData: rsBigBytes(336, int(tag)+1)}
	case "da":
		return &rsRpcDropAnswer{ReqMsgID: tag}
	case "fs":
		return &rsGetFutureSalts{Num: int32(tag)}
	case "ds":
		return &rsDestroySession{SessionID: tag}
	}
	panic("bad request type " + req)
}

// rsReqWire: the serialisation of that request, written from its schema line
func rsReqWire(req string, tag int64, n int) []byte {
	switch req {
	case "pi":
		return rsCat(rsU32(rsCrcPing), rsU64(uint64(tag)))
	case "pd":
		return rsCat(rsU32(rsCrcPingDelay), rsU64(uint64(tag)), rsU32(75))
	case "sr", "rr":
		b := rsCat(rsU32(rsReqCtors[req]), rsU32(rsCrcVector), rsU32(uint32(n)))
		for _, id := range rsReqIDs(tag, n) {
			b = append(b, rsU64(uint64(id))...)
		}
		return b
	case "pq":
		return rsCat(rsU32(rsCrcReqPQ), rsI128(tag))
	case "dh":
		return rsCat(rsU32(rsCrcReqDH), rsI128(tag), rsI128(tag*3+1), rsStr([]byte{0x49, 0x4c, 0x55, 0x3b}), rsStr([]byte{0x53, 0x91, 0x10, 0x73}),
			rsU64(uint64(tag*7)), rsStr(rsBigBytes(256, int(tag))))
	case "sc":
		return rsCat(rsU32(rsCrcSetDH), rsI128(tag), rsI128(tag*3+1), rsStr(rsBigBytes(336, int(tag)+1)))
	case "da":
		return rsCat(rsU32(rsCrcDropAnswer), rsU64(uint64(tag)))
	case "fs":
		return rsCat(rsU32(rsCrcGetSalts), rsU32(uint32(tag)))
	case "ds":
		return rsCat(rsU32(rsCrcDestroy), rsU64(uint64(tag)))
	}
	panic("bad request type " + req)
}

// rsReqParse: type, tag (the first field) and number of ids of a request frame, by its constructor
func rsReqParse(body []byte) (req string, tag int64, n int, ok bool) {
	if len(body) < 8 {
		return "", 0, 0, false
	}
	ctor := binary.LittleEndian.Uint32(body)
	for name, c := range rsReqCtors {
		if c == ctor {
			req = name
		}
	}
	switch req {
	case "pi", "pd", "da", "ds":
		if len(body) < 12 {
			return "", 0, 0, false
		}
		return req, int64(binary.LittleEndian.Uint64(body[4:])), 0, true
	case "fs":
		return req, int64(int32(binary.LittleEndian.Uint32(body[4:]))), 0, true
	case "pq", "dh", "sc":
		if len(body) < 20 {
			return "", 0, 0, false
		}
		return req, int64(binary.BigEndian.Uint64(body[12:])), 0, true
	case "sr", "rr":
		if len(body) < 20 {
			return "", 0, 0, false
		}
		cnt := binary.LittleEndian.Uint32(body[8:])
		if cnt < 1 || cnt > 100000 {
			return "", 0, 0, false
		}
		return req, int64(binary.LittleEndian.Uint64(body[12:])), int(cnt), true
	}
	return "", 0, 0, false
}

// ---- the client under test -----------------------------------------------------------------------------

type rsStore struct {
	failNext  int           // the next so many Store calls fail (plan step fs:<n>)
	slowNext  int           // the next so many Store calls are slow (plan step ds:<ms>:<n>) …
	slowFor   time.Duration // … by this much
	maxSlowed time.Duration // the longest delay configured in this scenario (the scenario waits that long at its end)
	mu        sync.Mutex
	s         *session.Session
	log       *rsLog
	// file != nil (plan prefix "SF"): the session lives in the repository's FILE store (session.NewFromFile on a
	// file left by "an earlier run"); Load and Store go to it, and after every Store the harness reads the file
	// back with its own reader: W:<salt> is logged for what the file then holds, nothing when the store refused
	file session.SessionLoader
	path string
}

func (st *rsStore) Load() (*session.Session, error) {
	if st.file != nil {
		return st.file.Load()
	}
	st.mu.Lock()
	defer st.mu.Unlock()
	c := *st.s
	return &c, nil
}

// rsWriteSessionFile / rsReadSessionFile: the session file format written and read by hand (a JSON object of
// four strings: key and hash in base64, the salt as base64 of its eight little-endian bytes, the host name)
func rsWriteSessionFile(path string, x *session.Session) error {
	b, _ := json.Marshal(map[string]string{
		"key":      base64.StdEncoding.EncodeToString(x.Key),
		"hash":     base64.StdEncoding.EncodeToString(x.Hash),
		"salt":     base64.StdEncoding.EncodeToString(rsU64(uint64(x.Salt))),
		"hostname": x.Hostname,
	})
	if err := os.WriteFile(path, b, 0o600); err != nil {
		return err
	}
	// the file was left by an earlier run of the program, some time ago
	old := time.Now().Add(-time.Hour)
	return os.Chtimes(path, old, old)
}

func rsReadSessionFile(path string) (*session.Session, error) {
	b, err := os.ReadFile(path)
	if err != nil {
		return nil, err
	}
	var f map[string]string
	if err := json.Unmarshal(b, &f); err != nil {
		return nil, err
	}
	x := &session.Session{Hostname: f["hostname"]}
	if x.Key, err = base64.StdEncoding.DecodeString(f["key"]); err != nil {
		return nil, err
	}
	if x.Hash, err = base64.StdEncoding.DecodeString(f["hash"]); err != nil {
		return nil, err
	}
	salt, err := base64.StdEncoding.DecodeString(f["salt"])
	if err != nil || len(salt) != 8 {
		return nil, fmt.Errorf("salt is not eight bytes in base64")
	}
	x.Salt = int64(binary.LittleEndian.Uint64(salt))
	return x, nil
}
func (st *rsStore) Store(x *session.Session) error {
	st.mu.Lock()
	if st.failNext > 0 {
		// an injected fault: the store refuses (disk full, permissions …); F:s:<salt> instead of W:<salt>
		st.failNext--
		st.mu.Unlock()
		st.log.add("F:s:%d", x.Salt)
		return fmt.Errorf("injected session store failure")
	}
	c := *x
	var d time.Duration
	if st.slowNext > 0 {
		st.slowNext--
		d = st.slowFor
	}
	st.mu.Unlock()
	if d > 0 {
		// a slow store (a network file system, a database): the write lands when the call returns
		time.Sleep(d)
	}
	if st.file != nil {
		if err := st.file.Store(x); err != nil {
			return err // not an injected fault: nothing was written, nothing is logged as written
		}
		got, err := rsReadSessionFile(st.path)
		if err == nil && bytes.Equal(got.Key, x.Key) && bytes.Equal(got.Hash, x.Hash) && got.Hostname == x.Hostname {
			st.log.add("W:%d", got.Salt) // what an independent reader finds in the file now
		}
		return nil
	}
	st.mu.Lock()
	st.s = &c
	st.mu.Unlock()
	st.log.add("W:%d", x.Salt)
	return nil
}

type rsRun struct {
	srv     *rsServer
	log     *rsLog
	m       *mtproto.MTProto
	store   *rsStore
	kinds   []string // result kind of every caller
	reqs    []string // request type of every caller (rsSplitKind)
	reqN    []int    // number of ids of a msgs_state_req / msg_resend_req
	wg      sync.WaitGroup
	warnN   int
	warnMu  sync.Mutex
	started time.Time
	procs   int    // GOMAXPROCS before a plan step P<n> changed it (0: unchanged)
	tmpDir  string // holds the session file of a scenario on the file store
}

func rsStart(kinds []string, salt int64) (*rsRun, error) { return rsStartOn(kinds, salt, false) }

// rsStartOn: fileStore — the client's session store is the repository's file store on a file written before
func rsStartOn(kinds []string, salt int64, fileStore bool) (*rsRun, error) {
	log := &rsLog{}
	key := envLCG(256, 99)
	rsYieldMu.Lock()
	rsYieldRules = nil
	rsFaultRules = nil
	rsFaultLog = log
	rsYieldMu.Unlock()
	mtproto.VerifYield = rsYield
	transport.VerifYield = rsYield
	transport.VerifFault = rsFault
	srv := rsNewServer(key, log)
	srv.mu.Lock()
	srv.callers = len(kinds)
	srv.mu.Unlock()
	store := &rsStore{log: log, s: &session.Session{Key: key, Hash: envSha1(key)[12:20], Salt: salt, Hostname: srv.ln.Addr().String()}}
	tmpDir := ""
	if fileStore {
		var err error
		if tmpDir, err = os.MkdirTemp("", "vh-session-"); err != nil {
			srv.stop()
			return nil, err
		}
		store.path = filepath.Join(tmpDir, "session.json")
		if err = rsWriteSessionFile(store.path, store.s); err != nil {
			srv.stop()
			_ = os.RemoveAll(tmpDir)
			return nil, err
		}
		store.file = session.NewFromFile(store.path)
	}
	m, err := mtproto.NewMTProto(mtproto.Config{SessionStorage: store, ServerHost: srv.ln.Addr().String()})
	if err != nil {
		srv.stop()
		if tmpDir != "" {
			_ = os.RemoveAll(tmpDir)
		}
		return nil, err
	}
	r := &rsRun{srv: srv, log: log, m: m, store: store, started: time.Now(), tmpDir: tmpDir}
	for _, k := range kinds {
		res, req, n := rsSplitKind(k)
		r.kinds, r.reqs, r.reqN = append(r.kinds, res), append(r.reqs, req), append(r.reqN, n)
	}
	// the application's handler for what is not service traffic (updates): it sees every such object, claims none
	// (the client then reports the object on the warning channel as before). H:<object>
	m.AddCustomServerRequestHandler(func(obj any) bool {
		log.add("H:%s", rsHandlerDump(obj))
		return false
	})
	m.Warnings = make(chan error, 4096)
	go func() {
		for w := range m.Warnings {
			r.warnMu.Lock()
			r.warnN++
			r.warnMu.Unlock()
			log.add("V:%s", rsWarnClass(w))
		}
	}()
	if err := m.CreateConnection(); err != nil {
		srv.stop()
		return nil, err
	}
	if !srv.waitConns(1, 2*time.Second) {
		srv.stop()
		return nil, fmt.Errorf("client did not connect")
	}
	return r, nil
}

// rsHandlerDump: how an object handed to the application's handler appears in the trace
func rsHandlerDump(obj any) (out string) {
	defer func() {
		if recover() != nil {
			out = "?"
		}
	}()
	d := strings.NewReplacer(",", ";", ":", ".").Replace(rsShorten(rsDump(obj)))
	if len(d) > 160 {
		d = d[:160] + "…"
	}
	return d
}

// rsUpdDump: the object of plan item "u" as rsHandlerDump prints it
const rsUpdDump = "o0949d9dc(w1;w2;l3)"

func rsWarnClass(err error) string {
	s := err.Error()
	switch {
	case strings.Contains(s, "nonsystem message"):
		return "nonsystem"
	case strings.Contains(s, "not registered"):
		return "unregistered"
	case strings.Contains(s, "msgID"):
		return "unknown-req-id"
	case strings.HasPrefix(s, "reading message") && !strings.Contains(s, "parsing message"):
		// the connection could not be read any further (timeout — "required to reconnect!" —, reset, a frame cut
		// short): it is replaced. Before "reconnect": that class is the dial that failed ("can't reconnect")
		return "conn-broken"
	case strings.Contains(s, "reconnect"):
		return "reconnect"
	case strings.Contains(s, "sending ack"):
		return "ackfail" // the consequence of an injected write fault (event F), not a message the client could not handle
	case strings.Contains(s, "saving session"):
		return "storefail" // the consequence of an injected store fault (event F:s)
	}
	if len(s) > 40 {
		s = s[:40]
	}
	return "other(" + strings.ReplaceAll(strings.ReplaceAll(s, " ", "_"), ":", ".") + ")"
}

// call runs one RPC call of caller i in its own goroutine and logs what it returns.
func (r *rsRun) call(i int) {
	r.wg.Add(1)
	go func() {
		defer r.wg.Done()
		defer func() {
			if p := recover(); p != nil {
				r.log.add("D:%d:panic", i)
			}
		}()
		req := rsReqObject(r.reqs[i], int64(rsTagBase+i), r.reqN[i])
		var res interface{}
		var err error
		switch {
		case strings.HasPrefix(r.kinds[i], "vl"):
			res, err = r.m.MakeRequestWithHintToDecoder(req, reflect.TypeOf([]int64{}))
		case r.kinds[i] == "vo":
			res, err = r.m.MakeRequestWithHintToDecoder(req, reflect.TypeOf([]*objects.FutureSalt{}))
		default:
			res, err = r.m.MakeRequest(req)
		}
		if err != nil {
			if e, ok := rsCause(err).(*mtproto.ErrResponseCode); ok && e.AdditionalInfo != nil {
				// a parametrised error: code, family name, parameter, and the numbers its text mentions
				r.log.add("D:%d:E:%d:%s:%v:%s", i, e.Code, e.Message, e.AdditionalInfo, rsNumbers(e.Error()))
			} else if ok {
				r.log.add("D:%d:E:%d:%s", i, e.Code, e.Message)
			} else if _, ok := rsCause(err).(*mtproto.BadMsgError); ok {
				r.log.add("D:%d:badmsg", i)
			} else {
				r.log.add("D:%d:err(%s)", i, strings.ReplaceAll(strings.ReplaceAll(err.Error(), " ", "_"), ":", "."))
			}
			return
		}
		r.log.add("D:%d:%s", i, rsShorten(rsDump(res)))
	}()
}

func rsCause(err error) error {
	type causer interface{ Cause() error }
	for err != nil {
		c, ok := err.(causer)
		if !ok {
			break
		}
		err = c.Cause()
	}
	return err
}

func rsDump(x interface{}) string {
	switch v := x.(type) {
	case bool:
		if v {
			return "T"
		}
		return "F"
	case nil:
		return "N"
	}
	return dumpAny(x)
}

// waitCalls waits for every started call to return.
func (r *rsRun) waitCalls(d time.Duration) bool {
	done := make(chan struct{})
	go func() { r.wg.Wait(); close(done) }()
	select {
	case <-done:
		return true
	case <-time.After(d):
		return false
	}
}

func (r *rsRun) finish() {
	// close the listener first: the client's reconnect attempt then fails and its goroutines end
	_ = r.srv.ln.Close()
	r.srv.closeConn()
	time.Sleep(2 * time.Millisecond)
	if r.procs > 0 {
		runtime.GOMAXPROCS(r.procs)
		r.procs = 0
	}
	if r.tmpDir != "" {
		_ = os.RemoveAll(r.tmpDir)
	}
}

// ---- scenarios -----------------------------------------------------------------------------------------

// item builds one server message body from a plan item; returns body, whether it is content-related, and
// its description for the trace.
func (r *rsRun) item(it string) (body []byte, content bool, desc string, ok bool) {
	// a notification item may name its error_code: b/<code>, B<i>/<code>, Bk<j>/<code>, r<i>/<salt>/<code>,
	// rk<j>/<salt>/<code> — any 32-bit value, in the specification's list or not (the default is the code a
	// real server would send)
	code, hasCode := uint32(0), false
	if strings.HasPrefix(it, "b/") || strings.HasPrefix(it, "B") || strings.HasPrefix(it, "r") {
		want := 1
		if strings.HasPrefix(it, "r") {
			want = 2
		}
		if parts := strings.Split(it, "/"); len(parts) == want+1 {
			v, err := strconv.ParseInt(parts[want], 10, 64)
			if err != nil || v < -(1<<31) || v >= 1<<32 {
				return nil, false, "", false
			}
			code, hasCode, it = uint32(v), true, strings.Join(parts[:want], "/")
		}
	}
	codeOr := func(def uint32) []byte {
		if hasCode {
			return rsU32(code)
		}
		return rsU32(def)
	}
	switch {
	case it == "p":
		return rsCat(rsU32(rsCrcPong), rsU64(1), rsU64(2)), false, "pong", true
	case it == "pk": // the answer a conformant server gives to the client's latest keepalive ping: a bare pong naming it
		r.srv.mu.Lock()
		n := len(r.srv.pings)
		var f rsFrame
		if n > 0 {
			f = r.srv.pings[n-1]
		}
		r.srv.mu.Unlock()
		if n == 0 || len(f.Body) != 12 {
			return nil, false, "", false
		}
		return rsCat(rsU32(rsCrcPong), rsU64(f.Mid), f.Body[4:12]), false, "pong", true
	case it == "k":
		return rsCat(rsU32(rsCrcAck), rsU32(rsCrcVector), rsU32(1), rsU64(4)), false, "ack", true
	case strings.HasPrefix(it, "z(") && strings.HasSuffix(it, ")"): // z(<item>): the item inside gzip_packed (the client unpacks it and
		// treats what it finds like the message itself; what cannot be decoded inside is reported like the bare item)
		b, content, desc, ok := r.item(it[2 : len(it)-1])
		if !ok {
			return nil, false, "", false
		}
		return rsGzip(b), content, desc, true
	case strings.HasPrefix(it, "M"):
		return r.svcItem(it[1:])
	case strings.HasPrefix(it, "mc") || strings.HasPrefix(it, "ml") || (len(it) > 2 && it[0] == 'v' && strings.IndexByte("ksraf", it[1]) >= 0 && it[2] >= '0' && it[2] <= '9'):
		return r.countItem(it)
	case strings.HasPrefix(it, "n"):
		salt, _ := strconv.ParseInt(it[1:], 10, 64)
		return rsCat(rsU32(rsCrcNewSess), rsU64(5), rsU64(6), rsU64(uint64(salt))), true, fmt.Sprintf("news(%d)", salt), true
	case it == "u":
		// an API object as an update: updateShort-like is too big; a registered small object: future_salt
		return rsCat(rsU32(rsCrcFutSalt), rsU32(1), rsU32(2), rsU64(3)), true, "upd", true
	case it == "x":
		return rsCat(rsU32(0xdeadbeef), rsU64(1)), true, "unk", true
	case it == "t":
		return rsCat(rsU32(rsCrcPong), rsU32(1)), false, "trunc", true
	case it == "e":
		return rsCat(rsU32(rsCrcContainer), rsU32(0)), false, "cont()", true
	case it == "b":
		return rsCat(rsU32(rsCrcBadMsg), rsU64(4), rsU32(1), codeOr(16)), false, "badmsg(4)", true
	case strings.HasPrefix(it, "T") || strings.HasPrefix(it, "U"): // bad_msg_notification 16 (msg_id too low) / 17 (too high) for caller i's request
		i := atoi(it[1:])
		f, found := r.srv.latestReq(i)
		if !found {
			return nil, false, "", false
		}
		code := uint32(16)
		if it[0] == 'U' {
			code = 17
		}
		return rsCat(rsU32(rsCrcBadMsg), rsU64(f.Mid), rsU32(f.Seq), rsU32(code)), false, fmt.Sprintf("badmsg(%d)", f.Mid), true
	case strings.HasPrefix(it, "F"): // an rpc_result naming caller i's latest request with a value the server's script never
		// sends: what somebody who has seen the request's msg_id on the wire can write
		i := atoi(it[1:])
		f, found := r.srv.latestReq(i)
		if !found {
			return nil, false, "", false
		}
		return rsRpcResult(f.Mid, rsCat(rsU32(rsCrcPong), rsU64(424242), rsU64(uint64(i)))), true,
			fmt.Sprintf("res(%d/o347773c5(l424242;l%d))", f.Mid, i), true
	case strings.HasPrefix(it, "E"): // rpc_error as the answer to caller i's latest request, whatever result its call declares
		i := atoi(it[1:])
		f, found := r.srv.latestReq(i)
		if !found {
			return nil, false, "", false
		}
		payload, val := rsResult("e", rsTagBase+i)
		return rsRpcResult(f.Mid, payload), true, fmt.Sprintf("res(%d/%s)", f.Mid, val), true
	case it == "0": // a message with an empty body (inside a container: a member of zero bytes)
		return []byte{}, false, "trunc", true
	case it == "ub": // a content-related message (an object the client does not know) with a body of more than 2^20 bytes
		return rsCat(rsU32(0xdeadbeef), make([]byte, 1<<20+64)), true, "unk", true
	case it == "kb": // a well-formed msgs_ack naming 140000 ids: a frame of more than 2^20 bytes
		b := rsCat(rsU32(rsCrcAck), rsU32(rsCrcVector), rsU32(140000))
		ids := make([]byte, 8*140000)
		for j := 0; j < 140000; j++ {
			binary.LittleEndian.PutUint64(ids[8*j:], uint64(4*j+4))
		}
		return append(b, ids...), false, "ack", true
	case strings.HasPrefix(it, "tr"): // an rpc_result (for an unknown request) cut to this many bytes
		n := atoi(it[2:])
		b := rsRpcResult(0x0123456789abcdef, rsCat(rsU32(rsCrcPong), rsU64(1), rsU64(2)))
		if n > len(b) {
			n = len(b)
		}
		return b[:n], true, "trunc", true
	case it == "zt" || it == "zc": // gzip_packed, well framed: the 8-byte trailer is missing / carries a wrong crc32
		// (the deflate data is complete: the client as it stands reads the pong and ignores the damaged end —
		// what must not happen is that the damaged end stops the receive loop)
		z := rsGzipRaw(rsCat(rsU32(rsCrcPong), rsU64(1), rsU64(2)))
		if it == "zt" {
			z = z[:len(z)-8]
		} else {
			z[len(z)-6] ^= 0x10
		}
		return rsCat(rsU32(rsCrcGzip), rsStr(z)), true, "pong", true
	case strings.HasPrefix(it, "c(") && strings.HasSuffix(it, ")"): // a container of items (which may be containers)
		inner := rsSplitParen(it[2:len(it)-1], ',')
		body := rsCat(rsU32(rsCrcContainer), rsU32(uint32(len(inner))))
		var descs []string
		for _, in := range inner {
			// #<slot>(<item>): a member that is delivered again — the first use of a slot takes a msg_id and a
			// seq_no as usual, every later use (in this container, a nested one or a later one) carries the same two
			slot := -1
			if strings.HasPrefix(in, "#") && strings.HasSuffix(in, ")") && strings.Index(in, "(") > 1 {
				slot = atoi(in[1:strings.Index(in, "(")])
				in = in[strings.Index(in, "(")+1 : len(in)-1]
			}
			b, content, desc, ok := r.item(in)
			if !ok {
				return nil, false, "", false
			}
			r.srv.mu.Lock()
			var mid uint64
			var seq uint32
			if again, have := r.srv.slots[slot]; slot >= 0 && have {
				mid, seq = again.Mid, again.Seq
			} else {
				mid = r.srv.newMsgID()
				seq = r.srv.content * 2
				if content {
					seq++
					r.srv.content++
				}
				if slot >= 0 {
					if r.srv.slots == nil {
						r.srv.slots = map[int]rsFrame{}
					}
					r.srv.slots[slot] = rsFrame{Mid: mid, Seq: seq}
				}
			}
			r.srv.mu.Unlock()
			body = rsCat(body, rsU64(mid), rsU32(seq), rsU32(uint32(len(b))), b)
			descs = append(descs, fmt.Sprintf("%d:%d:%s", mid, seq, desc))
		}
		return body, false, "cont[" + strings.Join(descs, "|") + "]", true
	case strings.HasPrefix(it, "N"): // N<d>(<item>): the item inside d nested containers
		open := strings.Index(it, "(")
		if open < 0 || !strings.HasSuffix(it, ")") {
			return nil, false, "", false
		}
		d := atoi(it[1:open])
		b, content, desc, ok := r.item(it[open+1 : len(it)-1])
		if !ok || d < 1 {
			return nil, false, "", false
		}
		// the message is laid out back to front in one buffer (wrapping level by level would copy everything
		// d times: the harness must not have the quadratic cost it is looking for in the client)
		const hdr = 24 // constructor id, count, msg_id, seq_no, bytes
		buf := make([]byte, hdr*d+len(b))
		copy(buf[hdr*d:], b)
		inner := len(b)
		for lvl := 0; lvl < d; lvl++ {
			r.srv.mu.Lock()
			mid := r.srv.newMsgID()
			seq := r.srv.content * 2
			if content {
				seq++
				r.srv.content++
			}
			r.srv.mu.Unlock()
			at := hdr * (d - 1 - lvl)
			binary.LittleEndian.PutUint32(buf[at:], rsCrcContainer)
			binary.LittleEndian.PutUint32(buf[at+4:], 1)
			binary.LittleEndian.PutUint64(buf[at+8:], mid)
			binary.LittleEndian.PutUint32(buf[at+16:], seq)
			binary.LittleEndian.PutUint32(buf[at+20:], uint32(inner))
			inner += hdr
			switch {
			case d > 64 && lvl < d-10:
				// a very deep message is described down to its ninth level only ("deep" = further containers):
				// no client looks further than maxContainerDepth, and the trace stays readable
				desc = "deep"
			default:
				desc = fmt.Sprintf("cont[%d:%d:%s]", mid, seq, desc)
			}
			content = false
		}
		b = buf
		return b, false, desc, true
	case strings.HasPrefix(it, "Bk"): // bad_msg_notification naming the j-th msgs_ack the client wrote
		s := r.srv
		s.mu.Lock()
		j := atoi(it[2:])
		if j >= len(s.acks) {
			s.mu.Unlock()
			return nil, false, "", false
		}
		f := s.acks[j]
		s.mu.Unlock()
		return rsCat(rsU32(rsCrcBadMsg), rsU64(f.Mid), rsU32(f.Seq), codeOr(35)), false, fmt.Sprintf("badmsg(%d)", f.Mid), true
	case strings.HasPrefix(it, "rk"): // bad_server_salt naming the j-th msgs_ack the client wrote
		parts := strings.SplitN(it[2:], "/", 2)
		salt, _ := strconv.ParseInt(parts[1], 10, 64)
		s := r.srv
		s.mu.Lock()
		j := atoi(parts[0])
		if j >= len(s.acks) {
			s.mu.Unlock()
			return nil, false, "", false
		}
		f := s.acks[j]
		s.mu.Unlock()
		return rsCat(rsU32(rsCrcBadSalt), rsU64(f.Mid), rsU32(f.Seq), codeOr(48), rsU64(uint64(salt))), false,
			fmt.Sprintf("salt(%d/%d)", f.Mid, salt), true
	case strings.HasPrefix(it, "B"): // bad_msg_notification naming caller i's latest request
		i := atoi(it[1:])
		f, found := r.srv.latestReq(i)
		if !found {
			return nil, false, "", false
		}
		return rsCat(rsU32(rsCrcBadMsg), rsU64(f.Mid), rsU32(f.Seq), codeOr(35)), false, fmt.Sprintf("badmsg(%d)", f.Mid), true
	case strings.HasPrefix(it, "q"):
		id, _ := strconv.ParseUint(it[1:], 10, 64)
		return rsRpcResult(id, rsCat(rsU32(rsCrcPong), rsU64(1), rsU64(2))), true, fmt.Sprintf("res(%d/o347773c5(l1;l2))", id), true
	case strings.HasPrefix(it, "a") || strings.HasPrefix(it, "d"):
		z := strings.HasSuffix(it, "z")
		i := atoi(strings.TrimSuffix(it[1:], "z"))
		f, found := r.srv.latestReq(i)
		if !found {
			return nil, false, "", false
		}
		payload, val := rsResult(r.kinds[i], rsTagBase+i)
		if z {
			payload = rsGzip(payload)
		}
		return rsRpcResult(f.Mid, payload), true, fmt.Sprintf("res(%d/%s)", f.Mid, val), true
	case strings.HasPrefix(it, "r"):
		parts := strings.SplitN(it[1:], "/", 2)
		i := atoi(parts[0])
		salt, _ := strconv.ParseInt(parts[1], 10, 64)
		f, found := r.srv.latestReq(i)
		if !found {
			return nil, false, "", false
		}
		return rsCat(rsU32(rsCrcBadSalt), rsU64(f.Mid), rsU32(f.Seq), codeOr(48), rsU64(uint64(salt))), false,
			fmt.Sprintf("salt(%d/%d)", f.Mid, salt), true
	}
	return nil, false, "", false
}

// clientIDs: n msg_ids for a service message about messages — those of the messages the client wrote, newest
// first, then made-up ones
func (r *rsRun) clientIDs(n int) []byte {
	r.srv.mu.Lock()
	defer r.srv.mu.Unlock()
	out := make([]byte, 0, 8*n)
	for k := len(r.srv.frames) - 1; k >= 0 && len(out) < 8*n; k-- {
		out = append(out, rsU64(r.srv.frames[k].Mid)...)
	}
	for j := 0; len(out) < 8*n; j++ {
		out = append(out, rsU64(uint64(0x5f00000000000000+4*j))...)
	}
	return out
}

// svcItem: M<name>[<n>][~] — a well-formed service message a server may send that is a request to the client or
// an informational message (MTProto "service messages about messages" and the answers of service requests),
// written from its schema line; n = number of ids / status bytes / salts (default 1, 0 allowed). Requests and
// answers are sent as content-related messages, informational ones not; "~" behind the item flips that.
//
//	sr msgs_state_req#da69fb52 msg_ids:Vector<long>            rr msg_resend_req#7d861a08 msg_ids:Vector<long>
//	ra msg_resend_ans_req#8610baeb msg_ids:Vector<long>        si msgs_state_info#04deb57d req_msg_id:long info:string
//	ai msgs_all_info#8cc0d131 msg_ids:Vector<long> info:string di msg_detailed_info#276d3ec6 msg_id:long answer_msg_id:long bytes:int status:int
//	ni msg_new_detailed_info#809db6df answer_msg_id:long bytes:int status:int
//	fs future_salts#ae500895 req_msg_id:long now:int salts:vector<future_salt>  (bare vector of bare elements)
//	do destroy_session_ok#e22045fc session_id:long             dn destroy_session_none#62d350c9 session_id:long
//	au rpc_answer_unknown#5e2ad36e   ar rpc_answer_dropped_running#cd78e586   ad rpc_answer_dropped#a43ad8b7 msg_id:long seq_no:int bytes:int
//	pi ping#7abe77ec ping_id:long
//
// The client as it stands has no use for any of them: each is reported on the warning channel (description
// svc(<name>): one warning) and the receive loop goes on.
func (r *rsRun) svcItem(it string) (body []byte, content bool, desc string, ok bool) {
	flip := strings.HasSuffix(it, "~")
	it = strings.TrimSuffix(it, "~")
	if len(it) < 2 {
		return nil, false, "", false
	}
	name, n := it[:2], 1
	if len(it) > 2 {
		v, err := strconv.Atoi(it[2:])
		if err != nil || v < 0 || v > 100000 {
			return nil, false, "", false
		}
		n = v
	}
	vec := func() []byte { return rsCat(rsU32(rsCrcVector), rsU32(uint32(n)), r.clientIDs(n)) }
	status := func() []byte {
		b := make([]byte, n)
		for j := range b {
			b[j] = []byte{1, 2, 3, 4, 4 | 8, 4 | 16, 4 | 32 | 64}[j%7]
		}
		return rsStr(b)
	}
	switch name {
	case "sr":
		body, content = rsCat(rsU32(rsCrcStateReq), vec()), true
	case "rr":
		body, content = rsCat(rsU32(rsCrcResendReq), vec()), true
	case "ra":
		body, content = rsCat(rsU32(0x8610baeb), vec()), true
	case "si":
		body = rsCat(rsU32(0x04deb57d), r.clientIDs(1), status())
	case "ai":
		body = rsCat(rsU32(0x8cc0d131), vec(), status())
	case "di":
		body = rsCat(rsU32(0x276d3ec6), r.clientIDs(1), rsU64(r.srv.nextIDPeek()), rsU32(48), rsU32(0))
	case "ni":
		body = rsCat(rsU32(0x809db6df), rsU64(r.srv.nextIDPeek()), rsU32(48), rsU32(0))
	case "fs":
		now := uint32(time.Now().Unix())
		body, content = rsCat(rsU32(0xae500895), r.clientIDs(1), rsU32(now), rsU32(uint32(n))), true
		for j := 0; j < n; j++ {
			body = rsCat(body, rsU32(now+uint32(3600*j)), rsU32(now+uint32(3600*j+3600)), rsU64(uint64(0x0101010101010101*(j+1))))
		}
	case "do":
		body, content = rsCat(rsU32(0xe22045fc), rsU64(r.srv.sidNow())), true
	case "dn":
		body, content = rsCat(rsU32(0x62d350c9), rsU64(r.srv.sidNow()^1)), true
	case "au":
		body, content = rsU32(0x5e2ad36e), true
	case "ar":
		body, content = rsU32(0xcd78e586), true
	case "ad":
		body, content = rsCat(rsU32(0xa43ad8b7), r.clientIDs(1), rsU32(7), rsU32(32)), true
	case "pi":
		body, content = rsCat(rsU32(rsCrcPing), rsU64(99)), true
	default:
		return nil, false, "", false
	}
	if flip {
		content = !content
	}
	return body, content, "svc(" + it + ")", true
}

func (s *rsServer) nextIDPeek() uint64 { s.mu.Lock(); defer s.mu.Unlock(); return s.nextID }
func (s *rsServer) sidNow() uint64     { s.mu.Lock(); defer s.mu.Unlock(); return s.sid }

// countItem: service messages whose 32-bit count or length field carries an arbitrary value (a decoder that reads
// it as a signed number sees 0x80000000..0xffffffff as negative), with and without data behind it:
//
//	mc<count>+<k>   msg_container declaring count messages, k complete members (pongs) behind the count
//	ml<len>         msg_container of one member whose bytes field says len (20 bytes of pong follow); len > 20
//	vk<count>+<k>   msgs_ack, vs… msgs_state_req, vr… msg_resend_req, va… msgs_all_info: Vector<long> declaring count
//	                ids, k ids behind it;   vf… future_salts declaring count salts, k salts behind it
//
// ("+<k>" may be left out: nothing behind the count.) What the client as it stands does with them — it must in
// any case go on reading: a container whose count is zero or negative as a signed number is an empty container
// (nothing reported, whatever follows is not looked at); a count or length that the data behind it cannot satisfy
// makes the message undecodable (one warning); a count the data satisfies is an ordinary message (data behind the
// last element is not looked at).
func (r *rsRun) countItem(it string) (body []byte, content bool, desc string, ok bool) {
	kind, rest := it[:2], it[2:]
	k := 0
	if plus := strings.Index(rest, "+"); plus >= 0 {
		v, err := strconv.Atoi(rest[plus+1:])
		if err != nil || v < 0 || v > 4096 {
			return nil, false, "", false
		}
		k, rest = v, rest[:plus]
	}
	c64, err := strconv.ParseUint(rest, 10, 32)
	if err != nil {
		return nil, false, "", false
	}
	count := uint32(c64)
	pong := rsCat(rsU32(rsCrcPong), rsU64(1), rsU64(2))
	switch kind {
	case "mc":
		body = rsCat(rsU32(rsCrcContainer), rsU32(count))
		var descs []string
		for j := 0; j < k; j++ {
			r.srv.mu.Lock()
			mid := r.srv.newMsgID()
			seq := r.srv.content * 2
			r.srv.mu.Unlock()
			body = rsCat(body, rsU64(mid), rsU32(seq), rsU32(uint32(len(pong))), pong)
			if int64(j) < int64(int32(count)) {
				descs = append(descs, fmt.Sprintf("%d:%d:pong", mid, seq))
			}
		}
		switch {
		case int32(count) <= 0:
			return body, false, "cont()", true
		case int64(count) > int64(k):
			return body, false, "trunc", true
		}
		return body, false, "cont[" + strings.Join(descs, "|") + "]", true
	case "ml":
		if count <= uint32(len(pong)) {
			return nil, false, "", false
		}
		r.srv.mu.Lock()
		mid := r.srv.newMsgID()
		seq := r.srv.content * 2
		r.srv.mu.Unlock()
		return rsCat(rsU32(rsCrcContainer), rsU32(1), rsU64(mid), rsU32(seq), rsU32(count), pong), false, "trunc", true
	case "vf":
		now := uint32(time.Now().Unix())
		body = rsCat(rsU32(0xae500895), r.clientIDs(1), rsU32(now), rsU32(count))
		for j := 0; j < k; j++ {
			body = rsCat(body, rsU32(now), rsU32(now+3600), rsU64(uint64(j+1)))
		}
		return body, true, "svc(" + it + ")", true
	}
	ctor := map[string]uint32{"vk": rsCrcAck, "vs": rsCrcStateReq, "vr": rsCrcResendReq, "va": 0x8cc0d131}[kind]
	body = rsCat(rsU32(ctor), rsU32(rsCrcVector), rsU32(count), r.clientIDs(k))
	if kind == "va" && int64(count) <= int64(k) {
		body = rsCat(body, rsStr(make([]byte, count)))
	}
	switch {
	case kind == "vk" && int64(count) <= int64(k):
		return body, false, "ack", true // a msgs_ack the data satisfies: nothing to report
	case kind == "vk":
		return body, false, "trunc", true
	}
	return body, kind != "va", "svc(" + it + ")", true
}

// runPlan executes the plan steps; returns a note when a step could not be carried out.
func (r *rsRun) runPlan(plan string) string {
	for _, st := range strings.Split(plan, ";") {
		switch {
		case st == "" || st == "-" || st == "SF": // SF (first step): the scenario runs on the file store, see rsScenario
		case strings.HasPrefix(st, "P"): // P<n>: the Go scheduler gets n processors until the scenario ends (P1: every
			// goroutine of the client runs on one processor, as on a single-CPU host)
			old := runtime.GOMAXPROCS(atoi(st[1:]))
			if r.procs == 0 {
				r.procs = old
			}
		case strings.HasPrefix(st, "g"): // start calls: g0+1+2
			for _, t := range strings.Split(st[1:], "+") {
				r.call(atoi(t))
			}
		case strings.HasPrefix(st, "wk"): // wk<n>: wait for the client's n-th keepalive ping (one per minute of a connection's life)
			n, deadline := atoi(st[2:]), time.Now().Add(time.Duration(atoi(st[2:]))*time.Minute+15*time.Second)
			for {
				r.srv.mu.Lock()
				have := len(r.srv.pings)
				r.srv.mu.Unlock()
				if have >= n {
					break
				}
				if time.Now().After(deadline) {
					return "no-keepalive-ping:" + st
				}
				time.Sleep(5 * time.Millisecond)
			}
		case st == "drop" || st == "rst" || strings.HasPrefix(st, "cut"):
			// the connection ends in a way that is not the orderly half-close of step "close": dropped at once with
			// the client's acknowledgements unread (drop), reset (rst), or in the middle of a frame (cut<n>:<item>, n
			// bytes of the frame arrive). The client must come back on a new connection with the same key.
			before := r.srv.conns
			r.log.add("C:%s", map[bool]string{true: "cut", false: st}[strings.HasPrefix(st, "cut")])
			switch {
			case st == "drop":
				r.srv.dropConn()
			case st == "rst":
				r.srv.resetConn()
			default:
				colon := strings.Index(st, ":")
				if colon < 0 {
					return "bad-item:" + st
				}
				b, content, _, ok := r.item(st[colon+1:])
				if !ok {
					return "bad-item:" + st
				}
				r.srv.cutConn(atoi(st[3:colon]), b, content)
			}
			if !r.srv.waitConns(before+1, 3*time.Second) {
				return "no-reconnect"
			}
			time.Sleep(4 * time.Millisecond)
		case strings.HasPrefix(st, "w"):
			if !r.srv.waitReqs(atoi(st[1:]), 3*time.Second) {
				return "timeout-waiting-for-requests:" + st
			}
		case strings.HasPrefix(st, "s"):
			time.Sleep(time.Duration(atoi(st[1:])) * time.Microsecond)
		case st == "W": // wait until everything sent so far has been acknowledged
			r.rsWaitAcks(500 * time.Millisecond)
		case st == "h": // take a msg_id now for a message that is delivered later ("^item")
			r.srv.mu.Lock()
			r.srv.held = append(r.srv.held, r.srv.newMsgID())
			r.srv.mu.Unlock()
		case strings.HasPrefix(st, "^"):
			r.srv.mu.Lock()
			var id uint64
			if len(r.srv.held) > 0 {
				id, r.srv.held = r.srv.held[0], r.srv.held[1:]
			}
			r.srv.mu.Unlock()
			b, content, desc, ok := r.item(st[1:])
			if !ok || id == 0 {
				return "bad-item:" + st
			}
			r.srv.sendBodyID(id, b, content, desc)
		case strings.HasPrefix(st, "~"): // ~<item>: the item as a plain-text frame (~~<item>, ~+<item>: damaged ones, see sendPlain)
			how, it := "", st[1:]
			if strings.HasPrefix(it, "~") || strings.HasPrefix(it, "+") {
				how, it = it[:1], it[1:]
			}
			// whoever writes the frame is not the server: the server's own counters stay as they are
			r.srv.mu.Lock()
			content := r.srv.content
			r.srv.mu.Unlock()
			b, _, desc, ok := r.item(it)
			r.srv.mu.Lock()
			r.srv.content = content
			r.srv.mu.Unlock()
			if !ok {
				return "bad-item:" + st
			}
			r.srv.sendPlain(b, desc, how)
		case strings.HasPrefix(st, "!"): // !c<n> !z<n> !k<n> !o<n> !x<hex>: a transport-level frame that is no sealed message, see sendJunk
			if !r.srv.sendJunk(st[1:]) {
				return "bad-item:" + st
			}
		case st == "=":
			if !r.srv.resend() {
				return "bad-item:="
			}
		case strings.HasPrefix(st, "ds:"): // ds:<ms>:<n> — the next n writes to the session store take this long
			parts := strings.Split(st[3:], ":")
			if len(parts) != 2 {
				return "bad-item:" + st
			}
			r.store.mu.Lock()
			r.store.slowFor = time.Duration(atoi(parts[0])) * time.Millisecond
			r.store.slowNext += atoi(parts[1])
			if r.store.slowFor > r.store.maxSlowed {
				r.store.maxSlowed = r.store.slowFor
			}
			r.store.mu.Unlock()
		case strings.HasPrefix(st, "f"): // f<sel>:<n> — the next n writes of messages of that kind fail
			parts := strings.Split(st[1:], ":")
			if len(parts) != 2 {
				return "bad-item:" + st
			}
			if parts[0] == "s" { // fs:<n> — the next n writes to the session store fail
				r.store.mu.Lock()
				r.store.failNext += atoi(parts[1])
				r.store.mu.Unlock()
				break
			}
			rsYieldMu.Lock()
			rsFaultRules = append(rsFaultRules, &rsYieldRule{point: "write", sel: parts[0], n: atoi(parts[1])})
			rsYieldMu.Unlock()
		case strings.HasPrefix(st, "Q"): // the server has already sent this many content-related messages (seq_no = 2n+1 next)
			r.srv.mu.Lock()
			r.srv.content = uint32(atoi(st[1:]))
			r.srv.mu.Unlock()
		case strings.HasPrefix(st, "I"): // I<msg_id>: the server's next message carries the msg_id after this one (any 64-bit value
			// that is 1 or 3 modulo 4: a server whose clock is far ahead or behind, a msg_id with bit 63 set, near 2^64)
			id, err := strconv.ParseUint(st[1:], 10, 64)
			if err != nil || id%4 == 0 || id%4 == 2 || id > 1<<64-1-2048 {
				return "bad-item:" + st
			}
			r.srv.mu.Lock()
			r.srv.nextID = id
			r.srv.mu.Unlock()
		case strings.HasPrefix(st, "K"): // the server's clock runs this many seconds ahead of the client's (negative: behind)
			r.srv.mu.Lock()
			r.srv.nextID += uint64(atoi(st[1:])) << 32
			r.srv.mu.Unlock()
		case strings.HasPrefix(st, "y"):
			if !rsAddYield(st) {
				return "bad-item:" + st
			}
		case st == "j": // join: wait until every call started so far has returned
			if !r.waitCalls(3 * time.Second) {
				return "calls-did-not-return-at-join"
			}
		case st == "X": // the application reconnects (what PHONE_MIGRATE does too): Reconnect() from another goroutine
			before := r.srv.conns
			r.log.add("C:app")
			done := make(chan error, 1)
			go func() { done <- r.m.Reconnect() }()
			select {
			case err := <-done:
				if err != nil {
					return "reconnect-failed:" + strings.ReplaceAll(err.Error(), " ", "_")
				}
			case <-time.After(3 * time.Second):
				return "reconnect-did-not-return"
			}
			if !r.srv.waitConns(before+1, 3*time.Second) {
				return "no-reconnect"
			}
			time.Sleep(4 * time.Millisecond)
		case st == "close":
			before := r.srv.conns
			r.log.add("C:eof")
			r.srv.closeConn()
			if !r.srv.waitConns(before+1, 3*time.Second) {
				return "no-reconnect"
			}
			// the new connection is accepted before the client has stored its new transport: a request
			// issued in that window fails with a write error (a runtime race the model does not describe);
			// "later requests" start after it
			time.Sleep(4 * time.Millisecond)
		default:
			b, content, desc, ok := r.item(st)
			if !ok {
				return "bad-item:" + st
			}
			r.srv.sendBody(b, content, desc)
		}
	}
	return ""
}

// rsScenario runs one scenario and returns its trace (events joined by commas) and a status note.
func rsScenario(kindsCSV, plan string) (trace string, note string) {
	kinds := strings.Split(kindsCSV, ",")
	r, err := rsStartOn(kinds, 1000, plan == "SF" || strings.HasPrefix(plan, "SF;"))
	if err != nil {
		return "", "start-failed:" + strings.ReplaceAll(err.Error(), " ", "_")
	}
	note = r.runPlan(plan)
	if !r.waitCalls(3 * time.Second) {
		if note == "" {
			note = "calls-did-not-return"
		}
	}
	// quiescence: give the receive loop time to emit the acknowledgements it owes, and a slow store time to finish
	r.store.mu.Lock()
	slow := r.store.maxSlowed
	r.store.mu.Unlock()
	time.Sleep(3*time.Millisecond + slow + slow/4)
	if !r.lostAcksOnly() {
		r.rsWaitAcks(300 * time.Millisecond)
	}
	// acknowledgements of messages that were sent on a connection that ended with the client's writes unread: the
	// client wrote them into a connection that was gone (or could not write them) — lost with the connection, an
	// environment fault like an injected write error (F:k:<ids>)
	if lost := r.lostAcks(); len(lost) > 0 {
		var xs []string
		for _, id := range lost {
			xs = append(xs, strconv.FormatUint(id, 10))
		}
		r.log.add("F:k:%s", strings.Join(xs, "+"))
	}
	// Z: the scenario is over; the peer goes away now. The client loses the connection, its redial fails
	// ("can't reconnect", V:reconnect if it is logged in time) and it gives up: lifecycle events after the end
	r.log.add("Z")
	r.finish()
	ev := r.log.snapshot()
	return strings.Join(ev, ","), note
}

// lostAcks: unacknowledged content-related messages that were sent on a connection marked lost
func (r *rsRun) lostAcks() []uint64 {
	evs := r.log.snapshot()
	r.srv.mu.Lock()
	lost := r.srv.lost
	r.srv.mu.Unlock()
	if len(lost) == 0 {
		return nil
	}
	missing := map[uint64]int{}
	for _, id := range rsMissingAcks(evs) {
		missing[id]++
	}
	var out []uint64
	gen := 0
	for _, e := range evs {
		switch {
		case strings.HasPrefix(e, "N:"):
			gen = atoi(e[2:])
		case strings.HasPrefix(e, "R:") && lost[gen]:
			for _, s := range rsFlattenR(e) {
				if s.seq%2 == 1 && missing[s.mid] > 0 {
					out = append(out, s.mid)
					missing[s.mid]--
				}
			}
		}
	}
	return out
}

// lostAcksOnly: every acknowledgement still missing is one that was lost with its connection (nothing to wait for)
func (r *rsRun) lostAcksOnly() bool {
	return len(r.lostAcks()) > 0 && len(r.lostAcks()) == len(rsMissingAcks(r.log.snapshot()))
}

// rsWaitAcks waits until every content-related message the server sent has been acknowledged (or the
// timeout passes — the judge then reports what is missing).
func (r *rsRun) rsWaitAcks(d time.Duration) {
	deadline := time.Now().Add(d)
	for time.Now().Before(deadline) {
		if len(rsMissingAcks(r.log.snapshot())) == 0 {
			return
		}
		time.Sleep(500 * time.Microsecond)
	}
}

// ---- reading a trace back ----------------------------------------------------------------------------------

type rsSent struct { // server -> client message (flattened: container members are listed individually)
	mid  uint64
	seq  uint32
	desc string
}

// rsMaxContainerDepth: containers nested deeper are refused by the client as a whole (one warning), their
// members are never looked at (mtproto.go maxContainerDepth; the Lean model has the same constant)
const rsMaxContainerDepth = 4

func rsFlattenR(ev string) []rsSent {
	// R:<mid>:<seq>:<desc>   desc may be cont[mid:seq:desc|...], members may be containers themselves
	parts := strings.SplitN(ev, ":", 4)
	mid, _ := strconv.ParseUint(parts[1], 10, 64)
	seq, _ := strconv.ParseUint(parts[2], 10, 32)
	return rsFlattenDesc(mid, uint32(seq), parts[3], 0)
}

func rsFlattenDesc(mid uint64, seq uint32, desc string, depth int) []rsSent {
	if desc == "cont()" && depth >= rsMaxContainerDepth {
		return []rsSent{{mid, seq, "toodeep"}} // an empty container is a container: refused at the fifth level like any other
	}
	if !strings.HasPrefix(desc, "cont[") {
		return []rsSent{{mid, seq, desc}}
	}
	if depth >= rsMaxContainerDepth {
		return []rsSent{{mid, seq, "toodeep"}}
	}
	out := []rsSent{{mid, seq, "cont"}}
	for _, in := range rsSplitTop(strings.TrimSuffix(desc[5:], "]"), '|') {
		if in == "" {
			continue
		}
		p := strings.SplitN(in, ":", 3)
		m, _ := strconv.ParseUint(p[0], 10, 64)
		q, _ := strconv.ParseUint(p[1], 10, 32)
		out = append(out, rsFlattenDesc(m, uint32(q), p[2], depth+1)...)
	}
	return out
}

// rsSplitParen splits at sep outside parentheses.
func rsSplitParen(s string, sep byte) []string {
	var out []string
	depth, start := 0, 0
	for i := 0; i < len(s); i++ {
		switch s[i] {
		case '(':
			depth++
		case ')':
			depth--
		case sep:
			if depth == 0 {
				out = append(out, s[start:i])
				start = i + 1
			}
		}
	}
	return append(out, s[start:])
}

// rsSplitTop splits at sep outside square brackets.
func rsSplitTop(s string, sep byte) []string {
	var out []string
	depth, start := 0, 0
	for i := 0; i < len(s); i++ {
		switch s[i] {
		case '[':
			depth++
		case ']':
			depth--
		case sep:
			if depth == 0 {
				out = append(out, s[start:i])
				start = i + 1
			}
		}
	}
	return append(out, s[start:])
}

// rsMissingAcks: ids of content-related server messages (odd seq_no) that no msgs_ack names — with multiplicity: a
// message delivered n times (the same msg_id again) and named k < n times is listed n-k times.
func rsMissingAcks(evs []string) []uint64 {
	acked := map[uint64]int{}
	var need []uint64
	for _, e := range evs {
		switch {
		case strings.HasPrefix(e, "S:L:"):
			p := strings.Split(e, ":")
			if len(p) >= 7 {
				for _, id := range strings.Split(p[6], "+") {
					v, _ := strconv.ParseUint(id, 10, 64)
					acked[v]++
				}
			}
		case strings.HasPrefix(e, "F:k:"):
			for _, id := range strings.Split(e[4:], "+") {
				v, _ := strconv.ParseUint(id, 10, 64)
				acked[v]++
			}
		case strings.HasPrefix(e, "R:"):
			for _, s := range rsFlattenR(e) {
				if s.seq%2 == 1 {
					need = append(need, s.mid)
				}
			}
		}
	}
	var miss []uint64
	for _, id := range need {
		if acked[id] > 0 {
			acked[id]--
		} else {
			miss = append(miss, id)
		}
	}
	sort.Slice(miss, func(i, j int) bool { return miss[i] < miss[j] })
	return miss
}
