// vh — the Go side of the correspondence checks. It calls the real xelaj/mtproto code in-process
// (built from the current /repo working tree, with -tags verif), one operation per line, and
// writes the operations and the canonicalised results so that the Lean driver can be run on the
// same operations and the two output streams compared.
package main

import (
	"bufio"
	"encoding/json"
	"flag"
	"fmt"
	"os"
	"path/filepath"
	"runtime"
	"sort"
	"strconv"
	"strings"
	"time"
)

// Prop is one property's harness.
type Prop struct {
	Name string
	// Gen emits operations (lines of space-separated tokens) through g.Emit.
	Gen func(g *G)
	// Exec runs one operation against the real code and returns the canonical result line.
	Exec func(op []string) string
	// Judge is the property oracle on the real code's result, independent of the Lean model of the
	// code: it returns "" when the result satisfies the property for this operation (or when the
	// operation is outside what the property speaks about), else a description of the violation.
	Judge func(op []string, out string) string
	// Setup/Teardown are optional.
	Setup    func(g *G)
	Teardown func()
	// OpTimeout bounds one operation (default 120 s; env VERIF_OP_TIMEOUT seconds overrides). An
	// operation that does not return is a failing input for every property here (each speaks of calls
	// that return): the process exits with status 3 and the check attributes the operation that has
	// no result line.
	OpTimeout time.Duration
	// Stateless: every operation's result is a function of the operation alone (no clock, no randomness
	// drawn by the code, no state the property lets one call leave for the next). The run then repeats
	// randomly chosen earlier operations later on and reports a result that changed: state carried from
	// one call to another (a reused buffer, a cache, a leftover file) is a violation of "for every input"
	// that single calls cannot show.
	Stateless bool
}

var props = map[string]*Prop{}

func register(p *Prop) { props[p.Name] = p }

// G is the generation context: one PRNG state per run, tier, and distribution bookkeeping.
type G struct {
	R     *Rand
	Tier  string
	Seed  uint64
	ops   []string
	tags  map[string]int
	Extra map[string]interface{}
}

func (g *G) Thorough() bool { return g.Tier == "thorough" }

// Emit records an operation; tags describe what kind of case it is (for the evidence file).
func (g *G) Emit(op string, tags ...string) {
	g.ops = append(g.ops, op)
	for _, t := range tags {
		g.tags[t]++
	}
}

// N picks the case count by tier.
func (g *G) N(quick, thorough int) int {
	if g.Thorough() {
		return thorough
	}
	return quick
}

type judged struct {
	Op  string `json:"op"`
	Out string `json:"out"`
	Why string `json:"why"`
	// Ops, when set, is the operation sequence a replay needs (history dependence: first run, the
	// operation in between, the repetition)
	Ops []string `json:"ops,omitempty"`
}

type meta struct {
	Property    string                 `json:"property"`
	Seed        uint64                 `json:"seed"`
	Tier        string                 `json:"tier"`
	Evaluations int                    `json:"evaluations"`
	Distinct    int                    `json:"distinct_ops"`
	Tags        map[string]int         `json:"tags"`
	OutClasses  map[string]int         `json:"out_classes"`
	Samples     []map[string]string    `json:"samples"`
	Judged      []judged               `json:"judge_violations"`
	Extra       map[string]interface{} `json:"extra,omitempty"`
}

// theG: the run's generator state; Exec/Teardown may add to theG.Extra (it ends up in meta.json).
var theG *G

// safeExec runs Exec under recover; a panic is reported as "panic:<site>" where site is the first
// frame inside the repository (not the harness, not the runtime).
func safeExec(p *Prop, toks []string) (out string) {
	defer func() {
		if r := recover(); r != nil {
			out = "panic:" + panicSite()
		}
	}()
	return p.Exec(toks)
}

// execDeadline runs one operation with a deadline. A goroutine cannot be killed, so on expiry the
// process ends (status 3) with the operation named on stderr; ops.txt already holds the line.
func execDeadline(p *Prop, toks []string, op string) string {
	d := p.OpTimeout
	if d == 0 {
		d = 120 * time.Second
	}
	if v, err := strconv.Atoi(os.Getenv("VERIF_OP_TIMEOUT")); err == nil && v > 0 {
		d = time.Duration(v) * time.Second
	}
	ch := make(chan string, 1)
	go func() { ch <- safeExec(p, toks) }()
	select {
	case out := <-ch:
		return out
	case <-time.After(d):
		fmt.Fprintf(os.Stderr, "op-timeout: the operation did not return within %s: %s\n", d, clip(op))
		os.Exit(3)
	}
	return ""
}

func panicSite() string {
	pcs := make([]uintptr, 64)
	n := runtime.Callers(3, pcs)
	frames := runtime.CallersFrames(pcs[:n])
	for {
		f, more := frames.Next()
		fn := f.Function
		if strings.HasPrefix(fn, "github.com/xelaj/mtproto") && !strings.Contains(fn, "verifharness") {
			// strip the module prefix
			fn = strings.TrimPrefix(fn, "github.com/xelaj/mtproto/")
			fn = strings.TrimPrefix(fn, "github.com/xelaj/mtproto.")
			return fn
		}
		if !more {
			break
		}
	}
	return "unknown"
}

func outClass(out string) string {
	// first token up to '=' or ':' or space — a coarse class for the distribution report
	for i, c := range out {
		if c == ' ' || c == '=' || c == ':' || c == '(' {
			if c == '(' {
				return "value"
			}
			return out[:i]
		}
	}
	if len(out) > 24 {
		return out[:24]
	}
	return out
}

func main() {
	if len(os.Args) < 2 {
		fmt.Fprintln(os.Stderr, "usage: vh <prop> [-seed N] [-tier quick|thorough] [-dir D] [-ops file]")
		var names []string
		for k := range props {
			names = append(names, k)
		}
		sort.Strings(names)
		fmt.Fprintln(os.Stderr, "props:", strings.Join(names, " "))
		os.Exit(2)
	}
	name := os.Args[1]
	p, ok := props[name]
	if !ok {
		fmt.Fprintln(os.Stderr, "unknown prop", name)
		os.Exit(2)
	}
	fs := flag.NewFlagSet(name, flag.ExitOnError)
	seed := fs.Uint64("seed", 1, "PRNG seed")
	tier := fs.String("tier", "quick", "quick|thorough")
	dir := fs.String("dir", ".", "output directory")
	opsFile := fs.String("ops", "", "replay: execute the operations of this file instead of generating")
	_ = fs.Parse(os.Args[2:])

	g := &G{R: NewRand(*seed), Tier: *tier, Seed: *seed, tags: map[string]int{}, Extra: map[string]interface{}{}}
	theG = g
	if p.Setup != nil {
		p.Setup(g)
	}
	if *opsFile != "" {
		f, err := os.Open(*opsFile)
		if err != nil {
			panic(err)
		}
		sc := bufio.NewScanner(f)
		sc.Buffer(make([]byte, 1<<20), 1<<28)
		for sc.Scan() {
			l := strings.TrimSpace(sc.Text())
			if l != "" {
				g.ops = append(g.ops, l)
			}
		}
		f.Close()
	} else {
		p.Gen(g)
	}

	if err := os.MkdirAll(*dir, 0o755); err != nil {
		panic(err)
	}
	fo, _ := os.Create(filepath.Join(*dir, "ops.txt"))
	fg, _ := os.Create(filepath.Join(*dir, "go.out"))
	wo := bufio.NewWriterSize(fo, 1<<20)
	wg := bufio.NewWriterSize(fg, 1<<20)

	m := meta{Property: name, Seed: *seed, Tier: *tier, Tags: g.tags, OutClasses: map[string]int{}, Extra: g.Extra}
	seen := map[string]bool{}
	hr := NewRand(*seed ^ 0x5eed)
	firstOut := map[string]string{}
	var firsts []string
	repeats := 0
	for i, op := range g.ops {
		toks := strings.Fields(op)
		// the operation is on disk before it runs: if it kills the process (fatal error, out of
		// memory) it is the line of ops.txt that has no counterpart in go.out
		fmt.Fprintln(wo, op)
		wo.Flush()
		out := execDeadline(p, toks, op)
		out = strings.ReplaceAll(out, "\n", " ")
		fmt.Fprintln(wg, out)
		wg.Flush()
		m.Evaluations++
		if !seen[op] {
			seen[op] = true
			m.Distinct++
		}
		m.OutClasses[outClass(out)]++
		if len(m.Samples) < 6 && (i%(len(g.ops)/6+1) == 0) {
			m.Samples = append(m.Samples, map[string]string{"op": clip(op), "out": clip(out)})
		}
		if p.Judge != nil {
			if why := p.Judge(toks, out); why != "" {
				m.Judged = append(m.Judged, judged{Op: op, Out: clip(out), Why: why})
			}
		}
		if p.Stateless {
			// the same operation line seen before (a replay file repeats it on purpose) must give the same result
			if prev, ok := firstOut[op]; ok && prev != out {
				m.Judged = append(m.Judged, judged{Op: op, Out: clip(out),
					Why: "history dependence: this operation gave " + clip(prev) + " when it first ran and a different result when repeated after other operations"})
			} else if !ok && len(firstOut) < 4000 && len(op) < 1<<16 {
				firstOut[op] = out
				firsts = append(firsts, op)
			}
			if *opsFile == "" && len(firsts) > 1 && hr.Intn(25) == 0 {
				f := firsts[hr.Intn(len(firsts))]
				again := strings.ReplaceAll(safeExec(p, strings.Fields(f)), "\n", " ")
				repeats++
				if again != firstOut[f] {
					m.Judged = append(m.Judged, judged{Op: f, Out: clip(again), Ops: []string{f, op, f},
						Why: "history dependence: this operation gave " + clip(firstOut[f]) + " when it first ran and a different result when repeated after other operations (the last one: " + clip(op) + ")"})
				}
			}
		}
	}
	if p.Stateless {
		g.Extra["repeated_operations_for_history_dependence"] = repeats
	}
	wo.Flush()
	wg.Flush()
	fo.Close()
	fg.Close()
	if p.Teardown != nil {
		p.Teardown()
	}
	b, _ := json.MarshalIndent(m, "", " ")
	_ = os.WriteFile(filepath.Join(*dir, "meta.json"), b, 0o644)
}

func clip(s string) string {
	if len(s) > 400 {
		return s[:400] + fmt.Sprintf("…(%d chars)", len(s))
	}
	return s
}
