package main

// C09 — each RPC call returns exactly the result addressed to its own request. Real code: the client on
// a resumed session against the scripted peer; N concurrent callers (objects, Bool, vectors of bare and
// boxed elements with decoder hints, rpc_error), answers in any order, grouping and compression.

import (
	"fmt"
	"strings"
)

func c09Gen(g *G) {
	r := g.R
	pool := []string{"o", "o", "b", "vl", "vo", "e"}
	g.Emit("c09.run o,o g0+1;w2;a1;a0", "basic")
	g.Emit("c09.run vl,vo g0+1;w2;c(a1z,a0z)", "vector-gzip-container")
	g.Emit("c09.run o g0;w1;a0;j;d0;g0;w2;a0", "duplicate-result")
	n := g.N(60, 1500)
	for i := 0; i < n; i++ {
		k := 1 + r.Intn(g.N(8, 16))
		kinds := rsKinds(r, k, pool)
		order := rsPerm(r, k)
		all := make([]int, k)
		for j := range all {
			all[j] = j
		}
		plan := []string{"g" + rsJoinInts("", all, "+"), fmt.Sprintf("w%d", k)}
		plan = append(plan, rsAnswerPlan(r, order, []string{"p", "k"})...)
		tag := "concurrent"
		if r.Intn(4) == 0 {
			// a second round by a subset of the callers, with a stray duplicate of an answered result before it
			plan = append(plan, "j")
			sub := rsPerm(r, k)[:1+r.Intn(k)]
			if r.Bool() {
				plan = append(plan, fmt.Sprintf("d%d", sub[0]))
			}
			plan = append(plan, "g"+rsJoinInts("", sub, "+"), fmt.Sprintf("w%d", k+len(sub)))
			plan = append(plan, rsAnswerPlan(r, sub, []string{"p"})...)
			tag = "two-rounds"
		}
		g.Emit(fmt.Sprintf("c09.run %s %s", strings.Join(kinds, ","), strings.Join(plan, ";")), tag, fmt.Sprintf("callers=%d", k))
	}
}

func init() {
	register(&Prop{Name: "c09", Gen: c09Gen, Exec: rsExec("c09"), Judge: rsJudge("c09")})
}
