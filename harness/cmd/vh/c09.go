package main

// C09 — each RPC call returns exactly the result addressed to its own request. Real code: the client on
// a resumed session against the scripted peer; N concurrent callers (objects, Bool, vectors of bare and
// boxed elements with decoder hints, rpc_error), answers in any order, grouping and compression.

import (
	"fmt"
	"strings"
)

func c09Gen(g *G) {
	r := g.R
	pool := []string{"o", "o", "b", "vl", "vo", "e"}
	g.Emit("c09.run o,o g0+1;w2;a1;a0", "basic")
	g.Emit("c09.run vl,vo g0+1;w2;c(a1z,a0z)", "vector-gzip-container")
	g.Emit("c09.run o g0;w1;a0;j;d0;g0;w2;a0", "duplicate-result")
	// schedules the Go scheduler rarely produces, forced through the yield hooks: the answer is routed while
	// its caller is still between "sent" and "waiting"; the receive loop is slow; writes are slow
	g.Emit("c09.run o ycq:2500:1;g0;w1;a0", "yield-caller-held-after-send")
	g.Emit("c09.run o,b,vl ycq:2000:3;g0+1+2;w3;c(a2z,a0);a1", "yield-caller-held-after-send")
	g.Emit("c09.run o,o yr*:1500:2;g0+1;w2;a1;a0", "yield-slow-receive-loop")
	// answers created in one order and delivered in another (msg_ids not in delivery order); a transient
	// write error on an acknowledgement followed by several calls in flight
	g.Emit("c09.run o,vl g0+1;w2;h;a1;^a0", "late-delivery")
	g.Emit("c09.run o,o,b h;g0+1+2;w3;h;c(a2,a1z);^a0;^p", "late-delivery")
	// a call with decoder hints whose first transmission is rejected (salt rotation): the repetition must be
	// decodable as well; packed results whose unpacked size is exactly one, two, three inflater chunks
	g.Emit("c09.run vl,vo,o g0+1+2;w3;r0/2000;r1/2000;w5;a2;a0z;a1", "hinted-call-resent")
	g.Emit("c09.run vo,vl g0+1;w2;c(r1/2001,r0/2001);w4;c(a1z,a0)", "hinted-call-resent")
	g.Emit("c09.run vl511,vl1023,vl510,o,b g0+1+2+3+4;w5;a0z;a1z;c(a2z,a3z);a4", "packed-size-multiple-of-4096")
	g.Emit("c09.run vl1535,vl512 g0+1;w2;a1z;a0z", "packed-size-multiple-of-4096")
	// requests in flight when the server closes the connection: the answers arrive on the new connection; a call
	// that declares a vector result is answered with an rpc_error (plain, in a container, packed)
	g.Emit("c09.run b,vl,o g0+1+2;w3;close;a1;a0;a2", "in-flight-across-reconnect")
	g.Emit("c09.run o,o g0;w1;close;g1;w2;c(a1,a0)", "in-flight-across-reconnect")
	g.Emit("c09.run vl,vo,b,o g0+1+2+3;w4;E0;c(E1,E2);a3", "error-for-a-hinted-call")
	g.Emit("c09.run vl,vl g0+1;w2;c(a1z,E0)", "error-for-a-hinted-call")
	g.Emit("c09.run o,o,o,o g0;w1;fk:1;a0;j;g1+2+3;w4;a1;a2;a3", "fault-ack-write")
	g.Emit("c09.run o,b,vl fk:2;n77;g0;w1;a0;j;g1+2;w3;c(a2z,a1)", "fault-ack-write")
	n := g.N(60, 1500)
	for i := 0; i < n; i++ {
		k := 1 + r.Intn(g.N(8, 16))
		kinds := rsKinds(r, k, pool)
		order := rsPerm(r, k)
		if r.Intn(5) == 0 && k >= 2 {
			// two rounds: the first round's answers are acknowledged under write faults and delivered out of
			// id order; the second round must still get its own results
			all := make([]int, k)
			for j := range all {
				all[j] = j
			}
			h := 1 + r.Intn(2)
			plan := []string{}
			for j := 0; j < h; j++ {
				plan = append(plan, "h")
			}
			plan = append(plan, fmt.Sprintf("fk:%d", 1+r.Intn(2)), "g"+rsJoinInts("", all, "+"), fmt.Sprintf("w%d", k))
			for j, c := range order {
				it := "a" + fmt.Sprint(c)
				if j < h {
					it = "^" + it
				}
				plan = append(plan, it)
			}
			plan = append(plan, "j")
			sub := rsPerm(r, k)[:1+r.Intn(k)]
			plan = append(plan, "g"+rsJoinInts("", sub, "+"), fmt.Sprintf("w%d", k+len(sub)))
			plan = append(plan, rsAnswerPlan(r, sub, []string{"p"})...)
			g.Emit(fmt.Sprintf("c09.run %s %s", strings.Join(kinds, ","), strings.Join(plan, ";")), "late-and-fault-random", fmt.Sprintf("callers=%d", k))
			continue
		}
		if r.Intn(3) == 0 {
			y := fmt.Sprintf("y%s:%d:%d", []string{"cq", "cq", "r*", "wq", "wk"}[r.Intn(5)], 300+r.Intn(2200), 1+r.Intn(k))
			all := make([]int, k)
			for j := range all {
				all[j] = j
			}
			plan := []string{y, "g" + rsJoinInts("", all, "+"), fmt.Sprintf("w%d", k)}
			plan = append(plan, rsAnswerPlan(r, order, []string{"p", "k"})...)
			g.Emit(fmt.Sprintf("c09.run %s %s", strings.Join(kinds, ","), strings.Join(plan, ";")), "yield-random", fmt.Sprintf("callers=%d", k))
			continue
		}
		all := make([]int, k)
		for j := range all {
			all[j] = j
		}
		plan := []string{"g" + rsJoinInts("", all, "+"), fmt.Sprintf("w%d", k)}
		seen := k // request frames the server has seen so far (the w<n> steps wait for that many)
		if r.Intn(4) == 0 {
			// some requests are rejected once (new salt) before they are answered
			sub := rsPerm(r, k)[:1+r.Intn(k)]
			salt := 2000 + r.Intn(1000)
			for _, c := range sub {
				plan = append(plan, fmt.Sprintf("r%d/%d", c, salt))
			}
			seen += len(sub)
			plan = append(plan, fmt.Sprintf("w%d", seen))
		}
		plan = append(plan, rsAnswerPlan(r, order, []string{"p", "k"})...)
		tag := "concurrent"
		if r.Intn(4) == 0 {
			// a second round by a subset of the callers, with a stray duplicate of an answered result before it
			plan = append(plan, "j")
			sub := rsPerm(r, k)[:1+r.Intn(k)]
			if r.Bool() {
				plan = append(plan, fmt.Sprintf("d%d", sub[0]))
			}
			plan = append(plan, "g"+rsJoinInts("", sub, "+"), fmt.Sprintf("w%d", seen+len(sub)))
			plan = append(plan, rsAnswerPlan(r, sub, []string{"p"})...)
			tag = "two-rounds"
		}
		g.Emit(fmt.Sprintf("c09.run %s %s", strings.Join(kinds, ","), strings.Join(plan, ";")), tag, fmt.Sprintf("callers=%d", k))
	}
}

func init() {
	register(&Prop{Name: "c09", Gen: c09Gen, Exec: rsExec("c09"), Judge: rsJudge("c09"), Teardown: rsTeardown})
}
