package main

// C09 — each RPC call returns exactly the result addressed to its own request. Real code: the client on
// a resumed session against the scripted peer; N concurrent callers (objects, Bool, vectors of bare and
// boxed elements with decoder hints, rpc_error), answers in any order, grouping and compression.

import (
	"fmt"
	"strings"
)

// c09ErrKind: an rpc_error of one of the API's parametrised families (few families, so that one family comes
// up again and again during a run — with another parameter each time)
func c09ErrKind(r *Rand) string {
	fam := [][2]string{{"420", "FLOOD_WAIT_%d"}, {"420", "SLOWMODE_WAIT_%d"}, {"303", "FILE_MIGRATE_%d"},
		{"400", "FILE_PART_%d_MISSING"}, {"420", "TAKEOUT_INIT_DELAY_%d"}, {"303", "USER_MIGRATE_%d"}}[r.Intn(6)]
	return "e" + fam[0] + "." + fmt.Sprintf(fam[1], 1+r.Intn(99999))
}

// c09Kinds: caller kinds from the pool; "ef" stands for an error of a parametrised family (drawn per caller)
func c09Kinds(r *Rand, n int, pool []string) []string {
	k := rsKinds(r, n, pool)
	for i := range k {
		if k[i] == "ef" {
			k[i] = c09ErrKind(r)
		}
	}
	return k
}

func c09Gen(g *G) {
	r := g.R
	pool := []string{"o", "o", "b", "vl", "vo", "e", "ef", "ef"}
	g.Emit("c09.run o,o g0+1;w2;a1;a0", "basic")
	g.Emit("c09.run vl,vo g0+1;w2;c(a1z,a0z)", "vector-gzip-container")
	g.Emit("c09.run o g0;w1;a0;j;d0;g0;w2;a0", "duplicate-result")
	// schedules the Go scheduler rarely produces, forced through the yield hooks: the answer is routed while
	// its caller is still between "sent" and "waiting"; the receive loop is slow; writes are slow
	g.Emit("c09.run o ycq:2500:1;g0;w1;a0", "yield-caller-held-after-send")
	g.Emit("c09.run o,b,vl ycq:2000:3;g0+1+2;w3;c(a2z,a0);a1", "yield-caller-held-after-send")
	g.Emit("c09.run o,o yr*:1500:2;g0+1;w2;a1;a0", "yield-slow-receive-loop")
	// answers created in one order and delivered in another (msg_ids not in delivery order); a transient
	// write error on an acknowledgement followed by several calls in flight
	g.Emit("c09.run o,vl g0+1;w2;h;a1;^a0", "late-delivery")
	g.Emit("c09.run o,o,b h;g0+1+2;w3;h;c(a2,a1z);^a0;^p", "late-delivery")
	// a call with decoder hints whose first transmission is rejected (salt rotation): the repetition must be
	// decodable as well; packed results whose unpacked size is exactly one, two, three inflater chunks
	g.Emit("c09.run vl,vo,o g0+1+2;w3;r0/2000;r1/2000;w5;a2;a0z;a1", "hinted-call-resent")
	g.Emit("c09.run vo,vl g0+1;w2;c(r1/2001,r0/2001);w4;c(a1z,a0)", "hinted-call-resent")
	g.Emit("c09.run vl511,vl1023,vl510,o,b g0+1+2+3+4;w5;a0z;a1z;c(a2z,a3z);a4", "packed-size-multiple-of-4096")
	g.Emit("c09.run vl1535,vl512 g0+1;w2;a1z;a0z", "packed-size-multiple-of-4096")
	// requests in flight when the server closes the connection: the answers arrive on the new connection; a call
	// that declares a vector result is answered with an rpc_error (plain, in a container, packed)
	g.Emit("c09.run b,vl,o g0+1+2;w3;close;a1;a0;a2", "in-flight-across-reconnect")
	g.Emit("c09.run o,o g0;w1;close;g1;w2;c(a1,a0)", "in-flight-across-reconnect")
	g.Emit("c09.run vl,vo,b,o g0+1+2+3;w4;E0;c(E1,E2);a3", "error-for-a-hinted-call")
	g.Emit("c09.run vl,vl g0+1;w2;c(a1z,E0)", "error-for-a-hinted-call")
	g.Emit("c09.run o,o,o,o g0;w1;fk:1;a0;j;g1+2+3;w4;a1;a2;a3", "fault-ack-write")
	g.Emit("c09.run o,b,vl fk:2;n77;g0;w1;a0;j;g1+2;w3;c(a2z,a1)", "fault-ack-write")
	// rpc_errors of the API's parametrised families (the server's text carries a number, the structured error the
	// family name and the number): several callers get errors of ONE family with different parameters, in one
	// round and in successive rounds; the delivered error is compared in full (code, name, parameter, text)
	g.Emit("c09.run e420.FLOOD_WAIT_3,e420.FLOOD_WAIT_11,e420.FLOOD_WAIT_12,o g0+1+2+3;w4;c(a2,a1);a3;a0z", "error-family-parameters")
	g.Emit("c09.run e303.FILE_MIGRATE_2,e303.FILE_MIGRATE_4,e400.FILE_PART_7_MISSING,e400.FILE_PART_0_MISSING,e420.SLOWMODE_WAIT_30,e420.SLOWMODE_WAIT_31 g0;w1;a0;j;g1+2+3+4+5;w6;a5;a4z;c(a3,a2,a1)", "error-family-parameters")
	g.Emit("c09.run vl,e420.FLOOD_WAIT_86400,e420.FLOOD_WAIT_1,e400.PEER_ID_INVALID,e400.PEER_ID_INVALID g0+1+2+3+4;w5;a2;a1;c(a4,a3);a0", "error-family-parameters")
	// results of about and beyond 2^20 bytes (a file part of the largest size is 2^20 bytes of payload inside an
	// object inside rpc_result inside the envelope), as plain messages, followed by other callers' answers
	g.Emit("c09.run ob1048576,o,vl g0+1+2;w3;a0;a1;a2", "result-around-2^20")
	g.Emit("c09.run ob1048400,ob1048520,ob1048600,b g0+1+2+3;w4;a1;a0;a2;a3", "result-around-2^20")
	g.Emit(fmt.Sprintf("c09.run ob%d,o,ob%d g0+1+2;w3;a2;a0;a1", 1<<20-256+r.Intn(512), 1<<20+r.Intn(1<<20)), "result-around-2^20")
	if g.Thorough() {
		g.Emit("c09.run ob4194304,ob16000000,o g0+1+2;w3;a0;a1;a2", "result-around-2^20")
	}
	// a caller has encoded its request and waits for the write lock (another caller's write is in progress)
	// while a third caller encodes and the receive loop acknowledges a message: every request must reach the
	// server as its caller encoded it. P1: all goroutines of the client on one processor.
	g.Emit("c09.run o,o,o P1;ywq:3000:1;g0;s400;g1;s400;g2;s300;u;w3;a2;a0;a1", "encoded-request-waits-for-write-lock")
	g.Emit("c09.run o,vl,b ywq:3000:1;g0;s400;g1;s400;u;g2;w3;c(a1,a0);a2", "encoded-request-waits-for-write-lock")
	// a request in flight is rejected with bad_server_salt while the session store fails at exactly that save (disk
	// full, directory gone), other callers pending: the rejected call is repeated and returns its own result, and so
	// does everybody else — on the in-memory and on the file store, back to back, in a container, twice in a row
	g.Emit("c09.run o,o,o g0+1+2;w3;fs:1;r1/2000;w4;a0;a1;a2", "store-fails-at-rotation")
	g.Emit("c09.run vl,o,b fs:2;g0+1+2;w3;c(r0/2001,r2/2001);w5;a1;a0z;a2", "store-fails-at-rotation")
	g.Emit("c09.run o,vo SF;g0+1;w2;fs:1;r0/2002;w3;r1/2003;w4;c(a1,a0)", "store-fails-at-rotation")
	g.Emit("c09.run o,o,e,b g0+1+2+3;w4;fs:3;r3/2004;w5;r3/2005;w6;n2006;a2;a3;r0/2007;w7;a1;a0", "store-fails-at-rotation")
	// the server's msg_ids anywhere in the unsigned 64-bit range: bit 63 set (a date after 2038, or a server clock
	// that far ahead), across 2^63, just below 2^64, near zero (a clock far behind), 1 and 3 modulo 4
	g.Emit("c09.run o,o,vl I9223372036854775801;g0+1+2;w3;a1;a0;a2z", "server-msgid-range")
	g.Emit("c09.run o,b I18446744073709547619;g0+1;w2;c(a1,a0)", "server-msgid-range")
	g.Emit("c09.run o,o,o I13835058055282163713;g0;w1;a0;j;I5;g1;w2;a1z;j;I9223372036854775807;g2;w3;c(p,a2)", "server-msgid-range")
	g.Emit("c09.run vo,e K400000000;g0+1;w2;a1;a0", "server-msgid-range")
	// calls that send other requests than ping (x_rpcsrv.go "request types"): each returns the result addressed to it
	g.Emit("c09.run o@sr1,b@rr2,vl@pd,vo@fs,e@ds,o@pq,o@dh,b@sc,o@da g0+1+2+3+4+5+6+7+8;w9;a8;a3z;c(a1,a0);a2;a7;c(a6z,a5,a4)", "request-types")
	n := g.N(60, 1500)
	for i := 0; i < n; i++ {
		k := 1 + r.Intn(g.N(8, 16))
		kinds := c09Kinds(r, k, pool)
		if r.Intn(5) == 0 {
			for j := range kinds {
				kinds[j] += "@" + []string{"sr1", "rr1", "pd", "pq", "dh", "sc", "da", "fs", "ds", "sr4", "rr3", "pi"}[r.Intn(12)]
			}
		}
		if r.Intn(12) == 0 {
			kinds[r.Intn(k)] = fmt.Sprintf("ob%d", 1<<20-300+r.Intn(600))
		}
		order := rsPerm(r, k)
		if r.Intn(5) == 0 && k >= 2 {
			// two rounds: the first round's answers are acknowledged under write faults and delivered out of
			// id order; the second round must still get its own results
			all := make([]int, k)
			for j := range all {
				all[j] = j
			}
			h := 1 + r.Intn(2)
			plan := []string{}
			for j := 0; j < h; j++ {
				plan = append(plan, "h")
			}
			plan = append(plan, fmt.Sprintf("fk:%d", 1+r.Intn(2)), "g"+rsJoinInts("", all, "+"), fmt.Sprintf("w%d", k))
			for j, c := range order {
				it := "a" + fmt.Sprint(c)
				if j < h {
					it = "^" + it
				}
				plan = append(plan, it)
			}
			plan = append(plan, "j")
			sub := rsPerm(r, k)[:1+r.Intn(k)]
			plan = append(plan, "g"+rsJoinInts("", sub, "+"), fmt.Sprintf("w%d", k+len(sub)))
			plan = append(plan, rsAnswerPlan(r, sub, []string{"p"})...)
			g.Emit(fmt.Sprintf("c09.run %s %s", strings.Join(kinds, ","), strings.Join(plan, ";")), "late-and-fault-random", fmt.Sprintf("callers=%d", k))
			continue
		}
		if r.Intn(3) == 0 {
			y := fmt.Sprintf("y%s:%d:%d", []string{"cq", "cq", "r*", "wq", "wk"}[r.Intn(5)], 300+r.Intn(2200), 1+r.Intn(k))
			all := make([]int, k)
			for j := range all {
				all[j] = j
			}
			plan := []string{y, "g" + rsJoinInts("", all, "+"), fmt.Sprintf("w%d", k)}
			plan = append(plan, rsAnswerPlan(r, order, []string{"p", "k"})...)
			g.Emit(fmt.Sprintf("c09.run %s %s", strings.Join(kinds, ","), strings.Join(plan, ";")), "yield-random", fmt.Sprintf("callers=%d", k))
			continue
		}
		all := make([]int, k)
		for j := range all {
			all[j] = j
		}
		plan := []string{"g" + rsJoinInts("", all, "+"), fmt.Sprintf("w%d", k)}
		if r.Intn(6) == 0 {
			// the server's msg_ids anywhere in the 64-bit range (1 or 3 modulo 4)
			plan = append([]string{fmt.Sprintf("I%d", (r.U64()|1)%(1<<64-4096))}, plan...)
		}
		seen := k // request frames the server has seen so far (the w<n> steps wait for that many)
		if r.Intn(4) == 0 {
			// some requests are rejected once (new salt) before they are answered
			sub := rsPerm(r, k)[:1+r.Intn(k)]
			salt := 2000 + r.Intn(1000)
			if r.Intn(2) == 0 {
				// … and the session store fails at the saves these rejections cause (some or all of them)
				plan = append(plan, fmt.Sprintf("fs:%d", 1+r.Intn(len(sub))))
			}
			for _, c := range sub {
				plan = append(plan, fmt.Sprintf("r%d/%d", c, salt))
			}
			seen += len(sub)
			plan = append(plan, fmt.Sprintf("w%d", seen))
		}
		plan = append(plan, rsAnswerPlan(r, order, []string{"p", "k"})...)
		tag := "concurrent"
		if r.Intn(4) == 0 {
			// a second round by a subset of the callers, with a stray duplicate of an answered result before it
			plan = append(plan, "j")
			sub := rsPerm(r, k)[:1+r.Intn(k)]
			if r.Bool() {
				plan = append(plan, fmt.Sprintf("d%d", sub[0]))
			}
			plan = append(plan, "g"+rsJoinInts("", sub, "+"), fmt.Sprintf("w%d", seen+len(sub)))
			plan = append(plan, rsAnswerPlan(r, sub, []string{"p"})...)
			tag = "two-rounds"
		}
		g.Emit(fmt.Sprintf("c09.run %s %s", strings.Join(kinds, ","), strings.Join(plan, ";")), tag, fmt.Sprintf("callers=%d", k))
	}
}

func init() {
	register(&Prop{Name: "c09", Gen: c09Gen, Exec: rsExec("c09"), Judge: rsJudge("c09"), Teardown: rsTeardown})
}
