package main

// C07, the aftermath on the NETWORK side: what the client does on its own after CreateConnection has returned the
// error of an abandoned key exchange, when the server hangs up.
//
//   c07.gone <tag> <old>+<new> <window_ms> <k> { <d> <the 12 tokens of a c07.hs after its tag> } x k
//
// k independent clients (one object, one store, one listener each), each runs ONE key exchange against the replay
// server (the three prepared reply bodies, as in c07.hs). Phase 1: the exchanges run one after the other (the client's
// randomness is substituted during each); every server keeps its connection open and silent. Phase 2, for all k at the
// same moment: the server does <old> with the connection of the exchange
//
//	close      closes it (FIN; what is still to be read is read first)
//	halfclose  closes its sending side only (the client reads EOF; the server keeps reading)
//	reset      resets it (SO_LINGER 0 + close: RST)
//	stay       keeps it open and silent
//	atonce     does not wait for phase 2: it closes the connection in the same breath as it sends the reply at which
//	           a client that checks must give the exchange up (reply 1, 2 or 3: the step hsJudgeReplies names) - the
//	           client's reading routine sees the EOF while, or before, CreateConnection returns its error
//
// and from the start does <new> with every FURTHER connection to the same address
//
//	serve      accepts it and answers as a conformant server that holds the private key <d> of the client's key
//	replay     accepts it and plays the script of prepared replies again
//	mute       accepts it, logs what arrives, answers nothing
//	drop       accepts it and closes it at once
//	refuse     (the listener is closed in phase 2, before <old>: a dial is refused)
//
// Phase 3: for <window_ms> everything is logged: connections accepted after CreateConnection had returned, the frames
// on them (unencrypted bodies, encrypted payloads), frames on the first connection, Store calls, what the client sends to
// its Warnings channel (a refused dial shows there), the encrypted flag at the end.
//
// Oracle. An exchange whose replies are inconsistent (hsJudgeReplies) has been abandoned with an error: from the return
// of CreateConnection on the client is QUIET - no connection attempt, no frame of any kind, no Store, no warning of a
// reconnect, encrypted flag off - for the whole window, whatever the server does. (On top of c07JudgeRun on the exchange.)
// The mirror, for an exchange whose replies are consistent (it succeeded and stored its session): when the server hangs
// up and serves again, the client RESUMES: it connects again (once), runs no second exchange (no unencrypted frame),
// stores nothing further, and the request the application then issues arrives encrypted under the key of the exchange.
//
// Result line: the result lines of the k exchanges (as c07.hs prints them), each followed by ` after=quiet` /
// ` after=resumed` when the oracle's condition holds, else by what was seen; " | " between them.

import (
	"bytes"
	crand "crypto/rand"
	"crypto/rsa"
	"encoding/binary"
	"encoding/hex"
	"fmt"
	"io"
	"math/big"
	mrand "math/rand"
	"net"
	"strconv"
	"strings"
	"sync"
	"time"

	"github.com/xelaj/mtproto"
	"github.com/xelaj/mtproto/internal/session"
)

var (
	c07GoneOld = []string{"close", "halfclose", "reset", "stay", "atonce"}
	c07GoneNew = []string{"serve", "replay", "mute", "drop", "refuse"}
)

// goneConn: what arrived on one connection
type goneConn struct {
	c     net.Conn
	late  bool // accepted after the mark
	plain [][]byte
	enc   [][]byte
	// frames of the first connection that arrived after the mark
	latePlain, lateEnc int
	done      bool // serve: the conformant conversation on this connection sent dh_gen_ok
	authKey   []byte
}

// goneSrv: one listener, the connection of the judged exchange and whatever connects later
type goneSrv struct {
	ln      net.Listener
	addr    string
	mu      sync.Mutex
	conns   []*goneConn
	replies [][]byte
	sec     *hsSecrets
	newMode string
	// atonce: the connection of the exchange is closed right after this reply (1..3) has been written; 0: never
	closeAfter int
	marked     bool
	msgSeq  uint64
	wg      sync.WaitGroup
}

func goneListen(replies [][]byte, sec *hsSecrets, newMode string) *goneSrv {
	ln, err := net.Listen("tcp", "127.0.0.1:0")
	if err != nil {
		panic(err)
	}
	s := &goneSrv{ln: ln, addr: ln.Addr().String(), replies: replies, sec: sec, newMode: newMode}
	go s.acceptLoop()
	return s
}

func (s *goneSrv) acceptLoop() {
	for {
		c, err := s.ln.Accept()
		if err != nil {
			return
		}
		s.mu.Lock()
		gc := &goneConn{c: c, late: s.marked}
		first := len(s.conns) == 0
		s.conns = append(s.conns, gc)
		s.mu.Unlock()
		if !first && s.newMode == "drop" {
			c.Close()
			continue
		}
		s.wg.Add(1)
		go func() {
			defer s.wg.Done()
			s.serve(gc, first)
		}()
	}
}

func (s *goneSrv) sendPlain(c net.Conn, body []byte) {
	s.mu.Lock()
	s.msgSeq++
	id := uint64(time.Now().Unix())<<32 | (s.msgSeq << 2) | 1
	s.mu.Unlock()
	var w hsW
	w.u64(0)
	w.u64(id)
	w.u32(uint32(len(body)))
	w.raw(body)
	var f hsW
	f.u32(uint32(len(w.b)))
	f.raw(w.b)
	c.Write(f.b)
}

func (s *goneSrv) serve(gc *goneConn, first bool) {
	c := gc.c
	ann := make([]byte, 4)
	if _, err := io.ReadFull(c, ann); err != nil || !bytes.Equal(ann, []byte{0xee, 0xee, 0xee, 0xee}) {
		return
	}
	mode := s.newMode
	if first {
		mode = "replay"
	}
	conv := &hsConv{sec: s.sec}
	n := 0
	for {
		hdr := make([]byte, 4)
		if _, err := io.ReadFull(c, hdr); err != nil {
			return
		}
		ln := binary.LittleEndian.Uint32(hdr)
		if ln > 1<<24 {
			return
		}
		pkt := make([]byte, ln)
		if _, err := io.ReadFull(c, pkt); err != nil {
			return
		}
		s.mu.Lock()
		marked := s.marked
		if len(pkt) >= 8 && binary.LittleEndian.Uint64(pkt) != 0 {
			gc.enc = append(gc.enc, pkt)
			if marked {
				gc.lateEnc++
			}
			s.mu.Unlock()
			continue
		}
		if len(pkt) < 20 {
			s.mu.Unlock()
			return
		}
		body := append([]byte{}, pkt[20:]...)
		gc.plain = append(gc.plain, body)
		if marked {
			gc.latePlain++
		}
		s.mu.Unlock()
		n++
		switch mode {
		case "replay":
			if n <= len(s.replies) {
				s.sendPlain(c, s.replies[n-1])
			}
			if first && n == s.closeAfter {
				if s.newMode == "refuse" {
					s.ln.Close()
				}
				c.Close()
				return
			}
		case "serve":
			if reply, _ := conv.handle(body); reply != nil {
				s.sendPlain(c, reply)
				s.mu.Lock()
				gc.done, gc.authKey = conv.done, conv.authKey
				s.mu.Unlock()
			}
		}
	}
}

// mark: CreateConnection has returned; what arrives from now on is the aftermath
func (s *goneSrv) mark() {
	s.mu.Lock()
	s.marked = true
	s.mu.Unlock()
}

// act: what the server does with the connection of the exchange (and with its listener) in phase 2
func (s *goneSrv) act(old string) {
	if s.newMode == "refuse" {
		s.ln.Close()
	}
	s.mu.Lock()
	var c net.Conn
	if len(s.conns) > 0 {
		c = s.conns[0].c
	}
	s.mu.Unlock()
	tc, _ := c.(*net.TCPConn)
	if tc == nil {
		return
	}
	switch old {
	case "close", "atonce":
		tc.Close()
	case "halfclose":
		tc.CloseWrite()
	case "reset":
		tc.SetLinger(0)
		tc.Close()
	}
}

func (s *goneSrv) shutdown() {
	s.ln.Close()
	s.mu.Lock()
	cs := append([]*goneConn{}, s.conns...)
	s.mu.Unlock()
	for _, gc := range cs {
		gc.c.Close()
	}
}

// goneWarn: the client's Warnings channel, received from all the time
type goneWarn struct {
	ch   chan error
	mu   sync.Mutex
	text []string
}

func newGoneWarn() *goneWarn {
	w := &goneWarn{ch: make(chan error, 64)}
	go func() {
		for e := range w.ch {
			w.mu.Lock()
			if len(w.text) < 64 {
				w.text = append(w.text, e.Error())
			}
			w.mu.Unlock()
		}
	}()
	return w
}

func (w *goneWarn) count() int {
	w.mu.Lock()
	defer w.mu.Unlock()
	return len(w.text)
}

// goneOne: one client of the operation
type goneOne struct {
	c     *c07Case
	d     *big.Int
	srv   *goneSrv
	store *hsStore
	m     *mtproto.MTProto
	warn  *goneWarn
	run   *hsRun
	// at the mark
	stores0, warn0 int
	// the mirror case: the request issued after the client has connected again
	pinged bool
	// observed
	obs goneObs
}

type goneObs struct {
	Conns            int      // connections accepted after CreateConnection had returned
	Plain            [][]byte // unencrypted frames on them
	Enc              [][]byte // encrypted frames on them
	OldPlain, OldEnc int      // frames on the connection of the exchange after CreateConnection had returned
	Stores           []session.Session
	Warn             []string
	EncFlag          bool
	Done             bool // a conformant server completed another exchange on a later connection
	Pinged           bool
}

func (o *goneObs) quiet() bool {
	return o.Conns == 0 && len(o.Plain) == 0 && len(o.Enc) == 0 && o.OldPlain == 0 && o.OldEnc == 0 && len(o.Stores) == 0 && len(o.attempts()) == 0 && !o.EncFlag
}

// attempts: the warnings that tell of a connection attempt (a dial the server refused is seen nowhere else). Other
// warnings - a routine reporting that its read failed - are listed, not judged: a routine that is being stopped
// may still say so.
func (o *goneObs) attempts() []string {
	var a []string
	for _, t := range o.Warn {
		if strings.Contains(t, "reconnect") || strings.Contains(t, "dial") || strings.Contains(t, "recreating connection") {
			a = append(a, t)
		}
	}
	return a
}

// goneSecrets: the secrets of the conformant server that answers later connections: the private key of the
// operation, everything else drawn from a PRNG seeded by the operation's nonce
func goneSecrets(c *c07Case, d *big.Int) *hsSecrets {
	seed := binary.LittleEndian.Uint64(c.D.Nonce[:8]) ^ 0x676f6e65
	hc := hsRandomCase(NewRand(seed), &rsa.PrivateKey{PublicKey: c.Pub, D: d})
	hc.S.ExtraFps, hc.S.LaterFps = nil, nil
	return &hc.S
}

// goneGiveUpStep: the reply (1..3) at which a client that checks gives this exchange up; 0: the replies are consistent
func goneGiveUpStep(c *c07Case) int {
	v := hsJudgeReplies(&c.D, &c.Pub, c.R)
	switch {
	case v.Consistent:
		return 0
	case strings.HasPrefix(v.Why, "reply 1"):
		return 1
	case strings.HasPrefix(v.Why, "reply 2"), strings.HasPrefix(v.Why, "answer"):
		return 2
	}
	return 3
}

type goneOp struct {
	old, new string
	window   time.Duration
	ones     []*goneOne
}

func c07ParseGone(op []string) (*goneOp, bool) {
	if len(op) < 5 || op[0] != "c07.gone" {
		return nil, false
	}
	modes := strings.Split(op[2], "+")
	if len(modes) != 2 || !inList(c07GoneOld, modes[0]) || !inList(c07GoneNew, modes[1]) {
		return nil, false
	}
	w, err := strconv.Atoi(op[3])
	if err != nil || w < 1 || w > 60000 || strconv.Itoa(w) != op[3] {
		return nil, false
	}
	k, err := strconv.Atoi(op[4])
	if err != nil || k < 1 || k > 64 || strconv.Itoa(k) != op[4] || len(op) != 5+13*k {
		return nil, false
	}
	g := &goneOp{old: modes[0], new: modes[1], window: time.Duration(w) * time.Millisecond}
	for i := 0; i < k; i++ {
		part := op[5+13*i : 5+13*(i+1)]
		var d *big.Int
		ok := func() (ok bool) {
			defer func() {
				if recover() != nil {
					ok = false
				}
			}()
			b, err := hex.DecodeString(part[0])
			if err != nil {
				return false
			}
			d = new(big.Int).SetBytes(b)
			return len(b) > 0 && len(b) <= 256
		}()
		if !ok {
			return nil, false
		}
		c, ok := c07Parse(append([]string{"c07.hs", "x"}, part[1:]...))
		if !ok {
			return nil, false
		}
		g.ones = append(g.ones, &goneOne{c: c, d: d})
	}
	return g, true
}

func inList(xs []string, x string) bool {
	for _, y := range xs {
		if x == y {
			return true
		}
	}
	return false
}

var c07LastGone *goneOp

var goneVerb = map[string]string{
	"close": "closes", "halfclose": "half-closes", "reset": "resets", "stay": "keeps",
	"atonce": "closes, in the same breath as the reply the client gives up at,",
}

func c07GoneExec(op []string) string {
	c07LastGone = nil
	g, ok := c07ParseGone(op)
	if !ok {
		return "bad-op"
	}
	// phase 1: the exchanges, one after the other
	for _, o := range g.ones {
		c := o.c
		o.srv = goneListen(c.R, goneSecrets(c, o.d), g.new)
		if g.old == "atonce" {
			o.srv.closeAfter = goneGiveUpStep(c)
		}
		o.store = &hsStore{Mode: "notfound"}
		o.run = &hsRun{Addr: o.srv.addr, Srv: &hsSrvResult{}}
		pub := c.Pub
		m, err := mtproto.NewMTProto(mtproto.Config{SessionStorage: o.store, ServerHost: o.srv.addr, PublicKey: &pub})
		if err != nil {
			o.run.Outcome, o.run.ErrText = "err:new", err.Error()
			continue
		}
		o.m = m
		o.warn = newGoneWarn()
		m.Warnings = o.warn.ch

		stream := append(append(append([]byte{}, c.D.Nonce...), c.D.NewNonce...), c.D.B...)
		rdr := &hsReader{buf: stream}
		hsRandMu.Lock()
		rdr.fallback = crand.Reader
		old := crand.Reader
		crand.Reader = rdr
		mrand.Seed(c.D.PadSeed)
		o.run.Outcome, o.run.ErrText = hsCall(m.CreateConnection)
		crand.Reader = old
		hsRandMu.Unlock()

		o.srv.mark()
		o.srv.mu.Lock()
		if len(o.srv.conns) > 0 {
			o.run.Srv.Plain = append([][]byte{}, o.srv.conns[0].plain...)
			o.run.Srv.Enc = append([][]byte{}, o.srv.conns[0].enc...)
		}
		o.srv.mu.Unlock()
		o.run.EncEarly, o.run.PlainEarly = len(o.run.Srv.Enc), len(o.run.Srv.Plain)
		o.run.AuthKey = append([]byte{}, m.GetAuthKey()...)
		o.run.Salt = m.GetServerSalt()
		o.run.Enc, o.run.Svc = m.VerifEncrypted(), m.VerifServiceMode()
		o.store.mu.Lock()
		o.run.Stores = append([]session.Session{}, o.store.Stores...)
		o.store.mu.Unlock()
		o.stores0, o.warn0 = len(o.run.Stores), o.warn.count()
	}
	// phase 2: every server acts at the same moment
	for _, o := range g.ones {
		if o.m != nil {
			o.srv.act(g.old)
		}
	}
	// phase 3: the window. A client whose exchange SUCCEEDED is expected to connect again; once it has, the
	// application issues a request (the mirror case)
	t0 := time.Now()
	for time.Since(t0) < g.window {
		time.Sleep(5 * time.Millisecond)
		for _, o := range g.ones {
			if o.m == nil || o.run.Outcome != "ok" || o.pinged {
				continue
			}
			o.srv.mu.Lock()
			again := len(o.srv.conns) > 1
			o.srv.mu.Unlock()
			if again && time.Since(t0) > g.window/4 {
				o.pinged = true
				hsPing(o.m)
			}
		}
	}
	// what was seen
	for _, o := range g.ones {
		if o.m == nil {
			continue
		}
		ob := &o.obs
		o.srv.mu.Lock()
		for i, gc := range o.srv.conns {
			if i == 0 {
				ob.OldPlain, ob.OldEnc = gc.latePlain, gc.lateEnc
				continue
			}
			ob.Conns++
			ob.Plain = append(ob.Plain, gc.plain...)
			ob.Enc = append(ob.Enc, gc.enc...)
			ob.Done = ob.Done || gc.done
		}
		o.srv.mu.Unlock()
		o.store.mu.Lock()
		ob.Stores = append([]session.Session{}, o.store.Stores[o.stores0:]...)
		o.store.mu.Unlock()
		o.warn.mu.Lock()
		ob.Warn = append([]string{}, o.warn.text[o.warn0:]...)
		o.warn.mu.Unlock()
		ob.EncFlag = o.m.VerifEncrypted()
		ob.Pinged = o.pinged
	}
	// teardown: nobody listens any more; the routines of the last connection attempt are stopped through their own
	// handle (their connection closes, their reader ends with the cancellation); then the connections go away
	for _, o := range g.ones {
		o.srv.ln.Close()
	}
	for _, o := range g.ones {
		if o.m != nil {
			if stop := hsStopHandle(o.m); stop != nil {
				stop()
			}
		}
	}
	time.Sleep(20 * time.Millisecond)
	for _, o := range g.ones {
		o.srv.shutdown()
	}
	c07LastGone = g
	var lines []string
	for _, o := range g.ones {
		lines = append(lines, hsResultLine(o.run)+" after="+goneAfter(o))
	}
	return strings.Join(lines, " | ")
}

// goneResumed: the client of a completed exchange went on as it should after the server had hung up: one further
// connection, no unencrypted frame (no second exchange), nothing stored, and - when the server let it connect and a
// request was issued - that request arrived encrypted under the key of the exchange
func goneResumed(o *goneOne, old, new string) string {
	ob := &o.obs
	if old == "atonce" {
		old = "close" // (a consistent sequence is never cut short: the server closes in phase 2)
	}
	if old == "stay" {
		if !ob.quietButEnc() {
			return "the server kept the connection, and the client did something on its own: " + ob.show()
		}
		return ""
	}
	// (after a RESET: whether and how fast a client that holds a key comes back is not this property's business - it
	// did not before the repository's "a connection that can't be read any more is replaced", it does since; only
	// what must not happen is looked at)
	if len(ob.Plain) != 0 {
		return fmt.Sprintf("the client holds a key, and sent %d unencrypted frame(s) after the server had hung up (the first: %s)", len(ob.Plain), showBytes(ob.Plain[0]))
	}
	if len(ob.Stores) != 0 {
		return "stored again after the server had hung up: " + hsShowStores(ob.Stores, o.run.Addr)
	}
	if !ob.EncFlag {
		return "the encrypted flag went off"
	}
	if (new == "serve" || new == "mute") && old != "reset" {
		if ob.Conns != 1 {
			return fmt.Sprintf("%d further connections after the server had hung up, expected one", ob.Conns)
		}
		if !ob.Pinged || len(ob.Enc) == 0 {
			return fmt.Sprintf("connected again, but the request issued then did not arrive (%d encrypted frames)", len(ob.Enc))
		}
		for _, pkt := range ob.Enc {
			if _, _, why := hsOpenClientFrame(o.run.AuthKey, pkt); why != "" {
				return "an encrypted frame after the reconnect cannot be opened with the key of the exchange: " + why
			}
		}
	}
	return ""
}

func (o *goneObs) quietButEnc() bool {
	return o.Conns == 0 && len(o.Plain) == 0 && len(o.Enc) == 0 && o.OldPlain == 0 && o.OldEnc == 0 && len(o.Stores) == 0
}

func (o *goneObs) show() string {
	var w []string
	for _, t := range o.Warn {
		if len(t) > 60 {
			t = t[:60]
		}
		w = append(w, strings.ReplaceAll(t, " ", "_"))
	}
	first := "-"
	if len(o.Plain) > 0 && len(o.Plain[0]) >= 4 {
		first = fmt.Sprintf("%08x", binary.LittleEndian.Uint32(o.Plain[0]))
	}
	return fmt.Sprintf("conns:%d,plain:%d(first:%s),enc:%d,old-plain:%d,old-enc:%d,stores:%d,exchange-completed:%v,encrypted-flag:%v,warnings:%d[%s]",
		o.Conns, len(o.Plain), first, len(o.Enc), o.OldPlain, o.OldEnc, len(o.Stores), o.Done, o.EncFlag, len(o.Warn), strings.Join(w, ";"))
}

// goneAfter: the `after=` part of one client's result
func goneAfter(o *goneOne) string {
	g := c07LastGone
	switch {
	case o.m == nil:
		return "no-client"
	case o.run.Outcome == "ok":
		if goneResumed(o, g.old, g.new) == "" {
			return "resumed"
		}
		return o.obs.show()
	case o.obs.quiet():
		return "quiet"
	}
	return o.obs.show()
}

func c07GoneJudge(op []string, out string) string {
	g := c07LastGone
	if g == nil {
		return "no run recorded"
	}
	var bad []string
	for i, o := range g.ones {
		who := fmt.Sprintf("client %d of %d (server: %s the connection of the exchange, further connections: %s; watched for %s)", i+1, len(g.ones), goneVerb[g.old], g.new, g.window)
		for _, b := range c07JudgeRun(o.c, o.run, true) {
			bad = append(bad, who+": "+b)
		}
		if o.m == nil {
			continue
		}
		v := hsJudgeReplies(&o.c.D, &o.c.Pub, o.c.R)
		ob := &o.obs
		if v.Consistent {
			if o.run.Outcome == "ok" {
				if why := goneResumed(o, g.old, g.new); why != "" {
					bad = append(bad, who+": the exchange succeeded; afterwards: "+why+" ["+ob.show()+"]")
				}
			}
			continue
		}
		if ob.quiet() {
			continue
		}
		var what []string
		if ob.Conns > 0 {
			what = append(what, fmt.Sprintf("the client connected again on its own (%d further connection(s) accepted by the server)", ob.Conns))
		}
		if n := len(ob.Plain); n > 0 {
			what = append(what, fmt.Sprintf("wrote %d unencrypted frame(s) there (the first: %s)", n, showBytes(ob.Plain[0])))
		}
		if ob.Done {
			what = append(what, "ran a complete NEW key exchange nobody asked for")
		}
		if n := len(ob.Enc); n > 0 {
			what = append(what, fmt.Sprintf("wrote %d ENCRYPTED frame(s) (the first: auth_key_id %s, %d bytes)", n, hexD(ob.Enc[0][:8]), len(ob.Enc[0])))
		}
		if ob.OldPlain+ob.OldEnc > 0 {
			what = append(what, fmt.Sprintf("wrote %d unencrypted / %d encrypted frame(s) on the connection of the abandoned exchange", ob.OldPlain, ob.OldEnc))
		}
		if len(ob.Stores) > 0 {
			what = append(what, "a session was STORED: "+hsShowStores(ob.Stores, o.run.Addr))
		}
		if ob.EncFlag {
			what = append(what, "the client is in encrypted mode")
		}
		if a := ob.attempts(); len(a) > 0 {
			t := a[0]
			if len(t) > 200 {
				t = t[:200] + "…"
			}
			what = append(what, fmt.Sprintf("%d warning(s) of a connection attempt from routines that went on (the first: %q)", len(a), t))
		}
		bad = append(bad, fmt.Sprintf("%s: inconsistent replies (%s), CreateConnection returned %s (%s) with nothing stored; AFTER that, behind the application's back: %s",
			who, v.Why, o.run.Outcome, o.run.ErrText, strings.Join(what, "; ")))
	}
	return strings.Join(bad, " ;; ")
}

// ---- generation ------------------------------------------------------------------------------------------

// c07GonePool: every inconsistent (and a few consistent) exchange the generator built in this run, by class of
// fault; c07GenGone draws its clients from it
type c07GoneEntry struct {
	cls, tag string
	group    string // "<d> <12 tokens>"
}

var (
	c07GonePool    []c07GoneEntry
	c07GoneHonest  []c07GoneEntry
)

func c07GoneRemember(b *c07Base, tag string, consistent bool, line string) {
	grp := hexD(b.c.S.Key.D.Bytes()) + " " + strings.Join(strings.Fields(line)[2:], " ")
	if consistent {
		if tag == "none" || len(c07GoneHonest) < 4 {
			c07GoneHonest = append(c07GoneHonest, c07GoneEntry{"consistent", tag, grp})
		}
		return
	}
	c07GonePool = append(c07GonePool, c07GoneEntry{strings.SplitN(tag, ":", 2)[0], tag, grp})
}

func c07GoneOp(tag, mode string, windowMs int, es []c07GoneEntry) string {
	parts := []string{"c07.gone", tag, mode, strconv.Itoa(windowMs), strconv.Itoa(len(es))}
	for _, e := range es {
		parts = append(parts, e.group)
	}
	return strings.Join(parts, " ")
}

// c07GenGone: per behaviour of the server one operation (thorough: several) whose clients are drawn from the pool so
// that every step at which an exchange can be abandoned occurs: one entry per class of fault, the classes in a
// shuffled order, k at a time.
func c07GenGone(g *G, r *Rand) {
	if len(c07GonePool) == 0 {
		return
	}
	// the classes by the STEP at which the exchange is abandoned (reply 1 / 2 / 3: a field of that reply wrong or the
	// reply undecodable) and, apart from those, a reply of the wrong constructor at any step
	stageOf := func(cls string) string {
		switch {
		case strings.HasPrefix(cls, "kind"):
			return "wrong-constructor"
		case strings.HasPrefix(cls, "resPQ"), cls == "garbage1":
			return "reply1"
		case strings.HasPrefix(cls, "dhOk"), strings.HasPrefix(cls, "inner"), cls == "garbage2":
			return "reply2"
		}
		return "reply3"
	}
	stages := []string{"reply1", "reply2", "reply3", "wrong-constructor"}
	byCls := map[string][]c07GoneEntry{}
	byStage := map[string][]string{}
	for _, e := range c07GonePool {
		if _, ok := byCls[e.cls]; !ok {
			st := stageOf(e.cls)
			byStage[st] = append(byStage[st], e.cls)
		}
		byCls[e.cls] = append(byCls[e.cls], e)
	}
	window := g.N(1500, 3000)
	k := g.N(8, 12)
	// k clients: the steps in turn, a class of that step, an exchange of that class
	pick := func(n int) []c07GoneEntry {
		var es []c07GoneEntry
		for i := 0; len(es) < n && i < 4*n; i++ {
			cs := byStage[stages[i%len(stages)]]
			if len(cs) == 0 {
				continue
			}
			c := byCls[cs[r.Intn(len(cs))]]
			es = append(es, c[r.Intn(len(c))])
		}
		return es
	}
	modes := [][2]string{
		{"close", "serve"}, {"close", "refuse"}, {"halfclose", "serve"}, {"reset", "serve"},
		{"close", "replay"}, {"close", "mute"}, {"close", "drop"}, {"stay", "serve"},
		{"atonce", "serve"}, {"atonce", "mute"},
	}
	if g.Thorough() {
		modes = nil
		for _, o := range c07GoneOld {
			for _, n := range c07GoneNew {
				modes = append(modes, [2]string{o, n})
			}
		}
	}
	reps := g.N(1, 2)
	for rep := 0; rep < reps; rep++ {
		for _, m := range modes {
			es := pick(k)
			if len(es) == 0 {
				continue
			}
			tags := []string{"server-gone", "server-gone:" + m[0] + "+" + m[1]}
			// the mirror: a client whose exchange succeeded, among the others
			if len(c07GoneHonest) > 0 && (m[1] == "serve" || m[1] == "mute") {
				es[r.Intn(len(es))] = c07GoneHonest[r.Intn(len(c07GoneHonest))]
				tags = append(tags, "server-gone:with-a-completed-exchange")
			}
			for _, e := range es {
				if e.cls != "consistent" {
					tags = append(tags, "server-gone:abandoned-at:"+stageOf(e.cls))
				}
			}
			g.Emit(c07GoneOp("gone:"+m[0]+"+"+m[1], m[0]+"+"+m[1], window, es), tags...)
		}
	}
}
