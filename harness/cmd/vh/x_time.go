package main

import "time"

func timeNow() time.Time { return time.Now() }
