package main

// Shared by the TL properties (C01, C02, C13, C15): type-directed generation of Go values of the
// registered types, their canonical text form (the same form the Lean driver prints and parses),
// and the reverse direction for replays.

import (
	"encoding/hex"
	"fmt"
	"math"
	"math/big"
	"reflect"
	"sort"
	"strconv"
	"strings"

	"github.com/xelaj/mtproto/internal/encoding/tl"
	"github.com/xelaj/mtproto/internal/mtproto/messages"
	"github.com/xelaj/mtproto/internal/mtproto/objects"

	"github.com/xelaj/mtproto/verifharness/internal/reg"
)

var (
	tInt128    = reflect.TypeOf((*tl.Int128)(nil))
	tInt256    = reflect.TypeOf((*tl.Int256)(nil))
	tBytes     = reflect.TypeOf([]byte(nil))
	tObject    = reflect.TypeOf((*tl.Object)(nil)).Elem()
	tContainer = reflect.TypeOf((*objects.MessageContainer)(nil))
	tGzip      = reflect.TypeOf((*objects.GzipPacked)(nil))
)

// ---- dump: Go value -> text -----------------------------------------------------------------------

func dumpAny(x interface{}) string {
	if x == nil {
		return "N"
	}
	v := reflect.ValueOf(x)
	if v.Kind() == reflect.Slice {
		return dumpVal(v)
	}
	return dumpDyn(v)
}

func dumpVal(v reflect.Value) string {
	t := v.Type()
	switch {
	case t == tInt128 || t == tInt256:
		if v.IsNil() {
			return "N"
		}
		w := 16
		var n *big.Int
		if t == tInt128 {
			n = v.Interface().(*tl.Int128).Int
		} else {
			w = 32
			n = v.Interface().(*tl.Int256).Int
		}
		if n == nil {
			return "N"
		}
		return fmt.Sprintf("i%d:%s", w, new(big.Int).Abs(n).String())
	case t == tBytes:
		if v.IsNil() {
			return "bN"
		}
		return "b" + hexD(v.Bytes())
	case t == tContainer:
		if v.IsNil() {
			return "N"
		}
		c := *(v.Interface().(*objects.MessageContainer))
		var ms []string
		for _, m := range c {
			ms = append(ms, fmt.Sprintf("o00000000(l%d;w%d;b%s)", uint64(m.MsgID), uint32(m.SeqNo), hexD(m.Msg)))
		}
		return "o73f1f8dc(v(" + strings.Join(ms, ";") + "))"
	case t == tGzip:
		if v.IsNil() {
			return "N"
		}
		return "o3072cfa1(" + dumpAny(v.Interface().(*objects.GzipPacked).Obj) + ")"
	}
	switch t.Kind() {
	case reflect.Int32:
		return "w" + strconv.FormatUint(uint64(uint32(v.Int())), 10)
	case reflect.Uint32:
		if t.PkgPath() != "" && t.Implements(tObject) && !v.CanAddr() && false {
			return ""
		}
		return "w" + strconv.FormatUint(v.Uint(), 10)
	case reflect.Int64:
		return "l" + strconv.FormatUint(uint64(v.Int()), 10)
	case reflect.Float64:
		return "d" + strconv.FormatUint(math.Float64bits(v.Float()), 10)
	case reflect.Bool:
		if v.Bool() {
			return "T"
		}
		return "F"
	case reflect.String:
		return "s" + hexD([]byte(v.String()))
	case reflect.Slice:
		if v.IsNil() {
			return "vN"
		}
		parts := make([]string, v.Len())
		for i := range parts {
			parts[i] = dumpVal(v.Index(i))
		}
		return "v(" + strings.Join(parts, ";") + ")"
	case reflect.Interface:
		if v.IsNil() {
			return "N"
		}
		return dumpDyn(v.Elem())
	case reflect.Ptr:
		if v.IsNil() {
			return "N"
		}
		return dumpDyn(v)
	}
	return "?" + t.String()
}

// dumpDyn renders a dynamic object value (what an interface holds / a non-nil pointer).
func dumpDyn(v reflect.Value) string {
	t := v.Type()
	switch x := v.Interface().(type) {
	case *tl.PseudoTrue:
		return "o997275b5()"
	case *tl.PseudoFalse:
		return "obc799737()"
	case *tl.PseudoNil:
		return "o56730bcc()"
	case *tl.WrappedSlice:
		return dumpAny(x.Unwrap())
	}
	if t == tContainer || t == tGzip || t == tInt128 || t == tInt256 {
		return dumpVal(v)
	}
	if t.Kind() == reflect.Uint32 { // an enum value as an object
		return fmt.Sprintf("o%08x()", uint32(v.Uint()))
	}
	if t.Kind() == reflect.Ptr && t.Elem().Kind() == reflect.Struct {
		id, ok := reg.CrcOf(t)
		if !ok {
			return "?" + t.String()
		}
		st := v.Elem()
		var parts []string
		for i := 0; i < st.NumField(); i++ {
			if tag, ok := st.Type().Field(i).Tag.Lookup("tl"); ok && strings.HasPrefix(tag, "-") {
				continue
			}
			parts = append(parts, dumpVal(st.Field(i)))
		}
		return fmt.Sprintf("o%08x(%s)", id, strings.Join(parts, ";"))
	}
	return "?" + t.String()
}

// eraseNil maps a dump to its nil-insensitive form (nil and empty slices / byte strings coincide).
func eraseNil(s string) string {
	s = strings.ReplaceAll(s, "vN", "v()")
	s = strings.ReplaceAll(s, "bN", "b-")
	return s
}

// ---- parse: text -> Go value of static type t -----------------------------------------------------

type tlParser struct {
	s   string
	pos int
}

func (p *tlParser) peek() byte {
	if p.pos < len(p.s) {
		return p.s[p.pos]
	}
	return 0
}
func (p *tlParser) tokEnd() int {
	i := p.pos
	for i < len(p.s) && p.s[i] != ';' && p.s[i] != ')' && p.s[i] != '(' {
		i++
	}
	return i
}

func parseTLValue(t reflect.Type, s string) reflect.Value {
	p := &tlParser{s: s}
	v := p.parse(t)
	if p.pos != len(s) {
		panic("trailing text in value: " + s[p.pos:])
	}
	return v
}

func (p *tlParser) digits() string {
	i := p.pos
	for i < len(p.s) && p.s[i] >= '0' && p.s[i] <= '9' {
		i++
	}
	d := p.s[p.pos:i]
	p.pos = i
	return d
}

func (p *tlParser) parse(t reflect.Type) reflect.Value {
	out := reflect.New(t).Elem()
	c := p.peek()
	switch c {
	case 'N':
		p.pos++
		return out
	case 'w':
		p.pos++
		n, _ := strconv.ParseUint(p.digits(), 10, 64)
		if t.Kind() == reflect.Int32 {
			out.SetInt(int64(int32(uint32(n))))
		} else {
			out.SetUint(n)
		}
		return out
	case 'l':
		p.pos++
		n, _ := strconv.ParseUint(p.digits(), 10, 64)
		out.SetInt(int64(n))
		return out
	case 'd':
		p.pos++
		n, _ := strconv.ParseUint(p.digits(), 10, 64)
		out.SetFloat(math.Float64frombits(n))
		return out
	case 'T', 'F':
		p.pos++
		out.SetBool(c == 'T')
		return out
	case 's':
		p.pos++
		e := p.tokEnd()
		b := parseBytes(p.s[p.pos:e])
		p.pos = e
		out.SetString(string(b))
		return out
	case 'b':
		p.pos++
		if p.peek() == 'N' {
			p.pos++
			return out
		}
		e := p.tokEnd()
		b := parseBytes(p.s[p.pos:e])
		p.pos = e
		out.SetBytes(append([]byte{}, b...))
		return out
	case 'i':
		p.pos++
		w := p.digits()
		p.pos++ // ':'
		d := p.digits()
		n, _ := new(big.Int).SetString(d, 10)
		if w == "16" {
			out.Set(reflect.ValueOf(&tl.Int128{Int: n}))
		} else {
			out.Set(reflect.ValueOf(&tl.Int256{Int: n}))
		}
		return out
	case 'v':
		p.pos++
		if p.peek() == 'N' {
			p.pos++
			return out
		}
		p.pos++ // '('
		sl := reflect.MakeSlice(t, 0, 0)
		for p.peek() != ')' {
			sl = reflect.Append(sl, p.parse(t.Elem()))
			if p.peek() == ';' {
				p.pos++
			}
		}
		p.pos++
		return sl
	case 'o':
		p.pos++
		idHex := p.s[p.pos : p.pos+8]
		p.pos += 8
		idb, _ := hex.DecodeString(idHex)
		id := uint32(idb[0])<<24 | uint32(idb[1])<<16 | uint32(idb[2])<<8 | uint32(idb[3])
		p.pos++ // '('
		c := reg.ByID()[id]
		if c == nil {
			panic("unknown constructor in value: " + idHex)
		}
		var obj reflect.Value
		switch c.Kind {
		case "container":
			var ms objects.MessageContainer
			// v(o00000000(l..;w..;b..);...)
			inner := p.parse(reflect.TypeOf([]*containerMember(nil)))
			for i := 0; i < inner.Len(); i++ {
				m := inner.Index(i).Interface().(*containerMember)
				ms = append(ms, &messages.Encrypted{MsgID: m.MsgID, SeqNo: m.SeqNo, Msg: m.Msg})
			}
			if ms == nil {
				ms = objects.MessageContainer{}
			}
			obj = reflect.ValueOf(&ms)
		case "enum":
			e := reflect.New(c.Type).Elem()
			e.SetUint(uint64(id))
			obj = e
		default:
			obj = reflect.New(c.Type.Elem())
			st := obj.Elem()
			for i := 0; i < st.NumField(); i++ {
				st.Field(i).Set(p.parse(st.Type().Field(i).Type))
				if p.peek() == ';' {
					p.pos++
				}
			}
		}
		if p.peek() != ')' {
			panic("expected ) in value at " + strconv.Itoa(p.pos))
		}
		p.pos++
		if t.Kind() == reflect.Interface || t == obj.Type() {
			out.Set(obj)
			return out
		}
		panic(fmt.Sprintf("object %s where %v expected", idHex, t))
	}
	panic("cannot parse value at " + strconv.Itoa(p.pos) + ": " + p.s)
}

// containerMember is only a parsing aid for message container members (o00000000(l;w;b)).
type containerMember struct {
	MsgID int64
	SeqNo int32
	Msg   []byte
}

func (*containerMember) CRC() uint32 { return 0 }

func init() {
	// make the parser able to read members: register the aid type under id 0 in our own table only
	reg.RegisterAid(0, reflect.TypeOf((*containerMember)(nil)))
}

// ---- generation -------------------------------------------------------------------------------------

type tlGen struct {
	r        *Rand
	impls    map[reflect.Type][]*reg.Ctor // interface type -> registered struct constructors implementing it
	enums    map[reflect.Type][]uint32    // enum type -> member ids
	height   map[uint32]int               // minimal nesting height of a value of the constructor
	ifHeight map[reflect.Type]int
	maxDepth int
	// knobs
	bigStrings  bool
	alwaysCanon bool
	// fieldsOf, when set, says which conditional fields of a constructor form a group and which booleans
	// are bare flag bits (HasFlag / Bit / InBits of the returned descriptors; same length and order as
	// c.Fields) instead of the struct tags: C01 reads that from the schema. nil: the struct tags.
	fieldsOf func(c *reg.Ctor) []reg.Field
}

func (g *tlGen) fields(c *reg.Ctor) []reg.Field {
	if g.fieldsOf != nil {
		if fs := g.fieldsOf(c); len(fs) == len(c.Fields) {
			return fs
		}
	}
	return c.Fields
}

func newTLGen(r *Rand) *tlGen {
	g := &tlGen{r: r, impls: map[reflect.Type][]*reg.Ctor{}, enums: map[reflect.Type][]uint32{}, height: map[uint32]int{}, ifHeight: map[reflect.Type]int{}, maxDepth: 3}
	all := reg.All()
	ifaceTypes := map[reflect.Type]bool{}
	var walk func(t reflect.Type)
	walk = func(t reflect.Type) {
		switch t.Kind() {
		case reflect.Interface:
			ifaceTypes[t] = true
		case reflect.Slice:
			walk(t.Elem())
		}
	}
	for i := range all {
		c := &all[i]
		if c.Kind == "enum" {
			g.enums[c.Type] = append(g.enums[c.Type], c.ID)
		}
		for _, f := range c.Fields {
			walk(f.Type)
		}
	}
	for it := range ifaceTypes {
		for i := range all {
			c := &all[i]
			if c.Kind == "struct" && c.Type.Implements(it) && marshalable(c) {
				g.impls[it] = append(g.impls[it], c)
			}
		}
	}
	// minimal heights by fixpoint
	const inf = 1 << 20
	for i := range all {
		g.height[all[i].ID] = inf
	}
	for it := range ifaceTypes {
		g.ifHeight[it] = inf
	}
	for changed := true; changed; {
		changed = false
		for i := range all {
			c := &all[i]
			if c.Kind != "struct" {
				continue
			}
			h := 0
			for _, f := range c.Fields {
				if f.HasFlag {
					continue // can be left absent
				}
				fh := g.typeHeight(f.Type)
				if fh > h {
					h = fh
				}
			}
			if h+1 < g.height[c.ID] {
				g.height[c.ID] = h + 1
				changed = true
			}
		}
		for it := range ifaceTypes {
			best := inf
			for _, c := range g.impls[it] {
				if g.height[c.ID] < best {
					best = g.height[c.ID]
				}
			}
			if best < g.ifHeight[it] {
				g.ifHeight[it] = best
				changed = true
			}
		}
	}
	return g
}

func marshalable(c *reg.Ctor) bool {
	for _, f := range c.Fields {
		if strings.Contains(f.Ty, ".bad") {
			return false
		}
	}
	return true
}

func (g *tlGen) typeHeight(t reflect.Type) int {
	switch t.Kind() {
	case reflect.Interface:
		return g.ifHeight[t]
	case reflect.Ptr:
		if t == tInt128 || t == tInt256 {
			return 0
		}
		if id, ok := reg.CrcOf(t); ok {
			return g.height[id]
		}
		return 1 << 20
	}
	return 0 // slices can be empty
}

func (g *tlGen) int32v() int32 {
	switch g.r.Intn(8) {
	case 0:
		return 0
	case 1:
		return 1
	case 2:
		return -1
	case 3:
		return math.MinInt32
	case 4:
		return math.MaxInt32
	}
	return int32(g.r.U64())
}

func (g *tlGen) strLen() int {
	switch g.r.Intn(12) {
	case 0:
		return 0
	case 1, 2, 3:
		return g.r.Intn(6)
	case 4:
		return 250 + g.r.Intn(10)
	case 5:
		if g.bigStrings {
			return g.r.Pick(65535, 65536, 70000)
		}
		return 8 + g.r.Intn(8)
	}
	return g.r.Intn(40)
}

func (g *tlGen) bigBytes(n int) []byte {
	b := g.r.Bytes(n)
	switch g.r.Intn(6) {
	case 0:
		b[0] = 0
	case 1:
		b[0], b[1] = 0, 0
	case 2:
		for i := range b {
			b[i] = 0
		}
	case 3:
		for i := range b {
			b[i] = 0xff
		}
	}
	return b
}

// bigIntEdges: the fixed-width numbers that every run contains whatever the seed draws: 0, 1, all ones,
// numbers with exactly 1, 2, 8, 16 and width-1 leading zero bytes (the first significant byte not zero, the
// rest random), and the two numbers around the half width (2^(4*width) and 2^(4*width)-1).
func (g *tlGen) bigIntEdges(width int) []*big.Int {
	var out []*big.Int
	out = append(out, new(big.Int), big.NewInt(1))
	ones := make([]byte, width)
	for i := range ones {
		ones[i] = 0xff
	}
	out = append(out, new(big.Int).SetBytes(ones))
	for _, z := range []int{1, 2, 8, 16, width - 1} {
		if z < 1 || z >= width {
			continue
		}
		b := g.r.Bytes(width)
		for i := 0; i < z; i++ {
			b[i] = 0
		}
		if b[z] == 0 {
			b[z] = 1 + byte(g.r.Intn(255))
		}
		out = append(out, new(big.Int).SetBytes(b))
	}
	half := new(big.Int).Lsh(big.NewInt(1), uint(4*width))
	out = append(out, half, new(big.Int).Sub(half, big.NewInt(1)))
	return out
}

// bigIntObjects: for a constructor that has *tl.Int128 / *tl.Int256 fields (or vectors of them), objects
// in which these fields hold the numbers of bigIntEdges: for every edge class one object with every such
// field in that class, and for every such field and class one object in which the other fields are random.
// Everything else as object() makes it. Empty for constructors without such fields.
func (g *tlGen) bigIntObjects(c *reg.Ctor, depth int) []reflect.Value {
	width := func(t reflect.Type) int {
		switch {
		case t == tInt128, t.Kind() == reflect.Slice && t.Elem() == tInt128:
			return 16
		case t == tInt256, t.Kind() == reflect.Slice && t.Elem() == tInt256:
			return 32
		}
		return 0
	}
	var idx []int
	for i, f := range c.Fields {
		if !f.Ignore && width(f.Type) > 0 {
			idx = append(idx, i)
		}
	}
	if len(idx) == 0 {
		return nil
	}
	set := func(st reflect.Value, i, class int) bool {
		t := c.Fields[i].Type
		w := width(t)
		es := g.bigIntEdges(w)
		if class >= len(es) {
			return false
		}
		mk := func(n *big.Int) reflect.Value {
			if w == 16 {
				return reflect.ValueOf(&tl.Int128{Int: n})
			}
			return reflect.ValueOf(&tl.Int256{Int: n})
		}
		if t.Kind() == reflect.Slice { // the class first, then every other one
			sl := reflect.MakeSlice(t, 0, len(es))
			sl = reflect.Append(sl, mk(es[class]))
			for k, e := range es {
				if k != class {
					sl = reflect.Append(sl, mk(e))
				}
			}
			st.Field(i).Set(sl)
		} else {
			st.Field(i).Set(mk(es[class]))
		}
		return true
	}
	nClass := len(g.bigIntEdges(32))
	var out []reflect.Value
	for class := 0; class < nClass; class++ {
		obj, any := g.object(c, depth), false
		for _, i := range idx {
			any = set(obj.Elem(), i, class) || any
		}
		if any {
			out = append(out, obj)
		}
		if len(idx) > 1 {
			for _, i := range idx {
				obj := g.object(c, depth)
				if set(obj.Elem(), i, class) {
					out = append(out, obj)
				}
			}
		}
	}
	return out
}

// value generates a value of static type t. nonNil forces pointers/interfaces to be non-nil.
func (g *tlGen) value(t reflect.Type, depth int, nonNil bool) reflect.Value {
	out := reflect.New(t).Elem()
	switch {
	case t == tInt128:
		out.Set(reflect.ValueOf(&tl.Int128{Int: new(big.Int).SetBytes(g.bigBytes(16))}))
		return out
	case t == tInt256:
		out.Set(reflect.ValueOf(&tl.Int256{Int: new(big.Int).SetBytes(g.bigBytes(32))}))
		return out
	case t == tBytes:
		switch g.r.Intn(6) {
		case 0:
			if !nonNil {
				return out // nil
			}
			out.SetBytes([]byte{})
		case 1:
			out.SetBytes([]byte{})
		default:
			out.SetBytes(g.r.Bytes(g.strLen()))
		}
		return out
	}
	switch t.Kind() {
	case reflect.Int32:
		out.SetInt(int64(g.int32v()))
	case reflect.Uint32:
		if ms := g.enums[t]; len(ms) > 0 && g.r.Intn(20) != 0 {
			out.SetUint(uint64(ms[g.r.Intn(len(ms))]))
		} else {
			out.SetUint(uint64(uint32(g.r.U64())))
		}
	case reflect.Int64:
		switch g.r.Intn(6) {
		case 0:
			out.SetInt(0)
		case 1:
			out.SetInt(math.MinInt64)
		case 2:
			out.SetInt(math.MaxInt64)
		case 3:
			out.SetInt(-1)
		default:
			out.SetInt(int64(g.r.U64()))
		}
	case reflect.Float64:
		switch g.r.Intn(7) {
		case 0:
			out.SetFloat(0)
		case 1:
			out.SetFloat(math.Copysign(0, -1))
		case 2:
			out.SetFloat(math.Float64frombits(0x7ff8000000000001 | g.r.U64()&0xfffff))
		case 3:
			out.SetFloat(math.Inf(-1))
		case 4:
			out.SetFloat(1.5)
		default:
			out.SetFloat(math.Float64frombits(g.r.U64()))
		}
	case reflect.Bool:
		out.SetBool(g.r.Bool())
	case reflect.String:
		out.SetString(string(g.r.Bytes(g.strLen())))
	case reflect.Slice:
		n := 0
		switch g.r.Intn(7) {
		case 0:
			if !nonNil {
				return out
			}
		case 1:
			n = 0
		case 2:
			n = 1
		case 3:
			n = 2
		case 4:
			if depth < g.maxDepth-1 || g.typeHeight(t.Elem()) == 0 {
				n = 3 + g.r.Intn(5)
			} else {
				n = 1
			}
		default:
			n = g.r.Intn(3)
		}
		sl := reflect.MakeSlice(t, n, n)
		for i := 0; i < n; i++ {
			sl.Index(i).Set(g.value(t.Elem(), depth+1, true))
		}
		return sl
	case reflect.Interface:
		cands := g.impls[t]
		if len(cands) == 0 {
			return out
		}
		var c *reg.Ctor
		if depth >= g.maxDepth {
			// out of budget: the shallowest implementer
			best := cands[0]
			for _, k := range cands {
				if g.height[k.ID] < g.height[best.ID] {
					best = k
				}
			}
			c = best
		} else {
			c = cands[g.r.Intn(len(cands))]
		}
		out.Set(g.object(c, depth+1))
	case reflect.Ptr:
		if id, ok := reg.CrcOf(t); ok {
			if c := reg.ByID()[id]; c != nil && c.Kind == "struct" {
				out.Set(g.object(c, depth+1))
			}
		}
	}
	return out
}

// object generates a pointer to a filled struct of constructor c.
func (g *tlGen) object(c *reg.Ctor, depth int) reflect.Value {
	obj := reflect.New(c.Type.Elem())
	st := obj.Elem()
	present := map[int]bool{}
	fields := g.fields(c)
	for i, f := range fields {
		if f.Ignore {
			continue
		}
		if !f.HasFlag {
			st.Field(i).Set(g.value(f.Type, depth, true))
			continue
		}
		// optional: zero with probability 1/2 (more often when out of depth budget)
		p := 2
		if depth >= g.maxDepth {
			p = 6
		}
		if g.r.Intn(p) == 0 {
			v := g.value(f.Type, depth, false)
			st.Field(i).Set(v)
			if !v.IsZero() {
				present[f.Bit] = true
			}
		}
	}
	// canonical form (usually): a bitflag member equals the presence of its group; members of a
	// present group that cannot be nil on the wire (pointers, interfaces) are filled
	canon := g.alwaysCanon || g.r.Intn(8) != 0
	if canon {
		for i, f := range fields {
			if !f.HasFlag {
				continue
			}
			if f.InBits {
				if st.Field(i).Kind() == reflect.Bool {
					st.Field(i).SetBool(present[f.Bit])
				}
				continue
			}
			if present[f.Bit] && st.Field(i).IsZero() {
				k := f.Type.Kind()
				if k == reflect.Ptr || k == reflect.Interface {
					st.Field(i).Set(g.value(f.Type, depth, true))
				}
			}
		}
	}
	return obj
}

// isCanonical: every bitflag member equals the presence of its flag group (see DESIGN, C01 reading);
// groups and bitflag members as the struct tags say.
func isCanonical(v reflect.Value) bool { return isCanonicalBy(v, nil) }

// isCanonicalBy: the same with the groups taken from fieldsOf (nil, or a result of another length than
// c.Fields: the struct tags) - see tlGen.fieldsOf.
func isCanonicalBy(v reflect.Value, fieldsOf func(c *reg.Ctor) []reg.Field) bool {
	switch v.Kind() {
	case reflect.Interface:
		if v.IsNil() {
			return true
		}
		return isCanonicalBy(v.Elem(), fieldsOf)
	case reflect.Slice:
		for i := 0; i < v.Len(); i++ {
			if !isCanonicalBy(v.Index(i), fieldsOf) {
				return false
			}
		}
		return true
	case reflect.Ptr:
		if v.IsNil() || v.Elem().Kind() != reflect.Struct {
			return true
		}
		id, ok := reg.CrcOf(v.Type())
		if !ok {
			return true
		}
		c := reg.ByID()[id]
		if c == nil || c.Kind != "struct" {
			return true
		}
		st := v.Elem()
		fields := c.Fields
		if fieldsOf != nil {
			if fs := fieldsOf(c); len(fs) == len(c.Fields) {
				fields = fs
			}
		}
		present := map[int]bool{}
		for i, f := range fields {
			if f.HasFlag && !st.Field(i).IsZero() {
				present[f.Bit] = true
			}
		}
		for i, f := range fields {
			if f.HasFlag && f.InBits && st.Field(i).Kind() == reflect.Bool && st.Field(i).Bool() != present[f.Bit] {
				return false
			}
			// -0.0 in a conditional double field is Go's zero value (absent): it comes back as +0.0
			if f.HasFlag && st.Field(i).Kind() == reflect.Float64 && st.Field(i).Float() == 0 && math.Signbit(st.Field(i).Float()) {
				return false
			}
			if !isCanonicalBy(st.Field(i), fieldsOf) {
				return false
			}
		}
	}
	return true
}

func sortedCtorIDs() []uint32 {
	var ids []uint32
	for _, c := range reg.All() {
		ids = append(ids, c.ID)
	}
	sort.Slice(ids, func(i, j int) bool { return ids[i] < ids[j] })
	return ids
}

// tlOutcome runs a codec call under recover and maps the result to value / err / panic.
func tlOutcome(f func() (string, error)) (out string) {
	defer func() {
		if r := recover(); r != nil {
			out = "panic"
		}
	}()
	s, err := f()
	if err != nil {
		return "err"
	}
	return s
}

