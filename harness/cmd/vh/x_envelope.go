package main

// Shared by the C03 and C04 harnesses (linked into every vh binary; every name starts with "env").
//
// (1) An independent implementation of the MTProto 1.0 encrypted envelope as the SERVER sees it,
//     written from the protocol description with crypto/sha1 + crypto/aes and its own IGE loop; it
//     shares no code with the repository. It is the oracle (Judge) of both properties.
// (2) Line-protocol helpers: byte-string tokens (incl. x<n>:<seed>, an LCG both sides implement),
//     canonical printing of messages and of the receive path's error classes.
// (3) A loopback TCP fixture that puts one packet in front of the real transport.ReadMsg.

import (
	"context"
	"crypto/aes"
	"crypto/sha1"
	"encoding/binary"
	"fmt"
	"io"
	"net"
	"strconv"
	"strings"
	"time"

	"github.com/xelaj/mtproto/internal/mode"
	"github.com/xelaj/mtproto/internal/mtproto/messages"
	"github.com/xelaj/mtproto/internal/transport"
)

// ---- (1) the specification's envelope -------------------------------------------------------------

type envMsg struct {
	Salt, Sid, Mid uint64
	Seq            uint32
	Body           []byte
}

func envSha1(parts ...[]byte) []byte {
	h := sha1.New()
	for _, p := range parts {
		h.Write(p)
	}
	return h.Sum(nil)
}

func envSubstr(b []byte, off, n int) []byte { return b[off : off+n] }

// envKeyIv: the key schedule; x = 0 client->server, x = 8 server->client. authKey must have >= 128+x bytes.
func envKeyIv(x int, authKey, msgKey []byte) (key, iv []byte) {
	a := envSha1(msgKey, envSubstr(authKey, x, 32))
	b := envSha1(envSubstr(authKey, 32+x, 16), msgKey, envSubstr(authKey, 48+x, 16))
	c := envSha1(envSubstr(authKey, 64+x, 32), msgKey)
	d := envSha1(msgKey, envSubstr(authKey, 96+x, 32))
	key = append(append(append([]byte{}, a[0:8]...), b[8:20]...), c[4:16]...)
	iv = append(append(append(append([]byte{}, a[8:20]...), b[0:8]...), c[16:20]...), d[0:8]...)
	return
}

func envXor16(dst, a, b []byte) {
	for i := 0; i < 16; i++ {
		dst[i] = a[i] ^ b[i]
	}
}

// envIGE: AES-256-IGE from the definition. c_i = E(p_i ^ c_{i-1}) ^ p_{i-1}; iv = c_0 || p_0.
func envIGE(key, iv, in []byte, encrypt bool) []byte {
	blk, err := aes.NewCipher(key)
	if err != nil {
		panic(err)
	}
	if len(in)%16 != 0 || len(iv) != 32 {
		panic("envIGE: bad input")
	}
	out := make([]byte, len(in))
	cPrev := append([]byte{}, iv[:16]...)
	pPrev := append([]byte{}, iv[16:]...)
	t := make([]byte, 16)
	for i := 0; i < len(in); i += 16 {
		if encrypt {
			p := in[i : i+16]
			envXor16(t, p, cPrev)
			blk.Encrypt(t, t)
			envXor16(out[i:i+16], t, pPrev)
			copy(cPrev, out[i:i+16])
			copy(pPrev, p)
		} else {
			c := in[i : i+16]
			envXor16(t, c, pPrev)
			blk.Decrypt(t, t)
			envXor16(out[i:i+16], t, cPrev)
			copy(pPrev, out[i:i+16])
			copy(cPrev, c)
		}
	}
	return out
}

func envPlain(m envMsg, declaredLen uint32) []byte {
	p := make([]byte, 32, 32+len(m.Body)+16)
	binary.LittleEndian.PutUint64(p[0:], m.Salt)
	binary.LittleEndian.PutUint64(p[8:], m.Sid)
	binary.LittleEndian.PutUint64(p[16:], m.Mid)
	binary.LittleEndian.PutUint32(p[24:], m.Seq)
	binary.LittleEndian.PutUint32(p[28:], declaredLen)
	return append(p, m.Body...)
}

// envSeal: packet in direction x for message m with the given padding bytes.
func envSeal(x int, authKey []byte, m envMsg, pad []byte) []byte {
	pt := envPlain(m, uint32(len(m.Body)))
	return envSealRaw(x, authKey, append(pt, pad...), len(pt))
}

// envSealRaw: seals an arbitrary (block-aligned) plaintext, msg_key taken over plain[:span] — what a
// holder of the key can produce, honest or not.
func envSealRaw(x int, authKey, plain []byte, span int) []byte {
	mk := envSha1(plain[:span])[4:20]
	key, iv := envKeyIv(x, authKey, mk)
	pkt := append([]byte{}, envSha1(authKey)[12:20]...)
	pkt = append(pkt, mk...)
	return append(pkt, envIGE(key, iv, plain, true)...)
}

// envSealWithMsgKey: the ciphertext is made under the key/IV that the given msg_key yields, whatever
// that msg_key is — a key holder's forgery when mk is not the digest of the plaintext.
func envSealWithMsgKey(x int, authKey, plain, mk []byte) []byte {
	key, iv := envKeyIv(x, authKey, mk)
	pkt := append([]byte{}, envSha1(authKey)[12:20]...)
	pkt = append(pkt, mk...)
	return append(pkt, envIGE(key, iv, plain, true)...)
}

// envOpen: the receiver's side of the description in direction x. strictPad: also insist on fewer
// than 16 padding bytes (what a server asks of a client). Returns the message or why it is refused.
func envOpen(x int, authKey, pkt []byte, strictPad bool) (envMsg, string) {
	var m envMsg
	if len(pkt) < 24+32 {
		return m, "shorter than key id + msg_key + inner header"
	}
	if string(pkt[:8]) != string(envSha1(authKey)[12:20]) {
		return m, "auth_key_id differs"
	}
	mk, ct := pkt[8:24], pkt[24:]
	if len(ct)%16 != 0 {
		return m, "ciphertext not block aligned"
	}
	key, iv := envKeyIv(x, authKey, mk)
	pt := envIGE(key, iv, ct, false)
	l := int64(int32(binary.LittleEndian.Uint32(pt[28:32])))
	if l < 0 || 32+l > int64(len(pt)) {
		return m, fmt.Sprintf("declared length %d outside the %d decrypted bytes", l, len(pt))
	}
	if strictPad && int64(len(pt))-(32+l) >= 16 {
		return m, "16 or more padding bytes"
	}
	if string(envSha1(pt[:32+l])[4:20]) != string(mk) {
		return m, "msg_key is not SHA1(header+body)[4:20]"
	}
	m.Salt = binary.LittleEndian.Uint64(pt[0:])
	m.Sid = binary.LittleEndian.Uint64(pt[8:])
	m.Mid = binary.LittleEndian.Uint64(pt[16:])
	m.Seq = binary.LittleEndian.Uint32(pt[24:])
	m.Body = pt[32 : 32+l]
	return m, ""
}

// ---- (2) line protocol -------------------------------------------------------------------------------

func envLCG(n int, seed uint64) []byte {
	b := make([]byte, n)
	s := seed
	for i := range b {
		s = s*6364136223846793005 + 1442695040888963407
		b[i] = byte(s >> 56)
	}
	return b
}

// envTok: hex, "-", z<n>, p<n>, x<n>:<seed>
func envTok(s string) []byte {
	if strings.HasPrefix(s, "x") {
		parts := strings.SplitN(s[1:], ":", 2)
		if len(parts) != 2 {
			panic("bad x token " + s)
		}
		n, err := strconv.Atoi(parts[0])
		if err != nil {
			panic("bad x token " + s)
		}
		sd, err := strconv.ParseUint(parts[1], 10, 64)
		if err != nil {
			panic("bad x token " + s)
		}
		return envLCG(n, sd)
	}
	return parseBytes(s)
}

func envU64(s string) uint64 {
	v, err := strconv.ParseUint(s, 10, 64)
	if err != nil {
		panic("bad uint token " + s)
	}
	return v
}

func envShowMsg(m envMsg) string {
	return fmt.Sprintf("ok salt=%d sid=%d mid=%d seq=%d body=%s", m.Salt, m.Sid, m.Mid, m.Seq, showBytes(m.Body))
}

func envOfEncrypted(e *messages.Encrypted) envMsg {
	return envMsg{Salt: uint64(e.Salt), Sid: uint64(e.SessionID), Mid: uint64(e.MsgID), Seq: uint32(e.SeqNo), Body: e.Msg}
}

// envStreamErr: the error is about the connection (end of stream, reset, closed, timeout), not a refusal of the
// packet that was read. Decided by what the error IS (its cause), not by how it is worded or wrapped.
func envStreamErr(err error) bool {
	c := err
	for {
		u, ok := c.(interface{ Cause() error })
		if !ok || u.Cause() == nil {
			break
		}
		c = u.Cause()
	}
	if c == io.EOF || c == io.ErrUnexpectedEOF || c == context.Canceled {
		return true
	}
	if _, ok := c.(net.Error); ok {
		return true
	}
	e := strings.ToLower(c.Error())
	return strings.Contains(e, "use of closed") || strings.Contains(e, "connection reset") || strings.Contains(e, "broken pipe")
}

// envOpenErr maps DeserializeEncrypted's errors to the model's error classes.
func envOpenErr(err error) string {
	s := err.Error()
	switch {
	case strings.Contains(s, "wrong encryption key"):
		return "err:wrongKey"
	case strings.Contains(s, "data too small"):
		return "err:dataTooSmall"
	case strings.Contains(s, "not divisible"):
		return "err:dataNotDivisible"
	case strings.Contains(s, "message is smaller"):
		return "err:tooSmall"
	case strings.Contains(s, "wrong bits of message_id"):
		return "err:parity"
	case strings.Contains(s, "wrong message key"):
		return "err:wrongMsgKey"
	case strings.Contains(s, "auth key is too short"):
		return "err:shortKey"
	}
	// a refusal whose text the harness does not know (a reworded message): the class is left open, see
	// lib/vlib.py same_up_to_unknown_errors
	return "err:?"
}

func envUnencErr(err error) string {
	s := err.Error()
	switch {
	case strings.Contains(s, "Wrong bits of message_id"):
		return "err:unencParity"
	case strings.Contains(s, "not equal defined size"):
		return "err:unencLength"
	}
	return "err:?"
}

// envInformator is the session as the serialiser sees it.
type envInformator struct {
	sid  int64
	seq  int32
	salt int64
	key  []byte
}

func (i envInformator) GetSessionID() int64  { return i.sid }
func (i envInformator) GetSeqNo() int32      { return i.seq }
func (i envInformator) GetServerSalt() int64 { return i.salt }
func (i envInformator) GetAuthKey() []byte   { return i.key }

// ---- (3) one packet through the real transport.ReadMsg ------------------------------------------------

var envListener net.Listener

func envListen() {
	l, err := net.Listen("tcp", "127.0.0.1:0")
	if err != nil {
		panic(err)
	}
	envListener = l
}

func envUnlisten() {
	if envListener != nil {
		envListener.Close()
	}
}

// envRoute sends pkt as one intermediate-mode frame over loopback and returns what ReadMsg makes of it.
func envRoute(authKey, pkt []byte) string {
	done := make(chan struct{})
	go func() {
		defer close(done)
		conn, err := envListener.Accept()
		if err != nil {
			return
		}
		ann := make([]byte, 4)
		_, _ = io.ReadFull(conn, ann)
		frame := make([]byte, 4, 4+len(pkt))
		binary.LittleEndian.PutUint32(frame, uint32(len(pkt)))
		frame = append(frame, pkt...)
		_, _ = conn.Write(frame)
		_ = conn.Close()
	}()
	ctx, cancel := context.WithCancel(context.Background())
	defer cancel()
	t, err := transport.NewTransport(envInformator{key: authKey}, transport.TCPConnConfig{
		Ctx: ctx, Host: envListener.Addr().String(), Timeout: 10 * time.Second,
	}, mode.Intermediate)
	if err != nil {
		<-done
		return "dial-error:" + err.Error()
	}
	defer func() { t.Close(); <-done }()
	msg, err := t.ReadMsg()
	if err != nil {
		if code, ok := err.(transport.ErrCode); ok {
			return fmt.Sprintf("code:%d", int(code))
		}
		s := err.Error()
		if envStreamErr(err) {
			return "err:transport(" + strings.ReplaceAll(s, " ", "_") + ")"
		}
		if strings.HasPrefix(s, "wrong bits of message_id") {
			return "err:parity2"
		}
		if strings.Contains(s, "Wrong bits of message_id") || strings.Contains(s, "not equal defined size") {
			return envUnencErr(err)
		}
		return envOpenErr(err)
	}
	switch m := msg.(type) {
	case *messages.Encrypted:
		return "enc " + envShowMsg(envOfEncrypted(m))
	case *messages.Unencrypted:
		return fmt.Sprintf("unenc mid=%d body=%s", uint64(m.MsgID), showBytes(m.Msg))
	}
	return "err:unknown-type"
}
