package main

// C10 — acknowledgement bookkeeping across NESTED containers and across SUCCESSIVE containers (session 9).
//
// The library tolerates msg_container inside msg_container (four levels). Whatever bookkeeping the client keeps
// while it walks a container (a list of ids to acknowledge, a counter, a buffer kept between containers) is live
// at several levels at once when containers are nested, and it survives from one container to the next. The
// scenarios here enumerate — deterministically, not by chance — every small SHAPE of a nested container:
//
//   shape  := member*                       (the members of the outermost container)
//   member := C | N | [ shape ]             C: content-related (odd seq_no), N: not content-related, [..]: a container
//
// with content-related members before / inside / after the inner container(s), nesting 1..3 inside the outermost
// container (the limit is four levels), empty inner containers, and every shape preceded by 0, 1, 2 and more
// earlier containers (flat and nested, with and without content-related members) and by single messages.
// C and N are then spelled with the plan items of x_rpcsrv.go, cycling through the kinds (update, unknown object,
// rpc_result nobody waits for, rpc_result of a waiting caller | pong, msgs_ack, truncated body, empty member,
// empty container), so that acknowledgements / service messages sit between the content-related ones.
// The oracle is the shared one (x_rpcjudge.go): every odd-seq message the server sent, at any depth, must be named
// by a msgs_ack the client WROTE (ids read from the bytes of the frames that reached the peer).

import (
	"fmt"
	"strings"
)

// c10Tree: a member of a container — a leaf (kind 'C' or 'N') or a container of members
type c10Tree struct {
	kind byte // 'C', 'N', '['
	sub  []c10Tree
}

func (t c10Tree) String() string {
	if t.kind != '[' {
		return string(t.kind)
	}
	var b strings.Builder
	b.WriteByte('[')
	for _, s := range t.sub {
		b.WriteString(s.String())
	}
	b.WriteByte(']')
	return b.String()
}

// c10Shapes: every member list with exactly `leaves` leaves and exactly `conts` inner containers in total, nested at
// most `depth` deep below this list (canonical enumeration order: C, N, then containers).
func c10Shapes(leaves, conts, depth int) [][]c10Tree {
	if leaves == 0 && conts == 0 {
		return [][]c10Tree{nil}
	}
	var out [][]c10Tree
	// first member a leaf
	if leaves > 0 {
		for _, k := range []byte{'C', 'N'} {
			for _, rest := range c10Shapes(leaves-1, conts, depth) {
				out = append(out, append([]c10Tree{{kind: k}}, rest...))
			}
		}
	}
	// first member a container holding l leaves and c further containers
	if conts > 0 && depth > 0 {
		for l := 0; l <= leaves; l++ {
			for c := 0; c <= conts-1; c++ {
				for _, in := range c10Shapes(l, c, depth-1) {
					for _, rest := range c10Shapes(leaves-l, conts-1-c, depth) {
						out = append(out, append([]c10Tree{{kind: '[', sub: in}}, rest...))
					}
				}
			}
		}
	}
	return out
}

// c10Spell writes a member list as a plan item "c(...)". next yields the spelling of the i-th C / N leaf.
type c10Speller struct {
	nc, nn int
	cs, ns []string
}

// list spells the container of level lvl (the outermost is level 1) with these members. A container of level 4 gets no
// empty container as a member: that would be a fifth level, which the client refuses (a hand-written scenario has it).
func (sp *c10Speller) list(ms []c10Tree) string { return sp.listAt(ms, 1) }

func (sp *c10Speller) listAt(ms []c10Tree, lvl int) string {
	if len(ms) == 0 {
		return "e" // the empty container
	}
	var parts []string
	for _, m := range ms {
		switch m.kind {
		case 'C':
			parts = append(parts, sp.cs[sp.nc%len(sp.cs)])
			sp.nc++
		case 'N':
			it := sp.ns[sp.nn%len(sp.ns)]
			if it == "e" && lvl >= rsMaxContainerDepth {
				it = "p"
			}
			parts = append(parts, it)
			sp.nn++
		default:
			parts = append(parts, sp.listAt(m.sub, lvl+1))
		}
	}
	return "c(" + strings.Join(parts, ",") + ")"
}

func c10HasContent(ms []c10Tree) bool {
	for _, m := range ms {
		if m.kind == 'C' || (m.kind == '[' && c10HasContent(m.sub)) {
			return true
		}
	}
	return false
}

func c10Show(ms []c10Tree) string { return c10Tree{kind: '[', sub: ms}.String() }

// the histories a shape is preceded by: nothing; single messages; one / two / three earlier containers, flat and
// nested, with and without content-related members, small and larger than the shape
var c10Histories = []struct{ name, plan string }{
	{"first", ""},
	{"after-single", "u"},
	{"after-1", "c(u)"},
	{"after-1-no-content", "c(p,k)"},
	{"after-2", "c(x,u);c(p,u,x,u,q777)"},
	{"after-single-and-2", "x;c(u);u;c(k,x)"},
	{"after-nested", "c(u,c(x,c(u),x),u,x,u)"},
	{"after-3", "c(u);c(c(x));c(u,x,u,x,u,x,u)"},
}

func c10NestGen(g *G) {
	// the smallest members of the class first (a violation is then reported on a short scenario)
	for _, pl := range []string{
		"c(u);c(u,c(x,u),u)",
		"c(u,c(x,u),u)",
		"c(x,u);c(u,c(x));c(c(u),x);c(u,c(x,c(u,c(x))))",
		"u;c(x);c(c(c(c(u))),x);c(u,c(c(c(x))))",
		"c(u,x,u);c(p,c(k,c(u,p,c(x,k),u),p),k);c(u,c(u,c(u,c(u),u),u),u)",
		// a fifth level (an empty container, a container with a member) inside the fourth: refused as a whole, one
		// warning each; its neighbours and the levels above are acknowledged as always
		"c(u);c(u,c(x,c(u,c(e,x,c(u),u))),x)",
	} {
		g.Emit("c10.run o "+pl, "nested-acks")
	}
	// mixed members: acknowledgements, pongs, empty and truncated members, empty inner containers between the
	// content-related ones; an rpc_result of a waiting caller inside the inner container
	for _, pl := range []string{
		"c(u,k);c(k,u,p,c(k,x,p),e,x,k)",
		"c(x);c(u,e,u);c(e,u);c(u,e);c(c(e),u,c(e,x))",
		"c(u,0,x);c(0,u,c(0,x,t,u),t,x)",
		"g0;w1;c(u,p);c(x,c(k,a0,u),p,u)",
		"g0;w1;c(u);c(u,c(p,c(x,a0)),k,x)",
		"c(n71,u);c(u,c(n72,x),n73)",
		"c(z(u));c(z(u),c(z(x),u),z(u))",
	} {
		g.Emit("c10.run o "+pl, "nested-acks-mixed")
	}
	// the same msg_id in two containers (a member delivered again: #<slot>(item) re-uses msg_id and seq_no), flat
	// and nested, as the first and as a later member; and twice inside one message
	for _, pl := range []string{
		"c(#1(u),p);c(x,#1(u))",
		"c(#1(u),x);c(#1(u),c(x,#1(u)),u)",
		"c(u,#1(x));c(u,c(#1(x),u),#2(u));c(#2(u),c(#1(x)))",
		"c(#1(u),c(#1(u)),#1(u))",
		"c(x);c(#1(u),c(#2(x),c(#1(u),#2(x))),u)",
	} {
		g.Emit("c10.run o "+pl, "same-id-in-two-containers")
	}

	// every shape within these bounds: per number of inner containers, the number of members that are not containers
	// up to which C and N members are enumerated in all combinations, and up to which shapes of C members only are
	// added (quick: 7 / 6 / 5 members per message at most; the thorough tier goes further)
	type bound struct{ conts, mixed, contentOnly int }
	bounds := []bound{{1, 4, 6}, {2, 2, 4}, {3, 1, 2}}
	if g.Thorough() {
		bounds = []bound{{1, 5, 7}, {2, 3, 5}, {3, 2, 3}}
	}
	type shape struct {
		ms     []c10Tree
		leaves int
		conts  int
	}
	var shapes []shape
	for _, bd := range bounds {
		for leaves := 0; leaves <= bd.contentOnly; leaves++ {
			for _, ms := range c10Shapes(leaves, bd.conts, 3) {
				if !c10HasContent(ms) {
					continue // nothing to acknowledge anywhere
				}
				if leaves > bd.mixed && strings.Contains(c10Show(ms), "N") {
					continue
				}
				shapes = append(shapes, shape{ms, leaves, bd.conts})
			}
		}
	}
	cs := []string{"u", "x", "q777", "u", "x"}
	ns := []string{"p", "k", "t", "0", "e"}
	for j, sh := range shapes {
		// each shape: as the very first container of the connection; again after itself and a flat container larger
		// than it (whatever was kept from the earlier containers is at least as large as what the shape needs);
		// and once more after a single message
		sp := &c10Speller{cs: cs, ns: ns, nc: j, nn: j / 2}
		first := sp.list(sh.ms)
		second := sp.list(sh.ms)
		third := sp.list(sh.ms)
		plan := []string{first, "c(u,x,u,x,u,x,u)", second, "x", third}
		g.Emit("c10.run o "+strings.Join(plan, ";"), "nested-shape", "shape="+c10Show(sh.ms))
		if sh.conts == 1 && sh.leaves <= g.N(2, 3) {
			// and straight after each of the histories (nothing else before it)
			for _, h2 := range c10Histories[1:] {
				sp := &c10Speller{cs: cs, ns: ns, nc: j + 1, nn: j}
				g.Emit("c10.run o "+h2.plan+";"+sp.list(sh.ms), "nested-shape-"+h2.name)
			}
		}
	}
	// shapes whose content-related members include the result of a waiting caller (the caller must get its value
	// and the result must be acknowledged), at every position of a two-level nesting
	k := 0
	for _, ms := range c10Shapes(3, 1, 1) {
		if !c10HasContent(ms) {
			continue
		}
		// the k-th content-related leaf becomes a0
		sp := &c10Speller{cs: []string{"u", "x", "u"}, ns: ns}
		ncont := strings.Count(c10Show(ms), "C")
		sp.cs = make([]string, ncont)
		for i := range sp.cs {
			sp.cs[i] = []string{"u", "x"}[i%2]
		}
		sp.cs[k%ncont] = "a0"
		k++
		g.Emit(fmt.Sprintf("c10.run %s g0;w1;c(u,x);%s", []string{"o", "b", "vl", "e"}[k%4], sp.list(ms)), "nested-shape-rpc-result")
	}
}
