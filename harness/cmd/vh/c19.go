package main

// C19 — secrets used for key agreement come from the OS cryptographic random source.
//
// The decision is static (the regenerated call graph and the Lean theorems over it). This file is
// the dynamic cross-check on the real functions, and the source of replays:
//
//	c19.secret <fn> <k>   seed the global math/rand with k, draw; seed again with k, draw: the values must
//	                      differ. 16 draws must be pairwise different. The value must not be the output
//	                      of a math/rand generator seeded with the wall clock at the time of the call
//	                      (seed recovered by search).
//	c19.hs <k>            two real key exchanges (CreateConnection against a silent loopback peer) after
//	                      identical seeding: the nonce of req_pq on the wire must differ.
//	c19.reseed <fn> <k>   create a client (NewMTProto), then draw: the value must not be a function of
//	                      the wall clock at the time the client was created.
//	c19.xproc <fn>        draw once in each of two fresh processes: the values must differ.
//	c19.reader            crypto/rand.Reader must still be the standard library's own reader.
//	c19.peer <fn> <peer values> <k>   (c19peer.go) the secret drawn WITH values the peer chose (secure_random of
//	                      account.password in every length / content class; unusual DH groups): bytes read, width,
//	                      repetition, and which of the bytes read enter the secret.
//	c19.retry <script> <k>   (c19retry.go) a scripted key-exchange server answers set_client_DH_params with
//	                      dh_gen_retry / dh_gen_fail / dh_gen_ok: every g_b sent comes from a fresh full-width draw.
//	c19.fault <where> <k> <mode> <seed>   (c19fault.go) the OS source fails / is at its end / delivers half / trickles
//	                      from its k-th Read on, during a complete key exchange and under each generator: whatever
//	                      secret is still emitted is backed by, and a function of, the bytes the source delivered.
//	c19.hist <fn> <prelude> <n>   (c19hist.go) unusual calls first, then ordinary draws: bytes read from the OS
//	                      source per draw, range and repetition of the values.
//
// fn: nonce128 = tl.RandomInt128, nonce256 = tl.RandomInt256, dh_b = math.MakeGAB (its b),
// srp_a = telegram.GetInputCheckPassword (its A = g^a mod p).

import (
	"bytes"
	crand "crypto/rand"
	"crypto/rsa"
	"encoding/hex"
	"fmt"
	"io"
	"math/big"
	mrand "math/rand"
	"net"
	"os"
	"os/exec"
	"path/filepath"
	"reflect"
	"strconv"
	"strings"
	"time"

	"github.com/xelaj/mtproto"
	"github.com/xelaj/mtproto/internal/encoding/tl"
	mtmath "github.com/xelaj/mtproto/internal/math"
	"github.com/xelaj/mtproto/internal/session"
	"github.com/xelaj/mtproto/telegram"
)

var c19Fns = []string{"nonce128", "nonce256", "dh_b", "srp_a"}

// the 2048-bit prime Telegram uses for SRP / DH (public constant)
const c19PrimeHex = "C71CAEB9C6B1C9048E6C522F70F13F73980D40238E3E21C14934D037563D930F" +
	"48198A0AA7C14058229493D22530F4DBFA336F6E0AC925139543AED44CCE7C37" +
	"20FD51F69458705AC68CD4FE6B6B13ABDC9746512969328454F18FAF8C595F64" +
	"2477FE96BB2A941D5BCD1D4AC8CC49880708FA9B378E3C4F3A9060BEE67CF9A4" +
	"A4A695811051907E162753B56B0F6B410DBA74D8A84B2A14B3144E0EF1284754" +
	"FD17ED950D5965B4B9DD46582DB1178D169C6BC465B0D6FF9CA3928FEF5B9AE4" +
	"E418FC15E83EBEA0F87FA9FF5EED70050DED2849F47BF959D956850CE929851F" +
	"0D8115F635B105EE2E4E15D04B2454BF6F4FADF034B10403119CD8E3B92FCC5B"

var (
	c19P      []byte
	c19SrpB   []byte
	c19Salt1  = []byte("c19-salt-one")
	c19Salt2  = []byte("c19-salt-two")
	c19Detail = map[string]string{} // op -> what exactly was observed (for the oracle's message)
	c19Window int64                 // nanoseconds of wall clock searched for a clock seed
	c19Key    *rsa.PublicKey
)

// memStore: a session storage without a stored session (so that NewMTProto starts unencrypted).
type c19MemStore struct{}

func (c19MemStore) Load() (*session.Session, error) { return nil, nil }
func (c19MemStore) Store(*session.Session) error    { return nil }

func c19Init() {
	if c19P != nil {
		return
	}
	c19P, _ = hex.DecodeString(c19PrimeHex)
	// B: any value in (0, p) of 256 bytes
	b := new(big.Int).Sub(new(big.Int).SetBytes(c19P), big.NewInt(12345))
	c19SrpB = b.Bytes()
}

func pad(b []byte, n int) []byte {
	if len(b) >= n {
		return b
	}
	return append(make([]byte, n-len(b)), b...)
}

// c19Draw calls the real generator once and returns the secret it produced (for srp_a: A = g^a mod p,
// the only thing the function reveals).
func c19Draw(fn string) []byte {
	switch fn {
	case "nonce128":
		return pad(tl.RandomInt128().Bytes(), 16)
	case "nonce256":
		return pad(tl.RandomInt256().Bytes(), 32)
	case "dh_b":
		// a small modulus keeps the two exponentiations cheap; b does not depend on it
		b, _, _ := mtmath.MakeGAB(3, big.NewInt(5), big.NewInt(0xfffffffb))
		return pad(b.Bytes(), 256)
	case "srp_a":
		res, err := telegram.GetInputCheckPassword("correct horse", &telegram.AccountPassword{
			CurrentAlgo: &telegram.PasswordKdfAlgoSHA256SHA256PBKDF2HMACSHA512iter100000SHA256ModPow{
				Salt1: c19Salt1, Salt2: c19Salt2, G: 3, P: c19P,
			},
			SRPB:  c19SrpB,
			SRPID: 1,
		})
		if err != nil {
			panic("GetInputCheckPassword: " + err.Error())
		}
		o, ok := res.(*telegram.InputCheckPasswordSRPObj)
		if !ok {
			panic("GetInputCheckPassword: unexpected result type")
		}
		return pad(o.A, 256)
	}
	panic("unknown fn " + fn)
}

// c19Predict: what fn would return if it took its bytes from r.
func c19Predict(fn string, r *mrand.Rand) []byte {
	switch fn {
	case "nonce128":
		b := make([]byte, 16)
		_, _ = r.Read(b)
		return pad(new(big.Int).SetBytes(b).Bytes(), 16)
	case "nonce256":
		b := make([]byte, 32)
		_, _ = r.Read(b)
		return pad(new(big.Int).SetBytes(b).Bytes(), 32)
	case "dh_b":
		max := new(big.Int).SetBit(new(big.Int), 2048, 1)
		return pad(new(big.Int).Rand(r, max).Bytes(), 256)
	}
	return nil
}

func c19SrpA(a []byte) []byte {
	p := new(big.Int).SetBytes(c19P)
	return pad(new(big.Int).Exp(big.NewInt(3), new(big.Int).SetBytes(a), p).Bytes(), 256)
}

// c19ClockSeeded searches the wall-clock window [t0, t1] for a seed s such that a math/rand generator
// seeded with s reproduces x (skip = number of Int63 values consumed before the draw).
func c19ClockSeeded(fn string, x []byte, t0, t1 int64, skip int) (int64, bool) {
	if fn == "srp_a" {
		return 0, false
	}
	if t1 > t0+c19Window {
		t1 = t0 + c19Window
	}
	for s := t0; s <= t1; s++ {
		r := mrand.New(mrand.NewSource(s))
		for i := 0; i < skip; i++ {
			r.Int63()
		}
		if bytes.Equal(c19Predict(fn, r), x) {
			return s, true
		}
	}
	return 0, false
}

func c19Secret(op string, fn string, k int64) string {
	mrand.Seed(k)
	x1 := c19Draw(fn)
	mrand.Seed(k)
	x2 := c19Draw(fn)
	if bytes.Equal(x1, x2) {
		c19Detail[op] = fmt.Sprintf("two calls after math/rand.Seed(%d) returned the same value %s…", k, hex.EncodeToString(x1[:8]))
		return "predictable"
	}
	// a secret of 128 bits and more never repeats: any collision among a handful of draws means that
	// the value has (almost) no entropy, whatever its source
	if fn != "srp_a" {
		seen := map[string]bool{string(x1): true, string(x2): true}
		for i := 0; i < 14; i++ {
			v := c19Draw(fn)
			if seen[string(v)] {
				c19Detail[op] = fmt.Sprintf("the value %s… occurred twice among 16 draws", hex.EncodeToString(v[:8]))
				return "predictable"
			}
			seen[string(v)] = true
		}
	}
	t0 := time.Now().UnixNano()
	x := c19Draw(fn)
	t1 := time.Now().UnixNano()
	if s, ok := c19ClockSeeded(fn, x, t0, t1, 0); ok {
		c19Detail[op] = fmt.Sprintf("the value %s… is the output of math/rand seeded with the wall clock of the call (seed %d, %d ns after the call started)",
			hex.EncodeToString(x[:8]), s, s-t0)
		return "predictable"
	}
	return "fresh"
}

func c19NewClient(addr string) *mtproto.MTProto {
	m, err := mtproto.NewMTProto(mtproto.Config{SessionStorage: c19MemStore{}, ServerHost: addr, PublicKey: c19Key})
	if err != nil {
		panic("NewMTProto: " + err.Error())
	}
	return m
}

func c19Reseed(op string, fn string, k int64) string {
	mrand.Seed(k)
	t0 := time.Now().UnixNano()
	_ = c19NewClient("127.0.0.1:1")
	t1 := time.Now().UnixNano()
	x := c19Draw(fn)
	y := mrand.Int63()
	if t1 > t0+c19Window {
		t1 = t0 + c19Window
	}
	for s := t0; s <= t1; s++ {
		// (1) the global generator reseeded by the constructor: session id first, then the draw
		r := mrand.New(mrand.NewSource(s))
		r.Int63()
		hit := ""
		if fn == "srp_a" {
			a := make([]byte, 256)
			_, _ = r.Read(a)
			if r.Int63() == y && bytes.Equal(c19SrpA(a), x) {
				hit = "the global math/rand reseeded"
			}
		} else if bytes.Equal(c19Predict(fn, r), x) {
			hit = "the global math/rand reseeded"
		}
		// (2) a private generator created by the constructor and seeded with the clock
		if hit == "" && fn != "srp_a" && bytes.Equal(c19Predict(fn, mrand.New(mrand.NewSource(s))), x) {
			hit = "a math/rand generator seeded"
		}
		if hit != "" {
			c19Detail[op] = fmt.Sprintf("after NewMTProto the value %s… is the output of %s with the wall clock of the client's creation (seed %d, %d ns after NewMTProto was called)",
				hex.EncodeToString(x[:8]), hit, s, s-t0)
			return "reseeded"
		}
	}
	return "independent"
}

// c19WireNonce runs the real client against a silent peer and returns the nonce of its req_pq.
func c19WireNonce(k int64) ([]byte, error) {
	ln, err := net.Listen("tcp", "127.0.0.1:0")
	if err != nil {
		return nil, err
	}
	m := c19NewClient(ln.Addr().String())
	mrand.Seed(k)
	go func() {
		defer func() { _ = recover() }()
		_ = m.CreateConnection() // never returns: the peer does not answer
	}()
	_ = ln.(*net.TCPListener).SetDeadline(time.Now().Add(5 * time.Second))
	conn, err := ln.Accept()
	if err != nil {
		return nil, err
	}
	// neither the connection nor the listener is closed: an EOF would make the client reconnect
	c19Leak = append(c19Leak, conn, ln)
	_ = conn.SetReadDeadline(time.Now().Add(5 * time.Second))
	hdr := make([]byte, 8)
	if _, err := io.ReadFull(conn, hdr); err != nil {
		return nil, err
	}
	if !bytes.Equal(hdr[:4], []byte{0xee, 0xee, 0xee, 0xee}) {
		return nil, fmt.Errorf("unexpected transport announcement %x", hdr[:4])
	}
	n := int(uint32(hdr[4]) | uint32(hdr[5])<<8 | uint32(hdr[6])<<16 | uint32(hdr[7])<<24)
	if n < 40 || n > 1<<16 {
		return nil, fmt.Errorf("unexpected frame length %d", n)
	}
	body := make([]byte, n)
	if _, err := io.ReadFull(conn, body); err != nil {
		return nil, err
	}
	// auth_key_id(8)=0 | msg_id(8) | len(4) | constructor(4) | nonce(16)
	if !bytes.Equal(body[:8], make([]byte, 8)) {
		return nil, fmt.Errorf("first message is not unencrypted")
	}
	return append([]byte{}, body[24:40]...), nil
}

var c19Leak []interface{}

func c19Handshake(op string, k int64) string {
	n1, err := c19WireNonce(k)
	if err != nil {
		return "error:" + strings.ReplaceAll(err.Error(), " ", "_")
	}
	n2, err := c19WireNonce(k)
	if err != nil {
		return "error:" + strings.ReplaceAll(err.Error(), " ", "_")
	}
	if bytes.Equal(n1, n2) {
		c19Detail[op] = fmt.Sprintf("two key exchanges started after math/rand.Seed(%d) sent the same req_pq nonce %x", k, n1)
		return "predictable"
	}
	return "fresh"
}

func c19Child(fn string) ([]byte, error) {
	exe, err := os.Executable()
	if err != nil {
		return nil, err
	}
	d, err := os.MkdirTemp(".", "c19x-")
	if err != nil {
		return nil, err
	}
	defer os.RemoveAll(d)
	opsf := filepath.Join(d, "ops")
	if err := os.WriteFile(opsf, []byte("c19.child "+fn+"\n"), 0o644); err != nil {
		return nil, err
	}
	if out, err := exec.Command(exe, "c19child", "-dir", d, "-ops", opsf).CombinedOutput(); err != nil {
		return nil, fmt.Errorf("child: %v %s", err, out)
	}
	b, err := os.ReadFile(filepath.Join(d, "go.out"))
	if err != nil {
		return nil, err
	}
	return hex.DecodeString(strings.TrimSpace(string(b)))
}

func c19XProc(op string, fn string) string {
	a, err := c19Child(fn)
	if err != nil {
		return "error:" + strings.ReplaceAll(err.Error(), " ", "_")
	}
	b, err := c19Child(fn)
	if err != nil {
		return "error:" + strings.ReplaceAll(err.Error(), " ", "_")
	}
	// each child prints its first draws back to back; a value of one process showing up in the other
	// means a fixed seed (same sequence) or a value without entropy
	n := c19Width(fn)
	for i := 0; i+n <= len(a); i += n {
		for j := 0; j+n <= len(b); j += n {
			if bytes.Equal(a[i:i+n], b[j:j+n]) {
				c19Detail[op] = fmt.Sprintf("two fresh processes drew the same value %s… (draw %d of the first, draw %d of the second)",
					hex.EncodeToString(a[i:i+8]), i/n+1, j/n+1)
				return "predictable"
			}
		}
	}
	return "fresh"
}

func c19Width(fn string) int {
	switch fn {
	case "nonce128":
		return 16
	case "nonce256":
		return 32
	}
	return 256
}

func c19IsFn(s string) bool {
	for _, f := range c19Fns {
		if f == s {
			return true
		}
	}
	return false
}

func c19Exec(op []string) string {
	c19Init()
	if out, ok := c19HistExec(op); ok {
		return out
	}
	if out, ok := c19PeerExec(op); ok { // c19peer.go: the secret as a function of peer-supplied values
		return out
	}
	if out, ok := c19RetryExec(op); ok { // c19retry.go: dh_gen_retry / dh_gen_fail answers
		return out
	}
	if out, ok := c19FaultExec(op); ok { // c19fault.go: the OS source fails or runs short at its k-th Read
		return out
	}
	line := strings.Join(op, " ")
	num := func(s string) (int64, bool) {
		v, err := strconv.ParseUint(s, 10, 62)
		return int64(v), err == nil
	}
	switch {
	case len(op) == 3 && op[0] == "c19.secret" && c19IsFn(op[1]):
		if k, ok := num(op[2]); ok {
			return c19Secret(line, op[1], k)
		}
	case len(op) == 2 && op[0] == "c19.hs":
		if k, ok := num(op[1]); ok {
			return c19Handshake(line, k)
		}
	case len(op) == 3 && op[0] == "c19.reseed" && c19IsFn(op[1]):
		if k, ok := num(op[2]); ok {
			return c19Reseed(line, op[1], k)
		}
	case len(op) == 2 && op[0] == "c19.xproc" && c19IsFn(op[1]):
		return c19XProc(line, op[1])
	case len(op) == 1 && op[0] == "c19.reader":
		// what crypto/rand.Reader is in this process (which has run every init function of the repository)
		t := reflect.TypeOf(crand.Reader)
		for t.Kind() == reflect.Ptr {
			t = t.Elem()
		}
		if strings.HasPrefix(t.PkgPath(), "crypto/") {
			return "os"
		}
		c19Detail[line] = fmt.Sprintf("crypto/rand.Reader has dynamic type %T", crand.Reader)
		return "replaced"
	}
	return "bad-op"
}

// c19Judge: the property oracle on what the real code did — no reference to the call graph or the
// Lean model. A secret that repeats after identical seeding, that is reproduced from the wall clock,
// or that repeats across processes does not come from the OS random source.
func c19Judge(op []string, out string) string {
	line := strings.Join(op, " ")
	if len(op) > 0 && op[0] == "c19.hist" {
		if why := c19HistJudge(op, out); why != "" {
			return why
		}
	}
	if len(op) > 0 && op[0] == "c19.peer" {
		if why := c19PeerJudge(op, out); why != "" {
			return why
		}
	}
	if len(op) > 0 && op[0] == "c19.retry" {
		if why := c19RetryJudge(op, out); why != "" {
			return why
		}
	}
	if len(op) > 0 && op[0] == "c19.fault" {
		if why := c19FaultJudge(op, out); why != "" {
			return why
		}
	}
	switch {
	case out == "predictable":
		return "key-agreement secret is reproducible: " + c19Detail[line]
	case out == "replaced":
		return "the OS random source has been replaced: " + c19Detail[line]
	case out == "reseeded":
		return "creating a client reseeds the generator a key-agreement secret is drawn from: " + c19Detail[line]
	case strings.HasPrefix(out, "error:"), strings.HasPrefix(out, "panic:"):
		return "the experiment could not be carried out on the real code: " + out
	}
	return ""
}

func c19Gen(g *G) {
	g.Emit("c19.reader", "reader")
	// histories first: an operation of this kind that fails then fails on its own, in a fresh process too
	c19HistGen(g)
	c19RetryGen(g)
	c19FaultGen(g)
	c19PeerGen(g)
	seeds := []uint64{1}
	for i := 0; i < g.N(1, 40); i++ {
		seeds = append(seeds, g.R.U64()>>3)
	}
	for i, k := range seeds {
		for _, fn := range c19Fns {
			if fn == "srp_a" && i%8 != 0 && i != len(seeds)-1 {
				continue // each SRP call costs a PBKDF2 with 100000 rounds
			}
			g.Emit(fmt.Sprintf("c19.secret %s %d", fn, k), "secret:"+fn)
		}
	}
	for _, k := range seeds[:g.N(2, 12)] {
		g.Emit(fmt.Sprintf("c19.hs %d", k), "handshake")
	}
	for _, k := range seeds[:g.N(1, 8)] {
		for _, fn := range []string{"nonce128", "nonce256", "srp_a"} {
			g.Emit(fmt.Sprintf("c19.reseed %s %d", fn, k), "reseed:"+fn)
		}
	}
	for _, fn := range c19Fns {
		g.Emit("c19.xproc "+fn, "xproc:"+fn)
	}
	// what all the operations above (draws with a small modulus, key exchanges, client creation) left behind
	g.Emit("c19.hist dh_b - 4", "hist:after-everything-else")
	g.Emit("c19.hist nonce128 - 4", "hist:after-everything-else")
	g.Emit("c19.reader", "reader")
}

func c19Setup(g *G) {
	c19Init()
	c19Window = 20000
	if g.Thorough() {
		c19Window = 200000
	}
	// self-test of the predictor: the global generator after Seed(s) and rand.New(rand.NewSource(s))
	// produce the same stream (otherwise the clock search could not find anything)
	mrand.Seed(424242)
	a := mrand.Int63()
	buf := make([]byte, 16)
	_, _ = mrand.Read(buf)
	r := mrand.New(mrand.NewSource(424242))
	b := r.Int63()
	buf2 := make([]byte, 16)
	_, _ = r.Read(buf2)
	g.Extra["predictor_selftest"] = a == b && bytes.Equal(buf, buf2)
	g.Extra["clock_window_ns"] = c19Window
}

func init() {
	register(&Prop{Name: "c19", Gen: c19Gen, Exec: c19Exec, Judge: c19Judge, Setup: c19Setup})
	// helper for c19.xproc: one draw in a fresh process, printed as hex
	register(&Prop{Name: "c19child", Gen: func(g *G) {}, Exec: func(op []string) string {
		c19Init()
		if len(op) == 2 && op[0] == "c19.child" && c19IsFn(op[1]) {
			n := 4
			if op[1] == "srp_a" {
				n = 1
			}
			var all []byte
			for i := 0; i < n; i++ {
				all = append(all, c19Draw(op[1])...)
			}
			return hex.EncodeToString(all)
		}
		return "bad-op"
	}})
}
