package main

// C14 — schema parser and code generator (internal/cmd/tlgen).
//
// Operations
//   c14.parse <tag> <text> <expected structure…|->   real tlparser.ParseSchema on the text; compared with the
//                                                    Lean model; judged against the structure the harness's
//                                                    own schema generator (or its independent line reader, for
//                                                    the files under schemes/) knows the text to declare
//   c14.classify <text>                              gen.NewGenerator's internal schema (read by reflection):
//                                                    which type is an enum / single struct / interface
//   c14.gen <tag> <text> <expected declarations…>    the real tlgen binary built from the working tree: run
//                                                    twice, byte identity, go build + go vet of the output with
//                                                    a stub Client, declarations read back with go/ast
//   c14.regen <tag> <text>                           in this process: ParseSchema ONCE, then gen.NewGenerator +
//                                                    Generate from that same schema object by three generators
//                                                    (one of them twice) into fresh directories, then from a
//                                                    fresh parse: all outputs byte-identical to the first, the
//                                                    parsed schema object unchanged (deep dump up to capacity;
//                                                    schema=reordered: every definition intact, only the order
//                                                    of the caller's Objects / Methods differs)
//   c14.shipped <relative schema path>               the same on the schema the repository feeds the generator
//   c14.sortfact                                     go/ast facts: every range over a map in gen/ is one of the
//                                                    known sites and every known sort before emission is there
//
// Text coding: a rune in 0x21..0x7d other than '(' ')' stands for itself, any other rune is
// ~<hex code point>~; the empty string is ~~.

import (
	"errors"
	"fmt"
	"os"
	"path/filepath"
	"sort"
	"strconv"
	"strings"
	"time"

	"github.com/xelaj/mtproto/internal/cmd/tlgen/tlparser"
)

// ---- text coding ---------------------------------------------------------------------------------

func c14Esc(s string) string {
	if s == "" {
		return "~~"
	}
	var b strings.Builder
	for _, r := range s {
		if r >= 0x21 && r <= 0x7d && r != '(' && r != ')' {
			b.WriteRune(r)
		} else {
			fmt.Fprintf(&b, "~%x~", r)
		}
	}
	return b.String()
}

func c14Unesc(t string) string {
	var b strings.Builder
	rs := []rune(t)
	for i := 0; i < len(rs); i++ {
		if rs[i] != '~' {
			b.WriteRune(rs[i])
			continue
		}
		j := i + 1
		for j < len(rs) && rs[j] != '~' {
			j++
		}
		if j >= len(rs) {
			panic("bad text token")
		}
		if j > i+1 {
			n, err := strconv.ParseUint(string(rs[i+1:j]), 16, 32)
			if err != nil {
				panic("bad text token")
			}
			b.WriteRune(rune(n))
		}
		i = j
	}
	return b.String()
}

func c14Show(d string) string {
	if len(d) <= 3000 {
		if d == "" {
			return "-"
		}
		return d
	}
	return fmt.Sprintf("L%d:%d", len(d), fnv32([]byte(d)))
}

func b01(b bool) string {
	if b {
		return "1"
	}
	return "0"
}

// ---- canonical dumps of a tlparser.Schema ----------------------------------------------------------

func c14DumpParams(ps []tlparser.Parameter) string {
	var b strings.Builder
	for _, p := range ps {
		fmt.Fprintf(&b, " (p %s %s %s %s %d)", c14Esc(p.Name), c14Esc(p.Type), b01(p.IsVector), b01(p.IsOptional), p.BitToTrigger)
	}
	return b.String()
}

func c14DumpStructure(s *tlparser.Schema) string {
	var parts []string
	for _, o := range s.Objects {
		parts = append(parts, fmt.Sprintf("(o %s %d %s%s)", c14Esc(o.Name), o.CRC, c14Esc(o.Interface), c14DumpParams(o.Parameters)))
	}
	for _, m := range s.Methods {
		parts = append(parts, fmt.Sprintf("(m %s %d %s %s%s)", c14Esc(m.Name), m.CRC, c14Esc(m.Response.Type), b01(m.Response.IsList), c14DumpParams(m.Parameters)))
	}
	return strings.Join(parts, " ")
}

func c14DumpComments(s *tlparser.Schema) string {
	pc := func(ps []tlparser.Parameter) string {
		var b strings.Builder
		for _, p := range ps {
			b.WriteString(" " + c14Esc(p.Comment))
		}
		return b.String()
	}
	var parts []string
	for _, o := range s.Objects {
		parts = append(parts, fmt.Sprintf("(c %s%s)", c14Esc(o.Comment), pc(o.Parameters)))
	}
	for _, m := range s.Methods {
		parts = append(parts, fmt.Sprintf("(c %s%s)", c14Esc(m.Comment), pc(m.Parameters)))
	}
	var keys []string
	for k := range s.TypeComments {
		keys = append(keys, k)
	}
	sort.Strings(keys)
	for _, k := range keys {
		parts = append(parts, fmt.Sprintf("(t %s %s)", c14Esc(k), c14Esc(s.TypeComments[k])))
	}
	return strings.Join(parts, " ")
}

// ---- the real parser, with a watchdog ---------------------------------------------------------------

type c14ParseRes struct {
	s     *tlparser.Schema
	err   error
	panic string
}

// c14RunParser calls the real ParseSchema. A run that does not end within the watchdog time is
// reported as "loop" (the goroutine is abandoned).
func c14RunParser(text string) (res c14ParseRes, timedOut bool) {
	ch := make(chan c14ParseRes, 1)
	go func() {
		defer func() {
			if r := recover(); r != nil {
				ch <- c14ParseRes{panic: panicSiteOf()}
			}
		}()
		s, err := tlparser.ParseSchema(text)
		ch <- c14ParseRes{s: s, err: err}
	}()
	select {
	case r := <-ch:
		return r, false
	case <-time.After(3 * time.Second):
		return c14ParseRes{}, true
	}
}

// panicSiteOf is panicSite() for a recover in a goroutine of the harness itself.
func panicSiteOf() string { return panicSite() }

func c14ErrClass(err error) string {
	var ne *strconv.NumError
	s := err.Error()
	switch {
	case strings.HasPrefix(s, "read comment: "):
		return "commentEOF"
	case strings.HasPrefix(s, "parse param: "):
		return "param"
	case errors.As(err, &ne):
		return "crc"
	case s == "type can't be a vector":
		return "vectorType"
	}
	return "other(" + strings.ReplaceAll(clip(s), " ", "_") + ")"
}

func c14ShowParse(text string) string {
	r, timedOut := c14RunParser(text)
	switch {
	case timedOut:
		return "loop"
	case r.panic != "":
		return "panic:" + r.panic
	case r.err != nil:
		return "err:" + c14ErrClass(r.err)
	}
	return fmt.Sprintf("ok S=%s C=%s", c14Show(c14DumpStructure(r.s)), c14Show(c14DumpComments(r.s)))
}

// ---- Exec / Judge -------------------------------------------------------------------------------------

func c14Exec(op []string) string {
	switch op[0] {
	case "c14.parse":
		if len(op) < 4 {
			return "bad-op"
		}
		return c14ShowParse(c14Unesc(op[2]))
	case "c14.classify":
		if len(op) != 2 {
			return "bad-op"
		}
		return c14Classify(c14Unesc(op[1]))
	case "c14.gen":
		if len(op) < 4 {
			return "bad-op"
		}
		return c14GenOp(op[1], c14Unesc(op[2]))
	case "c14.regen":
		if len(op) != 3 {
			return "bad-op"
		}
		return c14Regen(c14Unesc(op[2]))
	case "c14.shipped":
		if len(op) != 2 {
			return "bad-op"
		}
		return c14Shipped(op[1])
	case "c14.sortfact":
		return c14SortFact()
	}
	return "bad-op"
}

// c14Judge: the property stated on the real code's observable result; independent of the Lean model.
func c14Judge(op []string, out string) string {
	if strings.HasPrefix(out, "panic:") {
		return "the parser / generator panics: " + out
	}
	if out == "loop" {
		return "ParseSchema does not terminate on this text"
	}
	switch op[0] {
	case "c14.parse":
		exp := strings.Join(op[3:], " ")
		if exp == "-" {
			return "" // text outside the documented subset: only termination and no-panic apply
		}
		want := "ok S=" + c14Show(c14UnescExpected(exp)) + " C="
		if !strings.HasPrefix(out, want) {
			return "the parser did not extract the declared definitions (" + op[1] + "): got " + clip(out) + " want " + clip(want)
		}
	case "c14.classify":
		// independent reading of the text (one definition per line) and the documented rule
		if sc, ok := c14ReadLines(c14Unesc(op[1])); ok {
			if want := c14ExpectClassify(sc); out != want {
				return "classification differs from the rule (no parameter in any constructor → enum; one constructor → struct; else interface): got " + clip(out) + " want " + clip(want)
			}
		}
	case "c14.gen":
		exp := strings.Join(op[3:], " ")
		want := "gen=ok same=1 build=ok vet=ok D=" + c14Show(c14UnescExpected(exp))
		if out != want {
			return "generated package (" + op[1] + "): " + c14GenWhy(out, want)
		}
	case "c14.regen":
		// what the property fixes is the output: every generation from the same parsed schema object gives the same
		// bytes as the first and as one from a fresh parse. The generator as it stands sorts the caller's Methods
		// slice by name in place (createInternalSchema takes the slice over): "schema=reordered" — every definition
		// intact, only their order in the caller's object differs — is not something the property speaks about
		// and is accepted; a definition that changed is not
		if out != c14RegenOK && out != strings.Replace(c14RegenOK, "schema=unchanged", "schema=reordered", 1) {
			return "generating again from the same parsed schema object (three generators, one of them twice, then a fresh parse) does not give byte-identical files / leaves the caller's schema changed: " + out
		}
	case "c14.shipped":
		if out != "parse=ok gen=ok same=1 build=ok vet=ok" {
			return "the schema shipped as the generator's input is not accepted / its output does not compile: " + out
		}
	case "c14.sortfact":
		if out != "maprange unknown=- missing-sort=-" {
			return "map iteration in gen/ without the known sort before emission: " + out
		}
	}
	return ""
}

// the expected dumps travel inside the op as further tokens; "-" stands for the empty dump
func c14UnescExpected(e string) string {
	if e == "-" || e == "=" {
		return ""
	}
	return e
}

func c14GenWhy(out, want string) string {
	of, wf := strings.Fields(out), strings.Fields(want)
	for i := 0; i < len(of) && i < 4; i++ {
		if i >= len(wf) || of[i] != wf[i] {
			return "got " + clip(out)
		}
	}
	return "declarations differ from the schema: got " + clip(out) + " want " + clip(want)
}

func init() {
	register(&Prop{Name: "c14", Gen: c14Gen, Exec: c14Exec, Judge: c14Judge, Setup: c14Setup, Teardown: c14Teardown})
}

// ---- generation -------------------------------------------------------------------------------------------

func c14ParseOp(tag, text, expected string) string {
	if expected == "" {
		expected = "="
	}
	return fmt.Sprintf("c14.parse %s %s %s", tag, c14Esc(text), expected)
}

func c14Mutate(r *Rand, text string) string {
	rs := []rune(text)
	alphabet := []rune(" \n\t#:;<>=?./-@€٣0123456789abcdefVectorflags!%{}[]*")
	n := 1 + r.Intn(3)
	for k := 0; k < n && len(rs) > 0; k++ {
		i := r.Intn(len(rs))
		switch r.Intn(5) {
		case 0: // delete
			rs = append(rs[:i], rs[i+1:]...)
		case 1: // insert
			rs = append(rs[:i], append([]rune{alphabet[r.Intn(len(alphabet))]}, rs[i:]...)...)
		case 2: // replace
			rs[i] = alphabet[r.Intn(len(alphabet))]
		case 3: // truncate
			rs = rs[:i]
		case 4: // duplicate a slice
			j := i + r.Intn(len(rs)-i)
			rs = append(rs[:j], append(append([]rune{}, rs[i:j]...), rs[j:]...)...)
		}
	}
	return string(rs)
}

func c14Gen(g *G) {
	r := g.R
	// (0) witnesses of the defects found (also in corpus/c14.ops)
	g.Emit(c14ParseOp("witness-loop", "true#;€€€ ", ""), "witness")
	g.Emit(c14ParseOp("witness-empty", "", ""), "witness")
	g.Emit(c14ParseOp("witness-plain-comment", "// plain comment\nfoo#1 = Foo;\n", "(o foo 1 Foo)"), "witness")
	g.Emit(c14ParseOp("witness-bare-comment", "// ===8===\nfoo#1 x:int = Foo;\n", "(o foo 1 Foo (p x int 0 0 0))"), "witness")
	g.Emit(c14ParseOp("witness-comment-then-dash", "//\n-", ""), "witness")
	g.Emit(c14ParseOp("witness-comment-then-dashes", "foo#1 = Foo;\n// x\n--", "(o foo 1 Foo)"), "witness")
	g.Emit(c14ParseOp("no-final-newline", "foo#1 = Foo;", "(o foo 1 Foo)"), "boundary")
	g.Emit(c14ParseOp("only-newline", "\n", ""), "boundary")
	g.Emit(c14ParseOp("only-marker", "---functions---", ""), "boundary")
	g.Emit(c14ParseOp("slash-at-end", "foo#1 = Foo;\n/", "-"), "boundary")
	g.Emit(c14ParseOp("comment-at-end", "foo#1 = Foo;\n// x", "-"), "boundary")
	g.Emit(c14ParseOp("dashes-at-end", "foo#1 = Foo;\n--", "-"), "boundary")
	g.Emit(c14ParseOp("vector-type", "foo#1 = Vector<Foo>;\n", "-"), "boundary")
	g.Emit(c14ParseOp("bad-id", "foo#xyz = Foo;\n", "-"), "boundary")
	g.Emit(c14ParseOp("wide-id", "foo#123456789 = Foo;\n", "-"), "boundary")
	g.Emit(c14ParseOp("bad-bit", "foo#1 flags:# x:flags.?int = Foo;\n", "-"), "boundary")
	g.Emit(c14ParseOp("huge-bit", "foo#1 flags:# x:flags.99999999999999999999?int = Foo;\n", "-"), "boundary")
	g.Emit(c14ParseOp("no-question", "foo#1 flags:# x:flags.1int = Foo;\n", "-"), "boundary")

	// witnesses of the generator defects: Bool result, argument named like a package / keyword / local, enum
	// constant named like its type, enum and vector results
	{
		enumT := []*c14Def{{Name: "foo", CRC: 1, Result: "Foo"}}
		boolFn := &c14Def{Name: "setFoo", CRC: 0x10, Func: true, Result: "Bool", Params: []c14Param{{Name: "errors", Type: "int"}, {Name: "type", Type: "Foo"}, {Name: "c", Type: "string", Vec: true}}}
		enumFn := &c14Def{Name: "getFoo", CRC: 0x11, Func: true, Result: "Foo"}
		vecFn := &c14Def{Name: "getFoos", CRC: 0x12, Func: true, Result: "Foo", ResVec: true, Params: []c14Param{{Name: "flags", Type: "bitflags"}, {Name: "range", Type: "long", Opt: true, Bit: 31}}}
		w := &c14Schema{}
		for _, d := range enumT {
			w.items = append(w.items, c14Item{kind: "def", def: d})
		}
		w.items = append(w.items, c14Item{kind: "functions"})
		for _, d := range []*c14Def{boolFn, enumFn, vecFn} {
			w.items = append(w.items, c14Item{kind: "def", def: d})
		}
		wt := c14Render(w, c14Layout{}, r)
		g.Emit(fmt.Sprintf("c14.gen witness-generator %s %s", c14Esc(wt), c14ExpectDecls(w)), "witness")
		g.Emit("c14.regen witness-generator "+c14Esc(wt), "witness", "regenerate")
	}

	// (1) every schema file of the repository
	var files []string
	for _, pat := range []string{"schemes/*.tl", "internal/cmd/tlgen/tlparser/testdata/*.tl", "internal/cmd/tlgen/gen/testdata/*/*.tl"} {
		m, _ := filepath.Glob(filepath.Join(c14Root, pat))
		files = append(files, m...)
	}
	sort.Strings(files)
	for _, f := range files {
		b, err := os.ReadFile(f)
		if err != nil {
			continue
		}
		rel, _ := filepath.Rel(c14Root, f)
		exp := "-"
		if s, ok := c14ReadLines(string(b)); ok {
			exp = c14ExpectStructure(s)
		}
		g.Emit(c14ParseOp("file:"+filepath.ToSlash(rel), string(b), exp), "file")
	}
	g.Emit("c14.shipped schemes/api_latest.tl", "shipped")
	if b, err := os.ReadFile(filepath.Join(c14Root, "schemes", "api_latest.tl")); err == nil {
		g.Emit("c14.regen shipped "+c14Esc(string(b)), "shipped", "regenerate")
	}
	g.Emit("c14.sortfact", "fact")

	// (2) generated schemas in varying layouts: parser correspondence + structure oracle
	layouts := func() c14Layout {
		return c14Layout{crlf: r.Intn(6) == 0, indent: r.Intn(4) == 0, wideSpaces: r.Intn(4) == 0, trailing: r.Intn(4) == 0,
			upperHex: r.Intn(8) == 0, padHex: r.Intn(4) == 0}
	}
	var pool []string
	for i, n := 0, g.N(400, 12000); i < n; i++ {
		o := c14GenOpts{size: 1 + r.Intn(8), tricky: r.Intn(4) == 0, clash: r.Intn(4) == 0}
		s, _ := c14RandSchema(r, o)
		text := c14Render(s, layouts(), r)
		if len(pool) < 400 {
			pool = append(pool, text)
		}
		g.Emit(c14ParseOp("gen", text, c14ExpectStructure(s)), "gen-schema")
	}
	// (3) malformed texts: mutations and every prefix of a few schemas (termination, no panic, model agreement)
	for i, n := 0, g.N(800, 30000); i < n; i++ {
		g.Emit(c14ParseOp("mut", c14Mutate(r, pool[r.Intn(len(pool))]), "-"), "mutated")
	}
	for i, n := 0, g.N(2, 40); i < n; i++ {
		s, _ := c14RandSchema(r, c14GenOpts{size: 2})
		rs := []rune(c14Render(s, c14Layout{}, r))
		if len(rs) > 700 {
			rs = rs[:700]
		}
		for k := 0; k <= len(rs); k++ {
			g.Emit(c14ParseOp("prefix", string(rs[:k]), "-"), "prefix")
		}
	}
	// texts that stop inside a keyword or a definition: the cursor's behaviour at the last rune
	tails := []string{"-", "--", "---", "---f", "---functions--", "---types---", "/", "//", "//\n-", "// x\n--", "\n-", "=", "flags.", "Vector",
		"Vector<", "fl", "foo#1 =", "foo#1 x:fl", "foo#1 x:flags.1", "foo#1 x:flags.1?", "foo#1 x:Vector<int", "foo#1 x:int =", "foo#1 = Vector<X>",
		"true#;€€€ ", "€", "int ", "int ?", "true#", "foo#1 = Vector", "foo#1 x:V", "//\n/", "//\n//\n---", "\n \n-", "// @param"}
	for i, n := 0, g.N(200, 4000); i < n; i++ {
		t := pool[r.Intn(len(pool))]
		if r.Intn(3) == 0 {
			t = ""
		}
		g.Emit(c14ParseOp("tail", t+tails[r.Intn(len(tails))], "-"), "tail")
	}
	// (4) classification
	for i, n := 0, g.N(150, 5000); i < n; i++ {
		s, _ := c14RandSchema(r, c14GenOpts{size: 1 + r.Intn(10), clash: r.Intn(3) == 0})
		g.Emit("c14.classify "+c14Esc(c14Render(s, c14Layout{}, r)), "classify")
	}
	// (5) the real generator: byte identity of two runs, compilation, declarations
	// … first on schemas in which every type has a constructor that is the type's own name in another
	// spelling (all lower case, snake case, another inner capitalisation, first letter lowered) — in enums,
	// single-constructor and multi-constructor types
	for i, n := 0, g.N(3, 14); i < n; i++ {
		o := c14GenOpts{forGen: true, size: 12, tricky: i%2 == 1, spell: true}
		if i == 0 { // a small one first: three multi-constructor types, one per spelling that is not the usual one
			o.size, o.spellIface = 3, true
		}
		s, _ := c14RandSchema(r, o)
		exp := c14ExpectDecls(s)
		if exp == "" {
			exp = "="
		}
		text := c14Render(s, c14Layout{}, r)
		g.Emit(fmt.Sprintf("c14.gen spell%d %s %s", i, c14Esc(text), exp), "generate", "generate-spellings")
		g.Emit(fmt.Sprintf("c14.regen spell%d %s", i, c14Esc(text)), "regenerate")
	}
	for i, n := 0, g.N(12, 100); i < n; i++ {
		o := c14GenOpts{forGen: true, size: 2 + r.Intn(9), tricky: i%2 == 0, clash: i%3 != 2}
		s, _ := c14RandSchema(r, o)
		text := c14Render(s, c14Layout{}, r)
		exp := c14ExpectDecls(s)
		if exp == "" {
			exp = "="
		}
		g.Emit(fmt.Sprintf("c14.gen g%d %s %s", i, c14Esc(text), exp), "generate")
		g.Emit(fmt.Sprintf("c14.regen g%d %s", i, c14Esc(text)), "regenerate")
	}
	// (7) degenerate but valid schemas: functions only (no constructor anywhere), constructors only, enums only, one
	// definition, section markers with nothing between them, a functions section that is empty, the sections the
	// other way round / several of each. Every shape goes through all four oracles: what the parser extracts, the
	// classification, the declarations of the package the real tlgen writes (compiled), repeated generation.
	for round, n := 0, g.N(1, 8); round < n; round++ {
		for _, sh := range c14Degenerate(r) {
			tag := fmt.Sprintf("%s.%d", sh.tag, round)
			plain := c14Render(sh.s, c14Layout{}, r)
			g.Emit(c14ParseOp(tag, plain, c14ExpectStructure(sh.s)), "degenerate", "degenerate-parse")
			g.Emit(c14ParseOp(tag, c14Render(sh.s, layouts(), r), c14ExpectStructure(sh.s)), "degenerate-parse")
			if last := sh.s.items[len(sh.s.items)-1].kind; last == "def" || last == "types" || last == "functions" {
				// no final newline (a comment must be ended by one: not for those)
				g.Emit(c14ParseOp(tag, strings.TrimRight(plain, "\n"), c14ExpectStructure(sh.s)), "degenerate-parse")
			}
			g.Emit("c14.classify "+c14Esc(plain), "classify", "degenerate-classify")
			exp := c14ExpectDecls(sh.s)
			if exp == "" {
				exp = "="
			}
			g.Emit(fmt.Sprintf("c14.gen %s %s %s", tag, c14Esc(plain), exp), "generate", "degenerate-generate")
			g.Emit(fmt.Sprintf("c14.regen %s %s", tag, c14Esc(plain)), "regenerate", "degenerate-regenerate")
		}
	}
	// (6) several generations from one parsed schema object in this process (no compiler involved: many)
	for i, n := 0, g.N(60, 600); i < n; i++ {
		o := c14GenOpts{forGen: true, size: 1 + r.Intn(10), tricky: i%2 == 0, clash: i%3 != 2, spell: i%5 == 0}
		s, _ := c14RandSchema(r, o)
		g.Emit(fmt.Sprintf("c14.regen r%d %s", i, c14Esc(c14Render(s, c14Layout{}, r))), "regenerate")
	}
}
