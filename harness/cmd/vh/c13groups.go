package main

// C13, end-to-end clause, flag GROUPS: in the schema several parameters may be conditional on one flag bit
// (`format:flags.1?string theme:flags.1?InputTheme`). The bit announces ALL of them: when it is set every
// one of them follows, a zero-valued one as its zero. c13.e2e only ever fills such a group completely or
// not at all; this file adds the calls in which the members of one group are mixed zero / non-zero, in
// every order, for every definition of the schema that has such a group — the functions themselves, the
// constructors that can be reached from the arguments of a method, and (the other direction) the
// constructors that can be reached from the result of a method.
//
//   c13.e2e.grp <Method> <dir> <Def> <flags.N> <pattern> <k>
//     Method   Go name of the client method called
//     dir      arg: <Def> is the function of the method or a constructor placed inside its arguments
//              res: <Def> is a constructor placed inside the answer
//     Def      schema name of the definition with the group; flags.N the group's flags word and bit
//     pattern  one letter per member of the group (parameters conditional on that bit, `true` ones aside),
//              in the schema's order: n = a non-zero value, z = the zero value (0, "", empty bytes,
//              boolFalse, empty vector; for an object: nil)
//     k        seed of the values
//
// Expected (from the schema alone, group-aware writer of c13groups_build.go): the request is id, flags word
// with the bit set when any member is non-zero, and then every member; the call returns the answer sent.
// A nil object inside a present group has no serialisation: the call must return an error and send nothing
// (`refused`). The Lean driver answers from the regenerated schema table (Mtv.Gen.schemaApi): the definition
// has that group with that many members; `refused` when a z member is an object and another member is n.

import (
	"bytes"
	"fmt"
	"reflect"
	"sort"
	"strconv"
	"strings"
	"sync"
	"time"

	"github.com/xelaj/mtproto"
	"github.com/xelaj/mtproto/internal/session"
	"github.com/xelaj/mtproto/telegram"
)

type c13gGroup struct {
	d       *c13Def
	fld     string
	bit     int
	members []int // indices among the value parameters
}

func (g *c13gGroup) key() string { return g.fld + "." + strconv.Itoa(g.bit) }

// c13gGroups: the flag bits of d that two or more parameters other than `true` ones are conditional on.
func c13gGroups(d *c13Def) []c13gGroup {
	var out []c13gGroup
	ix := map[string]int{}
	for i, p := range c13gValuePars(d) {
		if p.ty.bit < 0 || p.ty.kind == "true" {
			continue
		}
		k := c13gKey(&p.ty)
		j, ok := ix[k]
		if !ok {
			j = len(out)
			ix[k] = j
			out = append(out, c13gGroup{d: d, fld: p.ty.fld, bit: p.ty.bit})
		}
		out[j].members = append(out[j].members, i)
	}
	var shared []c13gGroup
	for _, g := range out {
		if len(g.members) > 1 {
			shared = append(shared, g)
		}
	}
	return shared
}

// c13gPatternSpec fills the target: member i of the group non-zero where pattern[i] == 'n', zero otherwise;
// a `true` parameter on the same bit is true exactly when the bit is set (it is nothing but the bit); every
// other conditional parameter absent.
func c13gPatternSpec(g *c13gGroup, pattern string) c13gSpec {
	nz := map[int]bool{}
	for i, m := range g.members {
		nz[m] = pattern[i] == 'n'
	}
	set := strings.Contains(pattern, "n")
	return c13gSpec{present: func(i int, p *c13Par) bool {
		if p.ty.kind == "true" && p.ty.bit == g.bit && p.ty.fld == g.fld {
			return set
		}
		return nz[i]
	}}
}

type c13gPlan struct {
	cm      *c13Method
	args    []reflect.Value
	want    []byte // nil: the arguments have no serialisation
	noSer   string
	res     reflect.Value
	payload []byte
	resTy   c13Ty
}

func (w *c13World) defByName(name string) *c13Def {
	for _, d := range w.s.byID {
		if d.name == name {
			return d
		}
	}
	return nil
}

func (w *c13World) grpPlan(op []string) (*c13gPlan, error) {
	cm := w.methods[op[1]]
	if cm == nil || cm.def.generic {
		return nil, fmt.Errorf("no generated client method %s", op[1])
	}
	target := w.defByName(op[3])
	if target == nil {
		return nil, fmt.Errorf("the schema has no definition %s", op[3])
	}
	var grp *c13gGroup
	for _, g := range c13gGroups(target) {
		if g.key() == op[4] {
			g := g
			grp = &g
		}
	}
	if grp == nil || len(op[5]) != len(grp.members) || strings.Trim(op[5], "zn") != "" {
		return nil, fmt.Errorf("%s has no group %s of %d members", op[3], op[4], len(op[5]))
	}
	k, _ := strconv.ParseUint(op[6], 10, 64)
	r := NewRand(k*0x9E3779B97F4A7C15 ^ uint64(fnv32([]byte(strings.Join(op[1:6], " ")))))
	mk := &c13Mk{s: w.s, r: r, scal: true, vecN: -1}
	tspec := c13gPatternSpec(grp, op[5])
	pl := &c13gPlan{cm: cm, resTy: cm.def.resTy}
	outT := cm.typ.Out(0)
	switch op[2] {
	case "arg":
		if target.fn != (target == cm.def) {
			return nil, fmt.Errorf("%s is not the function of %s", target.name, op[1])
		}
		spec := tspec
		if target != cm.def {
			chain := c13gChain(w.s, cm.def, target, true)
			if chain == nil {
				return nil, fmt.Errorf("%s does not occur in the arguments of %s", target.name, cm.def.name)
			}
			spec = c13gAlong(mk, chain, target, tspec, 0)
		}
		var vals []reflect.Value
		if cm.viaStruct {
			st := reflect.New(cm.typ.In(1).Elem())
			if err := c13gFill(mk, cm.def, st.Elem(), 0, spec); err != nil {
				return nil, fmt.Errorf("arguments: %v", err)
			}
			pl.args, vals = []reflect.Value{st}, c13Fields(st.Elem())
		} else {
			var types []reflect.Type
			for i := 1; i < cm.typ.NumIn(); i++ {
				types = append(types, cm.typ.In(i))
			}
			var err error
			if vals, err = c13gFields(mk, cm.def, types, 0, spec); err != nil {
				return nil, fmt.Errorf("arguments: %v", err)
			}
			pl.args = vals
		}
		var buf bytes.Buffer
		buf.Write(c13U32(cm.def.id))
		if err := c13gSerFields(w.s, cm.def, vals, &buf); err != nil {
			pl.noSer = err.Error()
		} else {
			pl.want = buf.Bytes()
		}
		rmk := &c13Mk{s: w.s, r: r, scal: true, vecN: -1, n: 500}
		if cm.def.resTy.kind == "vector" {
			rmk.vecN = 2
		}
		var err error
		if pl.res, pl.payload, err = w.result(cm.def, outT, rmk); err != nil {
			return nil, fmt.Errorf("answer: %v", err)
		}
	case "res":
		if target.fn {
			return nil, fmt.Errorf("%s is a function", target.name)
		}
		chain := c13gChain(w.s, cm.def, target, false)
		if chain == nil {
			return nil, fmt.Errorf("%s does not occur in the result of %s", target.name, cm.def.name)
		}
		var err error
		if pl.args, pl.want, err = w.args(cm, &c13Mk{s: w.s, r: r, vecN: -1}); err != nil {
			return nil, fmt.Errorf("arguments: %v", err)
		}
		ty := cm.def.resTy
		pl.res, err = c13gWrap(&ty, outT, func(gt reflect.Type) (reflect.Value, error) {
			if len(chain) == 1 {
				return c13gObject(mk, target, gt, 0, tspec)
			}
			return c13gObject(mk, chain[1].d, gt, 0, c13gAlong(mk, chain[1:], target, tspec, 0))
		})
		if err != nil {
			return nil, fmt.Errorf("answer: %v", err)
		}
		var buf bytes.Buffer
		if err := c13gSer(w.s, &ty, pl.res, &buf); err != nil {
			return nil, fmt.Errorf("answer: %v", err)
		}
		pl.payload = buf.Bytes()
	default:
		return nil, fmt.Errorf("bad direction token")
	}
	return pl, nil
}

func c13gLine(word string, op []string) string { return word + " " + strings.Join(op[1:6], " ") }

func c13gExec(op []string) string {
	if len(op) != 7 {
		return "bad-op"
	}
	w, err := c13Load()
	if err != nil {
		return "harness:" + c13San(err.Error())
	}
	pl, err := w.grpPlan(op)
	if err != nil {
		return "harness:" + c13San(err.Error())
	}
	return c13gRun(w, pl, c13gLine("ok", op), c13gLine("refused", op))
}

// c13gRun carries a plan out: the call of the real client method with the plan's arguments against a scripted
// peer that compares the request with the plan's and answers with the plan's payload. okLine / refusedLine: the
// lines printed when the call did what the schema says (also used by c13.e2e.enum, c13enum.go).
func c13gRun(w *c13World, pl *c13gPlan, okLine, refusedLine string) string {
	c13Calls++
	key := envLCG(256, 99)
	peer, err := c13NewPeer(key)
	if err != nil {
		return "harness:listen"
	}
	defer peer.stop()
	addr := peer.ln.Addr().String()
	store := &c13Store{s: &session.Session{Key: key, Hash: envSha1(key)[12:20], Salt: 1000, Hostname: addr}}
	m, err := mtproto.NewMTProto(mtproto.Config{SessionStorage: store, ServerHost: addr})
	if err != nil {
		return "harness:client:" + c13San(err.Error())
	}
	var wmu sync.Mutex
	var firstWarn time.Time
	warn := "-"
	m.Warnings = make(chan error, 1024)
	go func() {
		for e := range m.Warnings {
			wmu.Lock()
			if firstWarn.IsZero() {
				firstWarn = time.Now()
				warn = e.Error()
				if len(warn) > 150 {
					warn = "…" + warn[len(warn)-150:]
				}
				warn = c13San(warn)
			}
			wmu.Unlock()
		}
	}()
	if err := m.CreateConnection(); err != nil {
		return "harness:connect:" + c13San(err.Error())
	}
	defer func() {
		done := make(chan struct{})
		go func() { _ = m.Disconnect(); close(done) }()
		select {
		case <-done:
		case <-time.After(time.Second):
		}
	}()
	fn := reflect.ValueOf(&telegram.Client{MTProto: m}).Method(pl.cm.idx)
	ret := make(chan c13Ret, 1)
	go func() {
		defer func() {
			if r := recover(); r != nil {
				ret <- c13Ret{panic: c13San(fmt.Sprint(r))}
			}
		}()
		ret <- c13Ret{out: fn.Call(pl.args)}
	}()
	start := time.Now()
	expired := func() bool {
		wmu.Lock()
		fw := firstWarn
		wmu.Unlock()
		return !fw.IsZero() && time.Since(fw) > c13AfterWarning() || time.Since(start) > c13Deadline
	}
	warning := func() string { wmu.Lock(); defer wmu.Unlock(); return warn }
	outcome := func(r c13Ret) string {
		switch {
		case r.panic != "":
			return "panic(" + r.panic + ")"
		case len(r.out) != 2:
			return "harness:method-shape"
		case !r.out[1].IsNil():
			return "error(" + c13San(r.out[1].Interface().(error).Error()) + ")"
		}
		return ""
	}
	// the request, or the return of the call
	var f c13Frame
	for got := false; !got; {
		select {
		case f = <-peer.reqs:
			got = true
		case r := <-ret:
			o := outcome(r)
			if pl.want == nil && strings.HasPrefix(o, "error(") {
				// nothing may have gone out either
				select {
				case f = <-peer.reqs:
					return "request-sent-although-the-arguments-have-no-serialisation (" + c13San(pl.noSer) + ") sent=" + c13ShowReq(f.body)
				case <-time.After(30 * time.Millisecond):
				}
				return refusedLine
			}
			if o == "" {
				o = "returned-before-the-answer value=" + c13Short(c13Dump(r.out[0]))
			}
			return o + " stage=first-request"
		case <-time.After(2 * time.Millisecond):
			if expired() {
				c13NoReturns++
				return "no-request warning=" + warning()
			}
		}
	}
	if pl.want == nil {
		return "request-sent-although-the-arguments-have-no-serialisation (" + c13San(pl.noSer) + ") sent=" + c13ShowReq(f.body)
	}
	if !bytes.Equal(f.body, pl.want) {
		return fmt.Sprintf("request-differs schema-says=%s sent=%s", c13ShowReq(pl.want), c13ShowReq(f.body))
	}
	peer.send(c13RpcResult(f.mid, pl.payload), true)
	start = time.Now()
	var r c13Ret
	for got := false; !got; {
		select {
		case r = <-ret:
			got = true
		case <-peer.reqs:
			return "unexpected-further-request-after-the-answer"
		case <-time.After(2 * time.Millisecond):
			if expired() {
				c13NoReturns++
				return fmt.Sprintf("no-return answer=%s warning=%s", c13ShowReq(pl.payload), warning())
			}
		}
	}
	if o := outcome(r); o != "" {
		return o + " stage=answer-delivered"
	}
	got := r.out[0]
	var back bytes.Buffer
	ty := pl.resTy
	if err := c13gSer(w.s, &ty, got, &back); err != nil {
		return "result-is-no-" + c13San(pl.cm.def.res) + " (" + c13San(err.Error()) + ") value=" + c13Short(c13Dump(got))
	}
	if !bytes.Equal(back.Bytes(), pl.payload) || c13Dump(pl.res) != c13Dump(got) {
		if c13Dump(pl.res) == c13Dump(got) {
			// the canonical text does not tell nil from a slice without elements: the difference is an optional
			// vector / bytes field that came back absent for present-empty or the other way round
			return "result-differs (an optional vector / bytes field is absent <-> present without elements) payload=" + c13ShowReq(pl.payload) +
				" returned-value-serialises-to=" + c13ShowReq(back.Bytes()) + " value=" + c13Short(c13Dump(got))
		}
		return "result-differs sent=" + c13Short(c13Dump(pl.res)) + " returned=" + c13Short(c13Dump(got))
	}
	return okLine
}

func c13gJudge(op []string, out string) string {
	if len(op) == 7 && (out == c13gLine("ok", op) || out == c13gLine("refused", op)) {
		return ""
	}
	what := "client method " + op[1]
	if len(op) == 7 {
		where := map[string]string{"arg": "in its arguments", "res": "in the answer"}[op[2]]
		what += fmt.Sprintf(" with %s %s: the parameters conditional on %s are %s (n = non-zero, z = zero value, in the schema's order)", op[3], where, op[4], op[5])
	}
	switch {
	case strings.HasPrefix(out, "harness:") || out == "bad-op":
		return what + ": the harness could not carry the operation out: " + out
	case strings.HasPrefix(out, "request-differs"):
		return what + " - the request is not the one the schema defines (a set flag bit announces every parameter conditional on it, zero-valued ones included): " + out
	case strings.HasPrefix(out, "request-sent-although"):
		return what + " - a request went out although an object the flags word announces is missing: " + out
	case strings.HasPrefix(out, "no-request"):
		return what + ": no request reached the server: " + out
	case strings.HasPrefix(out, "no-return"):
		return what + " does not return the server's answer (no return within the deadline): " + out
	case strings.HasPrefix(out, "panic("):
		return what + " panics: " + out
	case strings.HasPrefix(out, "error("):
		return what + " returns an error instead of the server's answer: " + out
	}
	return what + " does not return the answer the server sent: " + out
}

// c13gPatterns: every mix of zero / non-zero members for groups of up to four members (all-zero aside: the
// group is then absent, which c13.e2e covers), the characteristic ones beyond.
func c13gPatterns(n int) []string {
	var out []string
	if n <= 4 {
		for m := 1; m < 1<<uint(n); m++ {
			b := make([]byte, n)
			for i := range b {
				b[i] = 'z'
				if m&(1<<uint(i)) != 0 {
					b[i] = 'n'
				}
			}
			out = append(out, string(b))
		}
		return out
	}
	for i := 0; i < n; i++ {
		one, but := bytes.Repeat([]byte{'z'}, n), bytes.Repeat([]byte{'n'}, n)
		one[i], but[i] = 'n', 'z'
		out = append(out, string(one), string(but))
	}
	return append(out, strings.Repeat("n", n))
}

func c13gGen(g *G) {
	w, err := c13Load()
	if err != nil {
		return
	}
	var defs []*c13Def
	for _, d := range w.s.byID {
		if len(c13gGroups(d)) > 0 {
			defs = append(defs, d)
		}
	}
	sort.Slice(defs, func(i, j int) bool { return defs[i].name < defs[j].name })
	// the methods through which a constructor is exercised: shortest chain first, then by name; quick: one
	// method per definition and direction, thorough: up to three
	type via struct {
		name string
		n    int
	}
	var uncovered []string
	for _, d := range defs {
		for _, dir := range []string{"arg", "res"} {
			var vs []via
			if d.fn {
				if dir == "res" {
					continue
				}
				for _, n := range w.names {
					if w.methods[n].def == d {
						vs = append(vs, via{n, 0})
					}
				}
			} else {
				dist := c13gDist(w.s, d.res)
				for _, n := range w.names {
					cm := w.methods[n]
					if cm.def.generic {
						continue
					}
					best := -1
					at := func(t c13Ty) {
						if b := c13gBase(&t); b.kind == "boxed" {
							if x, ok := dist[b.name]; ok && (best < 0 || x < best) {
								best = x
							}
						}
					}
					if dir == "arg" {
						for _, p := range cm.def.pars {
							at(p.ty)
						}
					} else {
						at(cm.def.resTy)
					}
					if best >= 0 {
						vs = append(vs, via{n, best})
					}
				}
				sort.SliceStable(vs, func(i, j int) bool { return vs[i].n < vs[j].n })
			}
			used := 0
			for _, v := range vs {
				if used >= g.N(1, 3) {
					break
				}
				ok := false
				for _, grp := range c13gGroups(d) {
					for _, pat := range c13gPatterns(len(grp.members)) {
						for rep := 0; rep < g.N(1, 2); rep++ {
							op := []string{"c13.e2e.grp", v.name, dir, d.name, grp.key(), pat, strconv.Itoa(1 + g.R.Intn(1<<20))}
							if _, err := w.grpPlan(op); err != nil {
								if lst, _ := g.Extra["groups_unbuildable_sample"].([]string); len(lst) < 12 {
									g.Extra["groups_unbuildable_sample"] = append(lst, strings.Join(op[1:6], " ")+": "+err.Error())
								}
								continue
							}
							ok = true
							g.Emit(strings.Join(op, " "), "groups:"+dir, "groups:members="+strconv.Itoa(len(grp.members)))
						}
					}
				}
				if ok {
					used++
				}
			}
			if used == 0 && !(d.fn && dir == "res") {
				uncovered = append(uncovered, d.name+"/"+dir)
			}
		}
	}
	g.Extra["definitions_with_a_shared_flag_bit"] = len(defs)
	g.Extra["groups_not_reachable"] = uncovered
}

func init() {
	p := props["c13"]
	if p == nil {
		panic("c13groups.go must be initialised after c13e2e.go (file order)")
	}
	gen, exec, judge := p.Gen, p.Exec, p.Judge
	p.Gen = func(g *G) { gen(g); c13gGen(g) }
	p.Exec = func(op []string) string {
		if len(op) > 0 && op[0] == "c13.e2e.grp" {
			return c13gExec(op)
		}
		return exec(op)
	}
	p.Judge = func(op []string, out string) string {
		if len(op) > 0 && op[0] == "c13.e2e.grp" {
			return c13gJudge(op, out)
		}
		return judge(op, out)
	}
}
