package main

// C15, depth of recursion (defect D28, repaired by cdbf7a6 in /repo): the decoder recurses once per object that
// lies inside another object. A fatal "stack overflow" of the Go runtime cannot be recovered from - it ends the
// program - so these inputs are decoded in a NEW PROCESS of this binary whose maximal stack is lowered to 64 MB
// (debug.SetMaxStack; the runtime's default of 1 GB would need 700 000 levels = 8.4 MB of input and a gigabyte of
// memory to show the same thing), and the death of that process is the result.
//
//   c15.stack fresh <target> <k> <unit> <suffix>     the input is unit x k ++ suffix (hex, - = empty)
//       target u = DecodeUnknownObject, n:<id> = Decode into the named type. Units: rpc_result around rpc_result
//       (12 bytes a level), every constructor of the registry that can contain itself directly (an interface
//       field its own type implements, as c15.rep uses them, count fields set to one), vector hints never needed.
//       k: 9 000 (below the limit, no suffix: ends in EOF), 10 001 / 60 000 / 300 000 (quick) and up to 3 000 000
//       (thorough): every one of them must END IN AN ERROR, in time, with memory in proportion to the input.
//
// The Lean decoder model has no stack and does not carry the limit of 10000 nested objects (it is total by its
// fuel argument; Props/C15 decode_never_loops bounds the fuel linearly in the input): the driver answers these
// operations with the one class every one of them has in the model as well - an error (a repeated unit without
// its end is an object cut short at EOF whatever k is) - and the depth of the real decoder's recursion is what the
// Go side judges. Stated in DESIGN.md 10.3 D28 as runtime behaviour the model cannot exhibit.

import (
	"bytes"
	"bufio"
	"fmt"
	"os"
	"os/exec"
	"path/filepath"
	"reflect"
	"runtime"
	"runtime/debug"
	"strconv"
	"strings"
	"time"

	"github.com/xelaj/mtproto/internal/encoding/tl"
	"github.com/xelaj/mtproto/verifharness/internal/reg"
)

const c15StackMax = 64 << 20

func c15StackInput(op []string) (target string, in []byte, ok bool) {
	if len(op) != 6 {
		return "", nil, false
	}
	k, err := strconv.Atoi(op[3])
	if err != nil || k < 0 || k > 4000000 {
		return "", nil, false
	}
	unit, suffix := parseBytes(op[4]), parseBytes(op[5])
	if len(unit) == 0 {
		return "", nil, false
	}
	return op[2], append(bytes.Repeat(unit, k), suffix...), true
}

func c15StackHere(op []string) string {
	target, in, ok := c15StackInput(op)
	if !ok {
		return "bad-op"
	}
	debug.SetMaxStack(c15StackMax)
	var m0, m1 runtime.MemStats
	runtime.ReadMemStats(&m0)
	t0 := time.Now()
	var err error
	res := "value"
	func() {
		defer func() {
			if r := recover(); r != nil {
				res = "panic"
			}
		}()
		if target == "u" {
			_, err = tl.DecodeUnknownObject(in)
		} else if strings.HasPrefix(target, "n:") {
			id, e := strconv.ParseUint(target[2:], 16, 32)
			c := reg.ByID()[uint32(id)]
			if e != nil || c == nil {
				res = "bad-op"
				return
			}
			err = tl.Decode(in, reflect.New(c.Type.Elem()).Interface())
		} else {
			res = "bad-op"
		}
	}()
	dur := time.Since(t0)
	runtime.ReadMemStats(&m1)
	if err != nil && res == "value" {
		res = "err"
	}
	return fmt.Sprintf("%s len=%d ms=%d alloc=%d", res, len(in), dur.Milliseconds(), m1.TotalAlloc-m0.TotalAlloc)
}

func c15StackFresh(op []string) string {
	exe, err := os.Executable()
	if err != nil {
		return "harness:no-executable"
	}
	dir, err := os.MkdirTemp(".", "c15stack-")
	if err != nil {
		return "harness:no-temp-dir"
	}
	defer os.RemoveAll(dir)
	line := append([]string{op[0], "here"}, op[2:]...)
	opsf := filepath.Join(dir, "ops")
	if err := os.WriteFile(opsf, []byte(strings.Join(line, " ")+"\n"), 0o644); err != nil {
		return "harness:no-temp-file"
	}
	var stderr bytes.Buffer
	cmd := exec.Command(exe, "c15", "-ops", opsf, "-dir", filepath.Join(dir, "out"))
	cmd.Stderr = &stderr
	cmd.Stdout = &stderr
	runErr := cmd.Start()
	if runErr == nil {
		ch := make(chan error, 1)
		go func() { ch <- cmd.Wait() }()
		select {
		case runErr = <-ch:
		case <-time.After(60 * time.Second):
			_ = cmd.Process.Kill()
			<-ch
			return "process-died(no result within 60 s)"
		}
	}
	if f, err := os.Open(filepath.Join(dir, "out", "go.out")); err == nil {
		defer f.Close()
		sc := bufio.NewScanner(f)
		sc.Buffer(make([]byte, 1<<20), 1<<24)
		if sc.Scan() && runErr == nil {
			return sc.Text()
		}
	}
	why := fmt.Sprint(runErr)
	for _, l := range strings.Split(stderr.String(), "\n") {
		if strings.HasPrefix(l, "fatal error:") || strings.HasPrefix(l, "panic:") || strings.HasPrefix(l, "runtime: goroutine stack") {
			why = strings.TrimSpace(l)
			break
		}
	}
	return "process-died(" + why + ")"
}

// c15StackLast: the measurements of the last c15.stack operation (the result line carries the class only, so
// that it can be compared with the model's answer and with a repetition of the operation)
var c15StackLast string

func c15StackExec(op []string) string {
	if len(op) != 6 {
		return "bad-op"
	}
	switch op[1] {
	case "here":
		return c15StackHere(op) // the child: class and measurements
	case "fresh":
		c15StackLast = c15StackFresh(op)
		if strings.HasPrefix(c15StackLast, "process-died") {
			return c15StackLast
		}
		return strings.SplitN(c15StackLast, " ", 2)[0]
	}
	return "bad-op"
}

func c15StackJudge(op []string, out string) string {
	if op[1] == "fresh" && !strings.HasPrefix(out, "process-died") {
		out = c15StackLast
	}
	f := strings.Fields(out)
	if len(f) == 0 || strings.HasPrefix(out, "bad-op") || strings.HasPrefix(out, "harness:") {
		return ""
	}
	what := fmt.Sprintf("%s levels of an object inside itself (unit of %d bytes)", op[3], len(op[4])/2)
	if strings.HasPrefix(out, "process-died") {
		return "decoding " + what + " ended the process: " + out
	}
	if f[0] == "panic" {
		return "decoding " + what + " panicked"
	}
	var n, ms int
	var alloc uint64
	for _, t := range f[1:] {
		switch {
		case strings.HasPrefix(t, "len="):
			n, _ = strconv.Atoi(t[4:])
		case strings.HasPrefix(t, "ms="):
			ms, _ = strconv.Atoi(t[3:])
		case strings.HasPrefix(t, "alloc="):
			alloc, _ = strconv.ParseUint(t[6:], 10, 64)
		}
	}
	if f[0] != "err" {
		return "decoding " + what + " without an end returned a value"
	}
	if ms > 20000 {
		return fmt.Sprintf("decoding %s (%d bytes) took %d ms", what, n, ms)
	}
	if bound := c15AllocBound(n, 0); alloc > bound {
		return fmt.Sprintf("decoding %s (%d bytes) allocated %d bytes (bound %d)", what, n, alloc, bound)
	}
	return ""
}

func c15StackGen(g *G) {
	rpc := c15cat(le32(0xf35c6d01), make([]byte, 8))
	type u struct {
		target string
		unit   []byte
		tag    string
	}
	units := []u{{"u", rpc, "rpc_result"}}
	rec := c15RecursiveUnits()
	pick := g.N(3, 12)
	for i := 0; i < len(rec) && pick > 0; i++ {
		r := rec[(i*7+int(g.Seed))%len(rec)]
		unit := append([]byte(nil), r.unit...)
		if r.off >= 0 { // a vector of the interface: one element
			copy(unit[r.off:], le32(1))
		}
		units = append(units, u{"u", unit, "recursive-constructor"})
		if i%3 == 0 {
			units = append(units, u{fmt.Sprintf("n:%08x", r.c.ID), unit, "recursive-constructor-named"})
		}
		pick--
	}
	ks := []int{9000, 10001, 60000, 300000}
	if g.Thorough() {
		ks = append(ks, 1000000, 3000000)
	}
	for ui, x := range units {
		for _, k := range ks {
			if ui > 0 && k > 60000 && !g.Thorough() && ui%2 == 0 {
				continue
			}
			if k*len(x.unit) > 40<<20 {
				continue
			}
			g.Emit(fmt.Sprintf("c15.stack fresh %s %d %s -", x.target, k, hexD(x.unit)), "stack-depth-"+x.tag)
		}
	}
}
