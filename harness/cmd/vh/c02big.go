package main

// C02, the length boundaries of a TL byte string for every KIND of parameter that is one and every WAY to the
// writer. `string` and `bytes` are the same thing on the wire (one length-prefixed, 4-byte aligned byte string) but
// two Go kinds (string, []byte) that the encoder treats in two places, and a parameter may be the byte string
// itself or a Vector of them; the encoder writes into whatever io.Writer it was made for (tl.Marshal: a
// bytes.Buffer, which also has WriteString / WriteByte / ReadFrom; NewEncoder(w): any writer). For all of them:
// below 2^24 bytes the bytes are exactly what the schema line defines, from 2^24 on the value is refused.
//
//   c02.big <id> <value> <big> <how>
//     value, big   as for c02.gz (c02gz.go): k:n - value parameter k (string or bytes) holds n bytes (i%251);
//                  k.j:n - element j of the Vector<string> / Vector<bytes> that value parameter k holds
//     how          marshal = tl.Marshal(value) | writer = tl.NewEncoder(w).PutVector([]tl.Object{value}) for a w
//                  that has Write and nothing else (the 8 bytes of the vector id and count taken off)
//   answer         enc=<length and digest of the bytes> | enc=err; the Lean side: the schema-defined bytes
//
//   c02.str <bytes> <how>   how: msg (default) = PutMessage([]byte) | str = PutString(string) | vec = PutVector([]string{..})
//                           (vector id and count taken off), each into a bytes.Buffer; msgw / strw / vecw: into a
//                           plain writer

import (
	"bytes"
	"fmt"
	"io"
	"reflect"
	"sort"
	"strings"

	"github.com/xelaj/mtproto/internal/encoding/tl"

	"github.com/xelaj/mtproto/verifharness/internal/reg"
)

// c02PlainWriter has Write and nothing else (no WriteString, WriteByte, ReadFrom, Grow ...).
type c02PlainWriter struct{ buf *bytes.Buffer }

func (w c02PlainWriter) Write(p []byte) (int, error) { return w.buf.Write(p) }

func c02BigExec(op []string) string {
	if len(op) != 5 || (op[4] != "marshal" && op[4] != "writer") {
		return "bad-op"
	}
	v, ok := c02GzValue(op[2], op[3])
	if !ok {
		return "bad-op"
	}
	return "enc=" + tlOutcome(func() (string, error) {
		if op[4] == "marshal" {
			b, err := tl.Marshal(v.Interface())
			return showBytes(b), err
		}
		var buf bytes.Buffer
		var w io.Writer = c02PlainWriter{&buf}
		e := tl.NewEncoder(w)
		e.PutVector([]tl.Object{v.Interface().(tl.Object)})
		if err := e.CheckErr(); err != nil {
			return "", err
		}
		b := buf.Bytes()
		if len(b) < 8 {
			return "", fmt.Errorf("short")
		}
		return showBytes(b[8:]), nil
	})
}

// c02BigSizes: the sizes the last token of a c02.big / c02.gz operation puts in place.
func c02BigSizes(big string) []int {
	var out []int
	if big == "-" {
		return out
	}
	for _, kn := range strings.Split(big, ",") {
		if c := strings.Index(kn, ":"); c > 0 {
			n := 0
			fmt.Sscanf(kn[c+1:], "%d", &n)
			out = append(out, n)
		}
	}
	return out
}

func c02BigJudge(op []string, out string) string {
	if len(op) != 5 || out == "bad-op" {
		return ""
	}
	for _, n := range c02BigSizes(op[3]) {
		if n >= 1<<24 && out != "enc=err" {
			return fmt.Sprintf("a string / bytes parameter of %d bytes (2^24 or more: the 3-byte length cannot say so) was not refused (%s): %s", n, op[4], clip(out))
		}
	}
	return ""
}

func c02StrExec(b []byte, how string) string {
	var buf bytes.Buffer
	var w io.Writer = &buf
	if strings.HasSuffix(how, "w") {
		w = c02PlainWriter{&buf}
	}
	e := tl.NewEncoder(w)
	skip := 0
	switch strings.TrimSuffix(how, "w") {
	case "msg":
		e.PutMessage(b)
	case "str":
		e.PutString(string(b))
	case "vec":
		e.PutVector([]string{string(b)})
		skip = 8
	default:
		return "bad-op"
	}
	if e.CheckErr() != nil {
		return "refused"
	}
	if buf.Len() < skip {
		return "enc=short back=err"
	}
	enc := append([]byte{}, buf.Bytes()[skip:]...)
	d, _ := tl.NewDecoder(bytes.NewReader(append(append([]byte{}, enc...), 1, 2, 3, 4)))
	m := d.PopMessage()
	r, _ := d.GetRestOfMessage()
	if m == nil { // PopMessage's error answer; an empty string is an empty, non-nil slice
		return fmt.Sprintf("enc=%s back=err", showBytes(enc))
	}
	return fmt.Sprintf("enc=%s back=%v", showBytes(enc), bytes.Equal(m, b) && bytes.Equal(r, []byte{1, 2, 3, 4}))
}

// c02BigOps: constructors drawn from the registry that have an unconditional `string` parameter, a `bytes`
// parameter, a Vector<string> and a Vector<bytes> parameter; each kind at every header boundary (through both
// writers), and at the format's limit: 2^24-1 (accepted, byte-exact), 2^24 and 2^24+5 (refused). The 16 MiB cases
// cost about a second each on the schema side: the quick tier takes the limit itself for every kind and the
// neighbours for the `string` parameter, the thorough tier all of them for every kind and both writers.
func c02BigOps(g *G, tg *tlGen, all []reg.Ctor) {
	type cand struct {
		c  *reg.Ctor
		k  int // position among the value parameters
		fi int
	}
	kinds := []string{"string", "bytes", "vector-of-string", "vector-of-bytes"}
	by := map[string][]cand{}
	for i := range all {
		c := &all[i]
		if c.Kind != "struct" || !marshalable(c) {
			continue
		}
		k := 0
		for fi, f := range c.Fields {
			if f.Ignore {
				continue
			}
			if !f.HasFlag {
				switch {
				case f.Type.Kind() == reflect.String:
					by["string"] = append(by["string"], cand{c, k, fi})
				case f.Type == tBytes:
					by["bytes"] = append(by["bytes"], cand{c, k, fi})
				case f.Type.Kind() == reflect.Slice && f.Type.Elem().Kind() == reflect.String:
					by["vector-of-string"] = append(by["vector-of-string"], cand{c, k, fi})
				case f.Type.Kind() == reflect.Slice && f.Type.Elem() == tBytes:
					by["vector-of-bytes"] = append(by["vector-of-bytes"], cand{c, k, fi})
				}
			}
			k++
		}
	}
	for _, k := range kinds {
		cs := by[k]
		sort.Slice(cs, func(i, j int) bool { return cs[i].c.ID < cs[j].c.ID || cs[i].c.ID == cs[j].c.ID && cs[i].k < cs[j].k })
	}
	saveCanon, saveBig := tg.alwaysCanon, tg.bigStrings
	tg.alwaysCanon, tg.bigStrings = true, false
	defer func() { tg.alwaysCanon, tg.bigStrings = saveCanon, saveBig }()
	emitted := 0
	emit := func(kind string, n int, how string) {
		cs := by[kind]
		if len(cs) == 0 {
			return
		}
		cd := cs[g.R.Intn(len(cs))]
		f := cd.c.Fields[cd.fi]
		var obj reflect.Value
		where := fmt.Sprintf("%d:%d", cd.k, n)
		for tries := 0; tries < 20; tries++ {
			obj = tg.object(cd.c, tg.maxDepth)
			fv := obj.Elem().Field(cd.fi)
			switch kind {
			case "string":
				fv.SetString("")
			case "bytes":
				fv.SetBytes([]byte{})
			default: // a vector of 1 to 3 short elements; one of them is the long one
				m := 1 + g.R.Intn(3)
				sl := reflect.MakeSlice(f.Type, m, m)
				for j := 0; j < m; j++ {
					if kind == "vector-of-string" {
						sl.Index(j).SetString(string(g.R.Bytes(g.R.Intn(6))))
					} else {
						sl.Index(j).SetBytes(g.R.Bytes(g.R.Intn(6)))
					}
				}
				j := g.R.Intn(m)
				if kind == "vector-of-string" {
					sl.Index(j).SetString("")
				} else {
					sl.Index(j).SetBytes([]byte{})
				}
				fv.Set(sl)
				where = fmt.Sprintf("%d.%d:%d", cd.k, j, n)
			}
			if isCanonical(obj) && c02Complete(obj) && len(dumpDyn(obj)) < 20000 {
				break
			}
		}
		tag := "below-2^24"
		if n >= 1<<24 {
			tag = "2^24-and-more"
		} else if n >= 1<<24-8 {
			tag = "just-below-2^24"
		}
		g.Emit(fmt.Sprintf("c02.big %08x %s %s %s", cd.c.ID, dumpDyn(obj), where, how), "big-parameter", "big-parameter:"+kind, "big-parameter:"+tag, "big-parameter:"+how)
		emitted++
	}
	hows := []string{"marshal", "writer"}
	for _, kind := range kinds {
		for _, n := range []int{0, 1, 252, 253, 254, 255, 256, 257, 65535, 65536, 65537} {
			emit(kind, n, hows[0])
			emit(kind, n, hows[1])
		}
	}
	const lim = 1 << 24
	if g.Thorough() {
		for _, kind := range kinds {
			for _, how := range hows {
				for _, n := range []int{lim - 2, lim - 1, lim, lim + 1, lim + 5} {
					emit(kind, n, how)
				}
			}
		}
	} else {
		for _, n := range []int{lim - 1, lim, lim + 5} {
			emit("string", n, "marshal")
		}
		emit("string", lim, "writer")
		emit("bytes", lim-1, "marshal")
		emit("bytes", lim, "marshal")
		emit("vector-of-string", lim, "marshal")
		emit("vector-of-bytes", lim, []string{"marshal", "writer"}[g.R.Intn(2)])
	}
	g.Extra["big_parameter_operations"] = emitted
}

// c02Complete: nothing that has to be on the wire is nil (a mandatory pointer / boxed parameter, a member of a
// present group, a vector element): the value is refused for no other reason than the one the operation is about.
func c02Complete(v reflect.Value) bool {
	switch v.Kind() {
	case reflect.Interface:
		return !v.IsNil() && c02Complete(v.Elem())
	case reflect.Slice:
		if v.Type() == tBytes {
			return true
		}
		for i := 0; i < v.Len(); i++ {
			if !c02Complete(v.Index(i)) {
				return false
			}
		}
	case reflect.Ptr:
		if v.IsNil() {
			return false
		}
		if v.Type() == tInt128 || v.Type() == tInt256 || v.Elem().Kind() != reflect.Struct {
			return true
		}
		id, ok := reg.CrcOf(v.Type())
		if !ok {
			return true
		}
		c := reg.ByID()[id]
		if c == nil || c.Kind != "struct" {
			return true
		}
		st := v.Elem()
		present := map[int]bool{}
		for i, f := range c.Fields {
			if f.HasFlag && !f.Ignore && !st.Field(i).IsZero() {
				present[f.Bit] = true
			}
		}
		for i, f := range c.Fields {
			if f.Ignore || f.InBits || (f.HasFlag && !present[f.Bit]) {
				continue
			}
			if !c02Complete(st.Field(i)) {
				return false
			}
		}
	}
	return true
}
