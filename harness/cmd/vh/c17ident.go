package main

// C17 — the error a caller got is the caller's OWN value (session 9, after the seeded change C17-m16: the
// catalogued errors without a parameter built once in a package-level map, the server's code written into the
// shared value on every reply, so that an error somebody still holds changes when a later reply with the same
// text carries another code).
//
// c17.native looks at a conversion's result the moment it is returned; there every (code, text) pair is right
// also when the value is shared. What these operations add is TIME: several conversions in one process, every
// earlier result HELD by its caller and examined again after all later conversions.
//
//	c17.ident <mode> <items>      <items> = <code>:<hex text>,…  — the replies, in the order they are converted
//	    hold     RpcErrorToNative on every item in order; every returned error is kept and examined (code, message,
//	             description, parameter, Error() text) after the LAST conversion
//	    mut      the same, but the caller of every reply examines its error at once and then writes into it
//	             (Code, Message, Description, AdditionalInfo — its own value, it may); a later conversion must
//	             not see what an earlier caller wrote
//	    exp      TryExpandError on every text, every (name, parameter) pair kept and examined after the last one
//	    par<k>   k goroutines released together, goroutine j converts the items j, j+k, …; all results kept and
//	             examined when every goroutine is done (2 ≤ k ≤ 16)
//	c17.callers <mode> <items>    the real client, one connection to a peer of the harness, one MakeRequest(ping) per
//	                              item; the peer answers the i-th caller's request with rpc_error <item i>. Every
//	                              caller keeps what MakeRequest returned; all are examined after the last returned.
//	    s        one call after the other
//	    f        all calls in flight; the peer holds the answers back until it has every request and then writes
//	             them one after the other in item order
//	    r        the same, answers in reverse item order
//	    w        in flight, and the peer waits until the caller of one answer has returned before it writes the next
//
// Result: the items' errors joined by " | ", each `code= msg= desc= param= err=` as it is at the END (for mut: as it
// was when returned); an error that is no longer what it was when it was returned carries ` at-return=<what it was>`.
// c17.callers ends with ` | reqs=<requests the peer received>`.

import (
	"fmt"
	"net"
	"strconv"
	"strings"
	"sync"
	"time"

	"github.com/pkg/errors"

	"github.com/xelaj/mtproto"
	"github.com/xelaj/mtproto/internal/mtproto/objects"
)

type c17Item struct {
	code int32
	text []byte
}

type c17Planned struct {
	ping   uint64
	answer c17Answer
}

func c17ParseItems(s string) ([]c17Item, bool) {
	var out []c17Item
	for _, t := range strings.Split(s, ",") {
		parts := strings.SplitN(t, ":", 2)
		if len(parts) != 2 {
			return nil, false
		}
		n, err := strconv.ParseInt(parts[0], 10, 32)
		if err != nil {
			return nil, false
		}
		out = append(out, c17Item{int32(n), parseBytes(parts[1])})
	}
	return out, len(out) > 0
}

func c17ShowHeld(e *mtproto.ErrResponseCode) string {
	return fmt.Sprintf("code=%d msg=%s desc=%s param=%s err=%s", e.Code, hexD([]byte(e.Message)), hexD([]byte(e.Description)),
		c17Param(e.AdditionalInfo), hexD([]byte(e.Error())))
}

// c17Final: what a held error is at the end, with what it was when it was returned if that differs
func c17Final(e *mtproto.ErrResponseCode, atReturn string) string {
	if e == nil {
		return atReturn
	}
	now := c17ShowHeld(e)
	if now != atReturn {
		return now + " at-return=" + strings.ReplaceAll(atReturn, " ", "/")
	}
	return now
}

// c17Scribble: the caller writes into the error it was given (its own value): every field, values that differ from
// caller to caller
func c17Scribble(e *mtproto.ErrResponseCode, i int) {
	e.Code = -7 - i
	e.Message = "SCRIBBLED_" + strconv.Itoa(i)
	e.Description = "scribbled %d by " + strconv.Itoa(i)
	if i%2 == 0 {
		e.AdditionalInfo = 777 + i
	} else {
		e.AdditionalInfo = "scribbled"
	}
}

func c17Ident(mode string, items []c17Item) string {
	n := len(items)
	held := make([]*mtproto.ErrResponseCode, n)
	atRet := make([]string, n)
	convert := func(i int) {
		err := mtproto.RpcErrorToNative(&objects.RpcError{ErrorCode: items[i].code, ErrorMessage: string(items[i].text)})
		e, ok := err.(*mtproto.ErrResponseCode)
		if !ok {
			atRet[i] = fmt.Sprintf("not-ErrResponseCode:%T", err)
			return
		}
		held[i], atRet[i] = e, c17ShowHeld(e)
	}
	switch {
	case mode == "hold":
		for i := range items {
			convert(i)
		}
	case mode == "mut":
		for i := range items {
			convert(i)
			if held[i] != nil {
				c17Scribble(held[i], i)
			}
		}
		return strings.Join(atRet, " | ")
	case mode == "exp":
		type pair struct {
			name string
			p    interface{}
		}
		got := make([]pair, n)
		for i, it := range items {
			got[i].name, got[i].p = mtproto.TryExpandError(string(it.text))
		}
		out := make([]string, n)
		for i, g := range got {
			out[i] = "name=" + hexD([]byte(g.name)) + " param=" + c17Param(g.p)
		}
		return strings.Join(out, " | ")
	case strings.HasPrefix(mode, "par"):
		k, err := strconv.Atoi(mode[3:])
		if err != nil || k < 2 || k > 16 {
			return "bad-op"
		}
		start := make(chan struct{})
		var wg sync.WaitGroup
		for j := 0; j < k; j++ {
			wg.Add(1)
			go func(j int) {
				defer wg.Done()
				i := j
				defer func() {
					if r := recover(); r != nil && i < n {
						atRet[i] = "panic:RpcErrorToNative"
					}
				}()
				<-start
				for ; i < n; i += k {
					convert(i)
				}
			}(j)
		}
		close(start)
		wg.Wait()
	default:
		return "bad-op"
	}
	out := make([]string, n)
	for i := range items {
		out[i] = c17Final(held[i], atRet[i])
	}
	return strings.Join(out, " | ")
}

// servePlanned: the peer of c17.callers — the request with this ping_id has an answer of its own; answers are held
// back until `hold` requests are there and then written in the order of the plan.
func (p *c17Peer) servePlanned(c net.Conn, m envMsg, ping uint64) bool {
	p.mu.Lock()
	if p.pending == nil {
		p.pending = map[uint64]envMsg{}
	}
	p.pending[ping] = m
	var todo []c17Planned
	var msgs []envMsg
	if len(p.pending) >= p.hold {
		for _, pl := range p.plan {
			if mm, ok := p.pending[pl.ping]; ok {
				todo, msgs = append(todo, pl), append(msgs, mm)
				delete(p.pending, pl.ping)
			}
		}
	}
	after := p.afterReply
	p.mu.Unlock()
	for i, pl := range todo {
		if !p.reply(c, msgs[i], pl.ping, pl.answer) {
			return false
		}
		if after != nil {
			after(pl.ping)
		}
	}
	return true
}

var c17CallersCounter uint64

func c17Callers(mode string, items []c17Item) string {
	c17LoadFacts()
	if mode != "s" && mode != "f" && mode != "r" && mode != "w" {
		return "bad-op"
	}
	n := len(items)
	if n > 64 {
		return "bad-op"
	}
	for _, it := range items {
		if name, _, num := specSplit(string(it.text)); num && name == "PHONE_MIGRATE_X" {
			return "bad-op" // an error the client handles; these operations are about the ones it returns
		}
		// conversion first: on a tree where it panics no client and no listener must be left behind
		if _, e := c17Native(it.code, it.text); e == nil {
			return "not-ErrResponseCode"
		}
	}
	c17CallersCounter++
	base := uint64(0x17100000) + c17CallersCounter*256
	key := envLCG(256, 1717)
	peer := newC17Peer("H", key, c17Answer{})
	defer peer.stop()
	returned := make([]chan struct{}, n)
	plan := make([]c17Planned, n)
	for i, it := range items {
		returned[i] = make(chan struct{})
		plan[i] = c17Planned{ping: base + uint64(i), answer: c17Answer{isErr: true, code: it.code, text: it.text}}
	}
	if mode == "r" {
		for i, j := 0, n-1; i < j; i, j = i+1, j-1 {
			plan[i], plan[j] = plan[j], plan[i]
		}
	}
	peer.mu.Lock()
	peer.plan, peer.hold = plan, n
	if mode == "s" {
		peer.hold = 1
	}
	if mode == "w" {
		peer.afterReply = func(ping uint64) {
			select {
			case <-returned[int(ping-base)]:
			case <-time.After(8 * time.Second):
			}
		}
	}
	peer.mu.Unlock()
	m, err := mtproto.NewMTProto(mtproto.Config{SessionStorage: c17KeyedSession{key, peer.addr()}, ServerHost: peer.addr()})
	if err != nil {
		return "setup-failed:NewMTProto"
	}
	if err := m.CreateConnection(); err != nil {
		return "setup-failed:CreateConnection"
	}
	defer func() { _ = m.Disconnect() }()

	held := make([]*mtproto.ErrResponseCode, n)
	atRet := make([]string, n)
	call := func(i int) {
		defer close(returned[i])
		defer func() {
			if r := recover(); r != nil {
				atRet[i] = "panic:MakeRequest"
			}
		}()
		v, err := m.MakeRequest(&objects.PingParams{PingID: int64(base + uint64(i))})
		switch e := err.(type) {
		case nil:
			atRet[i] = fmt.Sprintf("answered-with-a-value:%T", v)
		case *mtproto.ErrResponseCode:
			held[i], atRet[i] = e, c17ShowHeld(e)
		default:
			if _, isE := errors.Cause(err).(*mtproto.ErrResponseCode); isE {
				atRet[i] = "wrapped-error"
			} else {
				atRet[i] = "other-error"
			}
		}
	}
	wait := func(i int) bool {
		select {
		case <-returned[i]:
			return true
		case <-time.After(8 * time.Second):
			return false
		}
	}
	noReturn := false
	if mode == "s" {
		for i := range items {
			go call(i)
			if !wait(i) {
				noReturn = true
				break
			}
		}
	} else {
		for i := range items {
			go call(i)
		}
		for i := range items {
			if !wait(i) {
				noReturn = true
				break
			}
		}
	}
	time.Sleep(time.Millisecond)
	reqs, _ := peer.snapshot()
	if noReturn {
		return fmt.Sprintf("no-return reqs=%d", len(reqs))
	}
	out := make([]string, n)
	for i := range items {
		out[i] = c17Final(held[i], atRet[i])
	}
	return strings.Join(out, " | ") + fmt.Sprintf(" | reqs=%d", len(reqs))
}

func c17IdentExec(op []string) (string, bool) {
	if len(op) != 3 || (op[0] != "c17.ident" && op[0] != "c17.callers") {
		return "", false
	}
	items, ok := c17ParseItems(op[2])
	if !ok {
		return "bad-op", true
	}
	if op[0] == "c17.ident" {
		return c17Ident(op[1], items), true
	}
	return c17Callers(op[1], items), true
}

// ---- oracle ---------------------------------------------------------------------------------------------------

// c17IdentJudge: every reply's error, looked at after ALL the replies were converted (for `mut`: when it was
// returned, after earlier callers wrote into theirs), is the structured error of ITS reply — judged item by item by
// the oracle of c17.native / c17.expand (the property text), and it is still what it was when it was returned.
func c17IdentJudge(op []string, out string) string {
	if len(op) != 3 {
		return ""
	}
	items, ok := c17ParseItems(op[2])
	if !ok || out == "bad-op" || strings.HasPrefix(out, "setup-failed") {
		return ""
	}
	if strings.HasPrefix(out, "panic:") {
		return "panicked (" + out + "): every error text must be delivered as a structured error"
	}
	what := "conversion"
	if op[0] == "c17.callers" {
		what = "caller"
		if strings.HasPrefix(out, "no-return") {
			return "a caller whose request was answered with rpc_error did not get it: " + out
		}
	}
	parts := strings.Split(out, " | ")
	if op[0] == "c17.callers" {
		if last := parts[len(parts)-1]; last != fmt.Sprintf("reqs=%d", len(items)) {
			return fmt.Sprintf("%d callers, one request each, none repeated: expected reqs=%d, got %s", len(items), len(items), clip(last))
		}
		parts = parts[:len(parts)-1]
	}
	if len(parts) != len(items) {
		return fmt.Sprintf("%d replies, %d errors", len(items), len(parts))
	}
	describe := func(i int) string {
		return fmt.Sprintf("%s %d of %d (rpc_error %d %q)", what, i+1, len(items), items[i].code, string(items[i].text))
	}
	for i, p := range parts {
		if k := strings.Index(p, " at-return="); k >= 0 {
			return fmt.Sprintf("the error held by %s is not the caller's own: when it was returned it was {%s}, after the later replies were converted it is {%s}",
				describe(i), strings.ReplaceAll(p[k+len(" at-return="):], "/", " "), p[:k])
		}
		sub := []string{"c17.native", strconv.Itoa(int(items[i].code)), hexD(items[i].text)}
		if op[1] == "exp" {
			sub = []string{"c17.expand", hexD(items[i].text)}
		}
		if !strings.Contains(p, "param=") {
			return fmt.Sprintf("%s: not a structured error: %s", describe(i), clip(p))
		}
		if why := c17Judge(sub, p); why != "" {
			when := "examined after all replies were converted"
			if op[1] == "mut" {
				when = "examined when it was returned, after the callers of earlier replies wrote into the errors they were given"
			}
			return fmt.Sprintf("%s, %s: %s", describe(i), when, why)
		}
		if op[1] != "exp" {
			// the Error() text speaks of this reply: it carries the server's code
			f := kvs(p)
			if e := unhexS(f["err"]); !strings.Contains(e, strconv.Itoa(int(items[i].code))) {
				return fmt.Sprintf("%s: the Error() text %q does not carry the server's code", describe(i), e)
			}
		}
	}
	return ""
}

// ---- generator ------------------------------------------------------------------------------------------------

func c17IdentGen(g *G) {
	itoa := strconv.Itoa
	item := func(code int, text string) string { return itoa(code) + ":" + hx(text) }
	// catalogued names without a parameter (no verb in the description, no row of the table matches them)
	var plain []string
	for _, kv := range c17F.Catalogue {
		if _, _, num := specSplit(kv.Key); !num && !strings.Contains(kv.Val, "%") {
			plain = append(plain, kv.Key)
		}
	}
	if len(plain) == 0 {
		plain = []string{"CHAT_WRITE_FORBIDDEN"}
	}
	families := []string{}
	for _, r := range c17SpecRows {
		families = append(families, r[0]+"%"+r[1])
	}
	fam := func(f string, n int) string { return strings.Replace(f, "%", itoa(n), 1) }
	multi := []string{"CHAT_WRITE_FORBIDDEN", "CHANNEL_PRIVATE", "USER_PRIVACY_RESTRICTED", "CHAT_ADMIN_REQUIRED", "AUTH_KEY_UNREGISTERED"}
	codes := []int{400, 403, 406, 401, 420, 500, -503, 303, 0, 2147483647, -2147483648}
	modes := []string{"hold", "mut", "par2", "par4", "par16"}

	// the texts Telegram really sends with several codes, and one family: same text / different codes, different
	// parameters, everything the same — in every mode, through the functions and through the client
	for _, t := range multi {
		for _, mode := range modes {
			g.Emit("c17.ident "+mode+" "+item(400, t)+","+item(403, t), "ident-same-text-other-code")
		}
	}
	for _, mode := range append([]string{"exp"}, modes...) {
		g.Emit("c17.ident "+mode+" "+item(420, "FLOOD_WAIT_5")+","+item(420, "FLOOD_WAIT_7"), "ident-same-family-other-parameter")
		g.Emit("c17.ident "+mode+" "+item(420, "FLOOD_WAIT_5")+","+item(420, "FLOOD_WAIT_5")+","+item(400, "CHAT_ID_INVALID")+","+item(400, "CHAT_ID_INVALID"), "ident-same-everything")
		g.Emit("c17.ident "+mode+" "+item(400, "NO_SUCH_ERROR_TEXT")+","+item(500, "NO_SUCH_ERROR_TEXT")+","+item(400, "")+","+item(-1, ""), "ident-unknown-text-other-code")
	}
	for _, mode := range []string{"s", "f", "r", "w"} {
		g.Emit("c17.callers "+mode+" "+item(400, "CHAT_WRITE_FORBIDDEN")+","+item(403, "CHAT_WRITE_FORBIDDEN"), "callers-same-text-other-code")
		g.Emit("c17.callers "+mode+" "+item(420, "FLOOD_WAIT_5")+","+item(420, "FLOOD_WAIT_7")+","+item(406, "FLOOD_WAIT_7"), "callers-same-family-other-parameter")
		g.Emit("c17.callers "+mode+" "+item(400, "CHANNEL_PRIVATE")+","+item(400, "CHANNEL_PRIVATE"), "callers-same-everything")
	}
	// every catalogued name, twice with different codes, all held: chunks of 48 names; first all with one code,
	// then all with another (so that every earlier result is followed by many other conversions)
	var all []string
	for _, kv := range c17F.Catalogue {
		all = append(all, kv.Key)
	}
	all = append(all, "NO_SUCH_ERROR_TEXT", "")
	for lo := 0; lo < len(all); lo += 48 {
		hi := lo + 48
		if hi > len(all) {
			hi = len(all)
		}
		c1, c2 := codes[g.R.Intn(len(codes))], codes[g.R.Intn(len(codes))]
		for c2 == c1 {
			c2 = codes[g.R.Intn(len(codes))]
		}
		var its []string
		for _, t := range all[lo:hi] {
			its = append(its, item(c1, t))
		}
		for _, t := range all[lo:hi] {
			its = append(its, item(c2, t))
		}
		g.Emit("c17.ident hold "+strings.Join(its, ","), "ident-every-catalogued-name-two-codes")
		if lo/48%2 == 0 {
			g.Emit("c17.ident mut "+strings.Join(its, ","), "ident-every-catalogued-name-two-codes")
		} else {
			g.Emit("c17.ident par"+itoa(2+g.R.Intn(7))+" "+strings.Join(its, ","), "ident-every-catalogued-name-two-codes")
		}
	}
	// every family: different parameters, the same parameter with different codes
	for _, f := range families {
		a, b := g.R.Intn(1000), 1000+g.R.Intn(1000)
		its := []string{item(420, fam(f, a)), item(420, fam(f, b)), item(400, fam(f, a)), item(420, fam(f, a)), item(420, strings.Replace(f, "%", "X", 1)),
			item(400, strings.Replace(f, "%", "X", 1)), item(420, strings.Replace(f, "%", "abc", 1))}
		g.Emit("c17.ident "+modes[g.R.Intn(len(modes))]+" "+strings.Join(its, ","), "ident-every-family")
		g.Emit("c17.ident hold "+strings.Join(its, ","), "ident-every-family")
	}
	// random sequences drawn from a small pool, so that texts repeat: 2..14 replies
	randItems := func(k int) string {
		pool := []string{plain[g.R.Intn(len(plain))], plain[g.R.Intn(len(plain))], multi[g.R.Intn(len(multi))]}
		f := families[g.R.Intn(len(families))]
		for strings.HasPrefix(f, "PHONE_MIGRATE_") { // the error the client handles: c17.req
			f = families[g.R.Intn(len(families))]
		}
		pool = append(pool, fam(f, g.R.Intn(50)), fam(f, g.R.Intn(50)), strings.Replace(f, "%", "X", 1))
		switch g.R.Intn(3) {
		case 0:
			pool = append(pool, "NO_SUCH_ERROR_"+itoa(g.R.Intn(3)))
		case 1:
			t := c17RandText(g)
			if name, _, num := specSplit(t); num && name == "PHONE_MIGRATE_X" {
				t = "PHONE_MIGRATE_X"
			}
			pool = append(pool, t)
		}
		cs := []int{codes[g.R.Intn(len(codes))], codes[g.R.Intn(len(codes))], 400}
		var its []string
		for i := 0; i < k; i++ {
			its = append(its, item(cs[g.R.Intn(len(cs))], pool[g.R.Intn(len(pool))]))
		}
		return strings.Join(its, ",")
	}
	for i, n := 0, g.N(150, 6000); i < n; i++ {
		mode := append([]string{"exp", "hold", "hold", "mut", "par" + itoa(2+g.R.Intn(15))}, modes...)[g.R.Intn(5+len(modes))]
		g.Emit("c17.ident "+mode+" "+randItems(2+g.R.Intn(13)), "ident-random")
	}
	for i, n := 0, g.N(24, 600); i < n; i++ {
		g.Emit("c17.callers "+[]string{"s", "f", "r", "w"}[i%4]+" "+randItems(2+g.R.Intn(5)), "callers-random")
	}
}
