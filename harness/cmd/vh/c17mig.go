package main

// C17 — the error the client must HANDLE, through the whole request path.
//
// c17.process calls tryToProcessErr directly (verif hook). Whether makeRequest HANDS an rpc_error to it, whether
// the request is really repeated on the data centre the error names and its answer delivered, and whether the
// data-centre table a client decides by is its OWN (two clients in one process) is only visible when the real
// client runs MakeRequest against peers that speak MTProto. This file has a small scripted peer (the envelope
// of x_envelope.go, written from the protocol description; TL by hand) and three operations:
//
//	c17.req  <dcs> <code> <text>                       client connected to peer H, SetDCList(<dcs>) (id:SYM,… | "-",
//	                                                   SYM ∈ A, B: two more peers of the harness with the same auth key);
//	                                                   MakeRequest(ping). H answers every request with
//	                                                   rpc_result{rpc_error <code> <text>}, A and B answer pong.
//	c17.req2 <dcs> <code> <text> <code2> <text2>       the same, but A and B answer rpc_error <code2> <text2> (a text the
//	                                                   client does not handle): the answer of the data centre the request
//	                                                   was repeated on is what the caller gets, also when it is an error.
//	c17.two  <when> <dcsOther> <dcs> <code> <text>     c17.req for a client configured with <dcs>, while ANOTHER MTProto
//	                                                   value of the process is configured with <dcsOther>: <when> = b
//	                                                   (other created and configured before this client exists), m (other
//	                                                   created before, configured after this client was configured), a
//	                                                   (other created and configured after). The other client's table
//	                                                   must not matter.
//
// Result lines (no msg_ids, no time: deterministic):
//
//	outcome=answered by=<hex SYM> reqs=<hex SYM>:<n>,…        MakeRequest returned the pong that peer SYM sent for this ping
//	outcome=returned code=<c> msg=<hex> param=<p> reqs=…      MakeRequest returned the structured error itself
//	outcome=notfound dc=<n> code=<c> msg=<hex> param=<p> reqs=…   … a wrapped error whose cause is the structured error
//	outcome=no-return | outcome=other-error | outcome=answered-but:…   anything else
//
// reqs = how many requests (pings) each peer received, in the order H, A, B, peers with none left out.

import (
	"encoding/binary"
	"fmt"
	"io"
	"net"
	"strconv"
	"strings"
	"sync"
	"time"

	"github.com/pkg/errors"

	"github.com/xelaj/mtproto"
	"github.com/xelaj/mtproto/internal/mtproto/objects"
	"github.com/xelaj/mtproto/internal/session"
)

const (
	c17CrcPing      = 0x7abe77ec
	c17CrcPong      = 0x347773c5
	c17CrcAck       = 0x62d6b459
	c17CrcRpcResult = 0xf35c6d01
	c17CrcRpcError  = 0x2144ca19
)

func c17U32(v uint32) []byte { b := make([]byte, 4); binary.LittleEndian.PutUint32(b, v); return b }
func c17U64(v uint64) []byte { b := make([]byte, 8); binary.LittleEndian.PutUint64(b, v); return b }

// c17TLString: TL `string` (bytes): 1-byte or 0xfe+3-byte length, padded to a multiple of 4
func c17TLString(b []byte) []byte {
	var out []byte
	if len(b) < 254 {
		out = append([]byte{byte(len(b))}, b...)
	} else {
		out = append([]byte{0xfe, byte(len(b)), byte(len(b) >> 8), byte(len(b) >> 16)}, b...)
	}
	for len(out)%4 != 0 {
		out = append(out, 0)
	}
	return out
}

// c17Answer: what a peer puts into rpc_result for every request
type c17Answer struct {
	isErr bool
	code  int32
	text  []byte
	// c17.call / c17.home (c17call.go): the kind of value a peer that does not answer an error sends ("" = pong), the
	// number of elements of a vector, and the way the answer is delivered ("" = plain)
	kind  string
	n     int
	shape string
}

type c17PeerReq struct {
	mid  uint64 // the client's msg_id of the request
	ping uint64
}

// c17Peer: an MTProto 1.0 peer for a session that already has an auth key (intermediate transport).
type c17Peer struct {
	sym    string
	ln     net.Listener
	key    []byte
	answer c17Answer

	mu     sync.Mutex
	conns  []net.Conn
	nconn  int
	reqs   []c17PeerReq
	other  int // frames that are neither ping nor msgs_ack, or could not be opened
	nextID uint64
	sent   uint32

	lastSent time.Time // when the last answer was written

	// c17.callers (c17ident.go): an answer per request (by ping_id, in the order they are to be written), held back
	// until `hold` requests have arrived
	plan       []c17Planned
	hold       int
	pending    map[uint64]envMsg
	afterReply func(ping uint64) // called after the answer to this request was written (c17.callers mode w)
}

func newC17Peer(sym string, key []byte, a c17Answer) *c17Peer {
	ln, err := net.Listen("tcp", "127.0.0.1:0")
	if err != nil {
		panic(err)
	}
	p := &c17Peer{sym: sym, ln: ln, key: key, answer: a, nextID: uint64(time.Now().Unix())<<32 | 1}
	go func() {
		for {
			c, err := ln.Accept()
			if err != nil {
				return
			}
			p.mu.Lock()
			p.conns = append(p.conns, c)
			p.nconn++
			p.mu.Unlock()
			go p.serve(c)
		}
	}()
	return p
}

func (p *c17Peer) addr() string { return p.ln.Addr().String() }

func (p *c17Peer) serve(c net.Conn) {
	ann := make([]byte, 4)
	if _, err := io.ReadFull(c, ann); err != nil {
		return
	}
	for {
		hdr := make([]byte, 4)
		if _, err := io.ReadFull(c, hdr); err != nil {
			return
		}
		n := binary.LittleEndian.Uint32(hdr)
		if n > 1<<24 {
			return
		}
		pkt := make([]byte, n)
		if _, err := io.ReadFull(c, pkt); err != nil {
			return
		}
		m, why := envOpen(0, p.key, pkt, true)
		if why != "" {
			p.mu.Lock()
			p.other++
			p.mu.Unlock()
			continue
		}
		ctor := uint32(0)
		if len(m.Body) >= 4 {
			ctor = binary.LittleEndian.Uint32(m.Body)
		}
		switch {
		case ctor == c17CrcAck:
			continue
		case ctor == c17CrcPing && len(m.Body) == 12:
		default:
			p.mu.Lock()
			p.other++
			p.mu.Unlock()
			continue
		}
		ping := binary.LittleEndian.Uint64(m.Body[4:])
		p.mu.Lock()
		p.reqs = append(p.reqs, c17PeerReq{mid: m.Mid, ping: ping})
		planned := p.plan != nil
		p.mu.Unlock()
		if planned {
			// c17.callers (c17ident.go): every request has an answer of its own (by ping_id); the answers are held back
			// until `hold` requests have arrived and then written in the order of the plan
			if !p.servePlanned(c, m, ping) {
				return
			}
			continue
		}
		if !p.reply(c, m, ping, p.answer) {
			return
		}
	}
}

// reply writes rpc_result{answer} for the request m (a ping with this ping_id)
func (p *c17Peer) reply(c net.Conn, m envMsg, ping uint64, a c17Answer) bool {
	p.mu.Lock()
	p.nextID += 12 // mid-4 and mid-8 stay free for the messages inside a container (c17Shape)
	mid := p.nextID
	seq := p.sent*2 + 1 // content-related
	p.sent++
	p.mu.Unlock()
	var payload []byte
	if a.isErr {
		payload = append(append(c17U32(c17CrcRpcError), c17U32(uint32(a.code))...), c17TLString(a.text)...)
	} else {
		payload = c17ValueBytes(a.kind, a.n, m.Mid, ping)
	}
	body, seq := c17Shape(a.shape, a.isErr, m.Mid, payload, mid, seq)
	out := envSeal(8, p.key, envMsg{Salt: m.Salt, Sid: m.Sid, Mid: mid, Seq: seq, Body: body}, make([]byte, (16-(32+len(body))%16)%16))
	if _, err := c.Write(append(c17U32(uint32(len(out))), out...)); err != nil {
		return false
	}
	p.mu.Lock()
	p.lastSent = time.Now()
	p.mu.Unlock()
	return true
}

func (p *c17Peer) snapshot() (reqs []c17PeerReq, conns int) {
	p.mu.Lock()
	defer p.mu.Unlock()
	return append([]c17PeerReq{}, p.reqs...), p.nconn
}

func (p *c17Peer) stop() {
	_ = p.ln.Close()
	p.mu.Lock()
	for _, c := range p.conns {
		_ = c.Close()
	}
	p.conns = nil
	p.mu.Unlock()
}

// c17KeyedSession: a stored session with a real key, so that the client is "already encrypted" (no key exchange)
type c17KeyedSession struct {
	key  []byte
	host string
}

func (s c17KeyedSession) Load() (*session.Session, error) {
	return &session.Session{Key: append([]byte{}, s.key...), Hash: envSha1(s.key)[12:20], Salt: 1, Hostname: s.host}, nil
}
func (s c17KeyedSession) Store(*session.Session) error { return nil }

// c17ParseDcs: id:SYM,… → id → SYM (SYM ∈ A, B)
func c17ParseDcs(dcs string) ([][2]string, bool) {
	if dcs == "-" {
		return nil, true
	}
	var out [][2]string
	for _, t := range strings.Split(dcs, ",") {
		parts := strings.SplitN(t, ":", 2)
		if len(parts) != 2 || (parts[1] != "A" && parts[1] != "B") {
			return nil, false
		}
		if _, err := strconv.Atoi(parts[0]); err != nil {
			return nil, false
		}
		out = append(out, [2]string{parts[0], parts[1]})
	}
	return out, true
}

// c17WouldDialReal: the specification's reading of the operation: would a client that behaves as the property
// says connect to an address of the default list (a real Telegram address)? Such operations are refused.
func c17WouldDialReal(dcs [][2]string, text []byte) bool {
	name, n, num := specSplit(string(text))
	if !num || name != "PHONE_MIGRATE_X" {
		return false
	}
	for _, d := range dcs {
		if id, _ := strconv.ParseInt(d[0], 10, 64); id == n {
			return false
		}
	}
	_, isDefault := c17Default[n]
	return isDefault
}

var c17ReqCounter uint64

type c17ReqSpec struct {
	dcs       string
	code      int32
	text      []byte
	second    *c17Answer // what A and B answer (nil: pong)
	when      string     // "", "b", "m", "a": another client configured with dcsOther
	dcsOther  string
	wantOther bool

	// c17.call / c17.home: the kind of call and the way its answer is delivered (c17call.go)
	call  bool
	home  bool // the home peer itself answers the value (no error at all)
	kind  string
	n     int
	shape string

	// c17.hist (c17hist.go): the session store the client is given, and the history of configuration calls
	hist  bool
	store string
	calls []string
}

func c17Req(sp c17ReqSpec) string {
	c17LoadFacts()
	dcs, ok := c17ParseDcs(sp.dcs)
	if !ok {
		return "bad-op"
	}
	var dcsOther [][2]string
	if sp.wantOther {
		if dcsOther, ok = c17ParseDcs(sp.dcsOther); !ok || (sp.when != "b" && sp.when != "m" && sp.when != "a") {
			return "bad-op"
		}
	}
	// never dial a real address: neither by this client's table nor (on a tree where tables leak) by the other's
	if !sp.hist && c17WouldDialReal(dcs, sp.text) {
		return "refused:real-address"
	}
	var histCalls [][][2]string
	if sp.hist {
		if histCalls, ok = c17HistParse(sp.calls); !ok {
			return "bad-op"
		}
		if c17HistWouldDialReal(histCalls, sp.text) {
			return "refused:real-address"
		}
	}
	if sp.second != nil {
		if name, _, num := specSplit(string(sp.second.text)); num && name == "PHONE_MIGRATE_X" {
			return "bad-op" // the second answer is one the client returns, not one it handles
		}
	}
	// conversion first: on a tree where it panics no client and no listener must be left behind
	if _, e := c17Native(sp.code, sp.text); e == nil && !sp.home {
		return "not-ErrResponseCode"
	}
	key := envLCG(256, 1717)
	second := c17Answer{kind: sp.kind, n: sp.n, shape: sp.shape}
	if sp.second != nil {
		second = *sp.second
	}
	home := c17Answer{isErr: true, code: sp.code, text: sp.text, shape: sp.shape}
	if sp.home {
		home = second
	}
	peers := map[string]*c17Peer{
		"H": newC17Peer("H", key, home),
		"A": newC17Peer("A", key, second),
		"B": newC17Peer("B", key, second),
	}
	defer func() {
		for _, p := range peers {
			p.stop()
		}
	}()
	histCleanup := func() {}
	defer func() { histCleanup() }()
	table := func(d [][2]string) map[int]string {
		t := map[int]string{}
		for _, e := range d {
			t[atoi(e[0])] = peers[e[1]].addr()
		}
		return t
	}
	newClient := func() *mtproto.MTProto {
		cfg := mtproto.Config{SessionStorage: c17KeyedSession{key, peers["H"].addr()}, ServerHost: peers["H"].addr()}
		if sp.hist {
			var started, cleanup func()
			var okStore bool
			if cfg, started, cleanup, okStore = c17HistStorage(sp.store, key, peers["H"].addr()); !okStore {
				return nil
			}
			defer started()
			histCleanup = cleanup
		}
		m, err := mtproto.NewMTProto(cfg)
		if err != nil {
			return nil
		}
		return m
	}
	var other *mtproto.MTProto
	if sp.wantOther && (sp.when == "b" || sp.when == "m") {
		if other = newClient(); other == nil {
			return "setup-failed:NewMTProto"
		}
		if sp.when == "b" {
			other.SetDCList(table(dcsOther))
		}
	}
	m := newClient()
	if m == nil {
		return "setup-failed:NewMTProto"
	}
	connected := false
	if sp.hist {
		// the history of configuration calls, in order; "C" is where CreateConnection happens (at the end when absent)
		for _, call := range histCalls {
			if call == nil {
				if connected {
					return "bad-op"
				}
				if err := m.CreateConnection(); err != nil {
					return "setup-failed:CreateConnection"
				}
				connected = true
				defer func() { _ = m.Disconnect() }()
				continue
			}
			m.SetDCList(table(call))
		}
	} else {
		m.SetDCList(table(dcs))
	}
	if sp.wantOther {
		if sp.when == "a" {
			if other = newClient(); other == nil {
				return "setup-failed:NewMTProto"
			}
		}
		if sp.when != "b" {
			other.SetDCList(table(dcsOther))
		}
	}
	if !connected {
		if err := m.CreateConnection(); err != nil {
			return "setup-failed:CreateConnection"
		}
		defer func() { _ = m.Disconnect() }()
	}

	c17ReqCounter++
	ping := int64(0x17000000 + c17ReqCounter)
	type result struct {
		v   interface{}
		err error
	}
	done := make(chan result, 1)
	go func() {
		defer func() {
			if r := recover(); r != nil {
				done <- result{nil, fmt.Errorf("c17-panic-in-MakeRequest")}
			}
		}()
		var v interface{}
		var err error
		if hint := c17Hint(sp.kind); hint != nil {
			v, err = m.MakeRequestWithHintToDecoder(&objects.PingParams{PingID: ping}, hint)
		} else {
			v, err = m.MakeRequest(&objects.PingParams{PingID: ping})
		}
		done <- result{v, err}
	}()
	var res result
	start := time.Now()
waiting:
	for {
		select {
		case res = <-done:
			break waiting
		case <-time.After(20 * time.Millisecond):
		}
		// no-return: 8 s; for c17.call / c17.home also when nothing has happened for c17Quiet after the last answer
		// a peer has written (loopback: the answer is there within milliseconds)
		quiet := false
		if sp.call {
			var last time.Time
			for _, p := range peers {
				p.mu.Lock()
				if p.lastSent.After(last) {
					last = p.lastSent
				}
				p.mu.Unlock()
			}
			quiet = !last.IsZero() && time.Since(last) > c17Quiet
		}
		if quiet || time.Since(start) > 8*time.Second {
			return "outcome=no-return reqs=" + c17Reqs(peers)
		}
	}
	// let a request that is still on its way (there must be none) arrive before counting
	time.Sleep(time.Millisecond)
	reqs := c17Reqs(peers)
	if res.err == nil && sp.call {
		// which peer sent this value: the one that answers values and received a request (msg_id, ping_id) from
		// which the value returned is made
		by := ""
		for _, k := range []string{"H", "A", "B"} {
			rs, _ := peers[k].snapshot()
			for _, r := range rs {
				if !peers[k].answer.isErr && r.ping == uint64(ping) && c17ValueIs(sp.kind, sp.n, res.v, r.mid, r.ping) {
					by += k
				}
			}
		}
		if len(by) != 1 {
			return fmt.Sprintf("outcome=answered-but:not-the-answer-to-this-request(%s) reqs=%s", c17ShowValue(res.v), reqs)
		}
		return fmt.Sprintf("outcome=answered by=%s value=%s reqs=%s", hexD([]byte(by)), c17KindTok(sp.kind, sp.n), reqs)
	}
	if res.err == nil {
		pong, isPong := res.v.(*objects.Pong)
		if !isPong {
			return fmt.Sprintf("outcome=answered-but:value-is-%T reqs=%s", res.v, reqs)
		}
		// which peer sent this pong: the one that received a request with this msg_id and this ping_id
		by := ""
		for _, k := range []string{"H", "A", "B"} {
			rs, _ := peers[k].snapshot()
			for _, r := range rs {
				if !peers[k].answer.isErr && r.mid == uint64(pong.MsgID) && r.ping == uint64(pong.PingID) {
					by += k
				}
			}
		}
		if uint64(pong.PingID) != uint64(ping) || len(by) != 1 {
			return fmt.Sprintf("outcome=answered-but:not-the-answer-to-this-request(by=%s) reqs=%s", hexD([]byte(by)), reqs)
		}
		return fmt.Sprintf("outcome=answered by=%s reqs=%s", hexD([]byte(by)), reqs)
	}
	if res.err.Error() == "c17-panic-in-MakeRequest" {
		return "panic:MakeRequest"
	}
	describe := func(e *mtproto.ErrResponseCode) string {
		return fmt.Sprintf("code=%d msg=%s param=%s", e.Code, hexD([]byte(e.Message)), c17Param(e.AdditionalInfo))
	}
	if e, isE := res.err.(*mtproto.ErrResponseCode); isE {
		return "outcome=returned " + describe(e) + " reqs=" + reqs
	}
	if e, isE := errors.Cause(res.err).(*mtproto.ErrResponseCode); isE {
		// a wrapped structured error: the only wrapping the property knows is "data centre not configured"
		return fmt.Sprintf("outcome=notfound dc=%s %s reqs=%s", strings.TrimPrefix(c17Param(e.AdditionalInfo), "int:"), describe(e), reqs)
	}
	return "outcome=other-error reqs=" + reqs
}

func c17Reqs(peers map[string]*c17Peer) string {
	var out []string
	for _, k := range []string{"H", "A", "B"} {
		if rs, _ := peers[k].snapshot(); len(rs) > 0 {
			out = append(out, fmt.Sprintf("%s:%d", hexD([]byte(k)), len(rs)))
		}
	}
	return showList(out)
}

// ---- executor entry ----------------------------------------------------------------------------------

func c17MigExec(op []string) (string, bool) {
	code32 := func(s string) int32 {
		n, err := strconv.ParseInt(s, 10, 32)
		if err != nil {
			panic("bad int32 token: " + s)
		}
		return int32(n)
	}
	switch {
	case len(op) == 4 && op[0] == "c17.req":
		return c17Req(c17ReqSpec{dcs: op[1], code: code32(op[2]), text: parseBytes(op[3])}), true
	case len(op) == 6 && op[0] == "c17.req2":
		return c17Req(c17ReqSpec{dcs: op[1], code: code32(op[2]), text: parseBytes(op[3]),
			second: &c17Answer{isErr: true, code: code32(op[4]), text: parseBytes(op[5])}}), true
	case len(op) == 6 && op[0] == "c17.two":
		return c17Req(c17ReqSpec{when: op[1], dcsOther: op[2], wantOther: true, dcs: op[3], code: code32(op[4]), text: parseBytes(op[5])}), true
	case len(op) == 5 && op[0] == "c17.hist":
		return c17Req(c17ReqSpec{hist: true, store: op[1], calls: strings.Split(op[2], "/"), dcs: "-", code: code32(op[3]), text: parseBytes(op[4])}), true
	case op[0] == "c17.call" || op[0] == "c17.home":
		return c17CallExec(op), true
	}
	return "", false
}

// ---- oracle (from the property text; independent of the Lean model and of the code's tables) -----------

// c17MigJudge: "The one error handled instead of returned is PHONE_MIGRATE_X: the client reconnects to the address
// configured for data centre X and repeats the request there, or returns an error if X is not configured" — for
// every code; every other error is delivered as the structured error with the server's code.
func c17MigJudge(op []string, out string) string {
	var dcsTok, codeTok, textTok string
	var second []string
	switch op[0] {
	case "c17.req":
		dcsTok, codeTok, textTok = op[1], op[2], op[3]
	case "c17.req2":
		dcsTok, codeTok, textTok, second = op[1], op[2], op[3], op[4:6]
	case "c17.two":
		dcsTok, codeTok, textTok = op[3], op[4], op[5]
	case "c17.home":
		return c17HomeJudge(op, out)
	case "c17.call":
		if len(op) != 6 {
			return ""
		}
		dcsTok, codeTok, textTok = op[3], op[4], op[5]
	case "c17.hist":
		dcsTok, codeTok, textTok = "-", op[3], op[4]
	}
	if strings.HasPrefix(out, "setup-failed") || strings.HasPrefix(out, "refused") || out == "bad-op" {
		return ""
	}
	if strings.HasPrefix(out, "panic:") {
		return "panicked (" + out + "): every error text must be delivered as a structured error"
	}
	text := unhexS(textTok)
	configured := map[int64]string{} // this client's own table: the default list, overridden by ITS SetDCList
	for k, v := range c17Default {
		configured[k] = v
	}
	if dcs, ok := c17ParseDcs(dcsTok); ok {
		for _, d := range dcs {
			id, _ := strconv.ParseInt(d[0], 10, 64)
			configured[id] = d[1]
		}
	}
	if op[0] == "c17.hist" {
		// every SetDCList call of the history configures: a later call overrides an earlier one for the ids it names
		// and leaves the others as they were; when the connection is made does not matter
		calls, ok := c17HistParse(strings.Split(op[2], "/"))
		if !ok {
			return ""
		}
		for _, call := range calls {
			for _, d := range call {
				id, _ := strconv.ParseInt(d[0], 10, 64)
				configured[id] = d[1]
			}
		}
	}
	// what a structured error of (code, text) looks like, by the specification's families
	structured := func(code, text string) string {
		if name, n, num := specSplit(text); num {
			return fmt.Sprintf("code=%s msg=%s param=int:%d", code, hx(name), n)
		}
		return fmt.Sprintf("code=%s msg=%s param=none", code, hx(text))
	}
	want := "outcome=returned " + structured(codeTok, text) + " reqs=" + hx("H") + ":1"
	if name, n, num := specSplit(text); num && name == "PHONE_MIGRATE_X" {
		if a, ok := configured[n]; ok {
			want = fmt.Sprintf("outcome=answered by=%s reqs=%s:1,%s:1", hx(a), hx("H"), hx(a))
			if op[0] == "c17.call" { // the answer of the data centre the request was repeated at, as the kind of value the caller asked for
				want = fmt.Sprintf("outcome=answered by=%s value=%s reqs=%s:1,%s:1", hx(a), op[1], hx("H"), hx(a))
			}
			if second != nil {
				want = fmt.Sprintf("outcome=returned %s reqs=%s:1,%s:1", structured(second[0], unhexS(second[1])), hx("H"), hx(a))
			}
		} else {
			want = fmt.Sprintf("outcome=notfound dc=%d %s reqs=%s:1", n, structured(codeTok, text), hx("H"))
		}
	}
	if out == want {
		return ""
	}
	// a family beyond the specification's 15 may carry a parameter: accept a consistent X-form for returned errors
	if f, w := kvs(out), kvs(want); strings.HasPrefix(out, "outcome=returned ") && strings.HasPrefix(want, "outcome=returned ") &&
		f["code"] == w["code"] && f["reqs"] == w["reqs"] && strings.HasPrefix(f["param"], "int:") && w["param"] == "none" {
		src := text
		if second != nil && strings.Contains(want, ",") {
			src = unhexS(second[1])
		}
		if c17ConsistentX(src, unhexS(f["msg"]), strings.TrimPrefix(f["param"], "int:")) {
			return ""
		}
	}
	why := "request path: expected " + want
	if op[0] == "c17.call" {
		why = fmt.Sprintf("request path, a call whose answer is %s delivered %s: expected %s", c17KindWords(op[1]), c17ShapeWords(op[2]), want)
	}
	if op[0] == "c17.hist" {
		why = fmt.Sprintf("request path, %s, configuration calls %s: expected %s", c17HistStoreWords(op[1]), c17HistCallsWords(op[2]), want)
	}
	if op[0] == "c17.two" {
		// is the observed outcome what a client with the OTHER client's table would have done?
		if dcs, ok := c17ParseDcs(op[2]); ok {
			for _, d := range dcs {
				if name, n, num := specSplit(text); num && name == "PHONE_MIGRATE_X" && d[0] == strconv.FormatInt(n, 10) &&
					out == fmt.Sprintf("outcome=answered by=%s reqs=%s:1,%s:1", hx(d[1]), hx("H"), hx(d[1])) {
					why += " — the request went to the address that ANOTHER client of the process was configured with (SetDCList " + op[2] +
						"); this client's own data-centre table must decide"
					break
				}
			}
		}
	}
	return why
}

// ---- generator -------------------------------------------------------------------------------------------

func c17MigGen(g *G, code func() int32) {
	itoa := strconv.Itoa
	ids := []int{0, 1, 2, 3, 4, 5, 6, 7, -1, 100, 2147483647, 9223372036854775807, -9223372036854775808}
	notDefault := func(id int) int {
		for {
			if _, d := c17Default[int64(id)]; !d {
				return id
			}
			id += 1000
		}
	}
	sym := func() string { return string("AB"[g.R.Intn(2)]) }
	// every kind of code × PHONE_MIGRATE_n: configured (→ repeated there, its answer delivered), not configured
	for i, c := range c17Codes {
		id := ids[i%len(ids)]
		g.Emit(fmt.Sprintf("c17.req %d:%s %d %s", id, sym(), c, hx("PHONE_MIGRATE_"+itoa(id))), "req-migrate-every-code")
		u := notDefault(ids[(i+3)%len(ids)])
		g.Emit(fmt.Sprintf("c17.req %s %d %s", []string{"-", itoa(u+1) + ":A"}[i%2], c, hx("PHONE_MIGRATE_"+itoa(u))), "req-unconfigured-every-code")
	}
	// the ways a number can be written
	for _, w := range [][2]string{{"+4", "4"}, {"007", "7"}, {"-0", "0"}, {"00000000000000000000000000012", "12"}, {"-3", "-3"}} {
		g.Emit(fmt.Sprintf("c17.req %s:%s %d %s", w[1], sym(), code(), hx("PHONE_MIGRATE_"+w[0])), "req-number-forms")
	}
	for i, n := 0, g.N(70, 1500); i < n; i++ {
		id := ids[g.R.Intn(len(ids))]
		var dcs, text string
		tag := ""
		switch g.R.Intn(10) {
		case 0, 1, 2, 3: // configured
			s := sym()
			dcs = fmt.Sprintf("%d:%s", id, s)
			if g.R.Bool() {
				dcs += fmt.Sprintf(",%d:%s", notDefault(id/2+1000), "AB"[g.R.Intn(2):][:1])
			}
			if g.R.Intn(4) == 0 { // a later binding of the same id in one SetDCList call is not distinguishable (map): keep ids distinct
				dcs = fmt.Sprintf("%d:%s,%d:%s", notDefault(id/2+2000), sym(), id, s)
			}
			text, tag = "PHONE_MIGRATE_"+itoa(id), "req-migrate"
		case 4, 5: // not configured
			id = notDefault(id)
			dcs = []string{"-", fmt.Sprintf("%d:A", notDefault(id/2+1)), fmt.Sprintf("%d:B,%d:A", notDefault(id/2+1), notDefault(id/2-1))}[g.R.Intn(3)]
			text, tag = "PHONE_MIGRATE_"+itoa(id), "req-unconfigured"
		case 6: // not a number: returned
			dcs = "1:A,2:B"
			text = "PHONE_MIGRATE_" + c17Params[g.R.Intn(len(c17Params))]
			if _, _, num := specSplit(text); num {
				text = "PHONE_MIGRATE_X"
			}
			tag = "req-not-a-number"
		case 7: // other migrations and parameterised errors are returned although the id is configured
			dcs = fmt.Sprintf("%d:%s", id, sym())
			text = []string{"USER_MIGRATE_", "NETWORK_MIGRATE_", "FILE_MIGRATE_", "STATS_MIGRATE_", "FLOOD_WAIT_", "APHONE_MIGRATE_", "phone_migrate_"}[g.R.Intn(7)] + itoa(id)
			tag = "req-other-family"
		case 8:
			dcs = fmt.Sprintf("%d:%s", id, sym())
			text, tag = c17F.Catalogue[g.R.Intn(len(c17F.Catalogue))].Key, "req-catalogued"
		default:
			dcs = fmt.Sprintf("%d:%s", id, sym())
			text, tag = c17RandText(g), "req-random"
		}
		g.Emit(fmt.Sprintf("c17.req %s %d %s", dcs, code(), hx(text)), tag)
	}
	// the data centre the request was repeated on answers with an error of its own
	for i, n := 0, g.N(12, 300); i < n; i++ {
		id := ids[g.R.Intn(len(ids))]
		var t2 string
		switch g.R.Intn(4) {
		case 0:
			t2 = "FLOOD_WAIT_" + itoa(g.R.Intn(1000))
		case 1:
			t2 = c17F.Catalogue[g.R.Intn(len(c17F.Catalogue))].Key
		case 2:
			t2 = "USER_MIGRATE_" + itoa(id)
		default:
			t2 = c17RandText(g)
		}
		if name, _, num := specSplit(t2); num && name == "PHONE_MIGRATE_X" {
			t2 = "PHONE_MIGRATE_X"
		}
		g.Emit(fmt.Sprintf("c17.req2 %d:%s %d %s %d %s", id, sym(), code(), hx("PHONE_MIGRATE_"+itoa(id)), code(), hx(t2)), "req-second-answer-is-an-error")
	}
}

// c17TwoGen: two clients in one process: what one is configured with is not what the other decides by. Emitted
// before every other operation that configures a client, so that on a tree where the tables of different clients
// are connected the first failing inputs are these (each reproduces on its own, in a fresh process).
func c17TwoGen(g *G, code func() int32) {
	itoa := strconv.Itoa
	ids := []int{0, 1, 2, 3, 4, 5, 6, 7, -1, 100, 2147483647, 9223372036854775807, -9223372036854775808}
	notDefault := func(id int) int {
		for {
			if _, d := c17Default[int64(id)]; !d {
				return id
			}
			id += 1000
		}
	}
	sym := func() string { return string("AB"[g.R.Intn(2)]) }
	whens := []string{"b", "m", "a"}
	for i, n := 0, g.N(36, 600); i < n; i++ {
		id := ids[g.R.Intn(len(ids))]
		when := whens[i%3]
		var other, mine, tag string
		switch i / 3 % 4 {
		case 1: // only the other client knows the id
			id = notDefault(id)
			other = fmt.Sprintf("%d:%s", id, sym())
			mine = []string{"-", fmt.Sprintf("%d:A", notDefault(id/2+1))}[g.R.Intn(2)]
			tag = "two-id-only-in-the-other"
		case 0: // both know it, with different addresses
			s := g.R.Intn(2)
			other = fmt.Sprintf("%d:%s", id, "AB"[1-s:][:1])
			mine = fmt.Sprintf("%d:%s", id, "AB"[s:][:1])
			tag = "two-different-address"
		case 2: // an id of the default list, re-addressed differently for each
			var defaults []int
			for _, d := range c17F.DCs {
				defaults = append(defaults, int(d.ID))
			}
			if len(defaults) > 0 {
				id = defaults[g.R.Intn(len(defaults))]
			}
			s := g.R.Intn(2)
			other = fmt.Sprintf("%d:%s", id, "AB"[1-s:][:1])
			mine = fmt.Sprintf("%d:%s", id, "AB"[s:][:1])
			tag = "two-default-id-readdressed"
		default: // the other is configured with many ids, this one with none of them
			id = notDefault(id)
			other = fmt.Sprintf("%d:A,%d:B,%d:A", notDefault(id/2-1), id, notDefault(id/2+1))
			mine = "-"
			tag = "two-id-only-in-the-other"
		}
		g.Emit(fmt.Sprintf("c17.two %s %s %s %d %s", when, other, mine, code(), hx("PHONE_MIGRATE_"+itoa(id))), tag)
	}
}
