package main

// C15, inputs built from the SCHEMA: the mutation stage of c15.go starts from encodings made by the
// repository's own Marshal, so an input the encoder refuses to make (or never makes) is never decoded.
// Here, for EVERY registered constructor (types and functions) of schemes/api_latest.tl that has a flags
// word, well-formed encodings are written by the schema-directed writer of c13e2e.go / c13groups_build.go
// (which never calls the repository's codec): no conditional parameter present, all present, each flag bit
// alone (with every parameter conditional on it), random sets of bits; the `all` encoding also cut at word
// boundaries. Each is decoded as an unknown object and into its named type, by the real code and by the
// Lean model; Judge: a value or an error, never a panic.

import (
	"bytes"
	"fmt"
	"sort"

	"github.com/xelaj/mtproto/verifharness/internal/reg"
)

// c15SchemaInputs calls emit(id, bytes, tag) for every input of this class.
func c15SchemaInputs(g *G, emit func(id uint32, b []byte, tag string)) {
	w, err := c13Load()
	if err != nil {
		g.Extra["schema_built_inputs"] = "schema unreadable: " + err.Error()
		return
	}
	var defs []*c13Def
	for _, d := range w.s.byID {
		hasFlags := false
		for _, p := range d.pars {
			hasFlags = hasFlags || p.ty.kind == "#"
		}
		if c := reg.ByID()[d.id]; hasFlags && c != nil && c.Kind == "struct" {
			defs = append(defs, d)
		}
	}
	sort.Slice(defs, func(i, j int) bool { return defs[i].id < defs[j].id })
	built, failed := 0, 0
	var failSample []string
	for _, d := range defs {
		// the flag bits of d, in the schema's order
		var keys []string
		seen := map[string]bool{}
		for _, p := range c13gValuePars(d) {
			if p.ty.bit >= 0 && !seen[c13gKey(&p.ty)] {
				seen[c13gKey(&p.ty)] = true
				keys = append(keys, c13gKey(&p.ty))
			}
		}
		type set struct {
			tag string
			on  map[string]bool
		}
		sets := []set{{"schema-built:none", map[string]bool{}}, {"schema-built:all", seen}}
		for _, k := range keys {
			sets = append(sets, set{"schema-built:one-bit", map[string]bool{k: true}})
		}
		if len(keys) > 2 {
			for t := 0; t < g.N(2, 8); t++ {
				on := map[string]bool{}
				for _, k := range keys {
					if g.R.Bool() {
						on[k] = true
					}
				}
				sets = append(sets, set{"schema-built:some-bits", on})
			}
		}
		for _, st := range sets {
			on := st.on
			mk := &c13Mk{s: w.s, r: g.R, scal: true, vecN: -1, n: int64(g.R.Intn(1000))}
			obj, err := c13gObject(mk, d, nil, 0, c13gSpec{present: func(i int, p *c13Par) bool { return on[c13gKey(&p.ty)] }})
			var buf bytes.Buffer
			if err == nil {
				buf.Write(c13U32(d.id))
				err = c13gSerFields(w.s, d, c13Fields(obj.Elem()), &buf)
			}
			if err != nil {
				failed++
				if len(failSample) < 8 {
					failSample = append(failSample, fmt.Sprintf("%s: %v", d.name, err))
				}
				continue
			}
			built++
			b := buf.Bytes()
			emit(d.id, b, st.tag)
			if st.tag == "schema-built:all" {
				cuts := len(b) / 4
				for t := 0; t < g.N(4, cuts); t++ {
					cut := 4 * (1 + g.R.Intn(cuts))
					if g.Thorough() {
						cut = 4 * (t + 1)
					}
					if cut < len(b) {
						emit(d.id, b[:cut], "schema-built:all-truncated")
					}
				}
			}
		}
	}
	g.Extra["schema_built_constructors_with_flags"] = len(defs)
	g.Extra["schema_built_inputs"] = built
	g.Extra["schema_built_not_buildable"] = failed
	g.Extra["schema_built_not_buildable_sample"] = failSample
}
