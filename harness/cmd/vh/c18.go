package main

// C18 — the 2FA SRP answer verifies for the right password and only for it.
//
// Real code exercised: telegram.VerifSRP (hook, build tag verif: srp.getInputCheckPassword with the
// client's random bytes supplied) and the public telegram.GetInputCheckPassword.
//
// Independent oracle: an SRP *server* written here from Telegram's protocol definition
// (https://core.telegram.org/api/srp) with math/big, crypto/sha256 and an own PBKDF2 (crypto/hmac +
// crypto/sha512) — it shares no code with telegram/internal/srp. The server holds only the verifier v.
//
// Operation lines (see lean/Driver/C18.lean for the same grammar):
//   c18.srp <pw> <salt1> <salt2> <g> <p> <random> <srpB> <x|?> <v|?> <b|?>
//   c18.pub <pw> <mp|other|nil> <salt1> <salt2> <g> <p> <srpB> <srpId> <x|?> <v|?> <b|?>
//   c18.ph2 <pw> <salt1> <salt2>
//   c18.seq <c18.srp …> ; <c18.srp …> ; …      several exchanges one after the other in one process (one
//        client logging into several accounts): results joined with " ; ". Every exchange is judged as if it
//        stood alone — what an earlier exchange left behind must not change a later one.

import (
	"bytes"
	"crypto/hmac"
	"crypto/sha256"
	"crypto/sha512"
	"encoding/hex"
	"fmt"
	"math/big"
	"strconv"
	"strings"

	"github.com/xelaj/mtproto/telegram"
)

// ---- the harness's own SRP server (from the protocol definition) ---------------------------------

func c18H(parts ...[]byte) []byte {
	h := sha256.New()
	for _, p := range parts {
		h.Write(p)
	}
	return h.Sum(nil)
}

// own PBKDF2 (RFC 8018 §5.2) with HMAC-SHA-512
func c18PBKDF2(pw, salt []byte, iter, dkLen int) []byte {
	prf := hmac.New(sha512.New, pw)
	var out []byte
	for blk := 1; len(out) < dkLen; blk++ {
		prf.Reset()
		prf.Write(salt)
		prf.Write([]byte{byte(blk >> 24), byte(blk >> 16), byte(blk >> 8), byte(blk)})
		u := prf.Sum(nil)
		t := append([]byte{}, u...)
		for i := 1; i < iter; i++ {
			prf.Reset()
			prf.Write(u)
			u = prf.Sum(u[:0])
			for j := range t {
				t[j] ^= u[j]
			}
		}
		out = append(out, t...)
	}
	return out[:dkLen]
}

func c18SH(data, salt []byte) []byte { return c18H(salt, data, salt) }

var c18ph2Cache = map[string][]byte{}

// PH2(password, salt1, salt2) := SH(pbkdf2(sha512, PH1(password, salt1, salt2), salt1, 100000), salt2)
func c18PH2(pw, s1, s2 []byte) []byte {
	key := hex.EncodeToString(pw) + "|" + hex.EncodeToString(s1) + "|" + hex.EncodeToString(s2)
	if v, ok := c18ph2Cache[key]; ok {
		return v
	}
	ph1 := c18SH(c18SH(pw, s1), s2)
	v := c18SH(c18PBKDF2(ph1, s1, 100000, 64), s2)
	c18ph2Cache[key] = v
	return v
}

// 256-byte big-endian form (the low 256 bytes if the number is larger — never for p < 2^2048)
func c18Pad(n *big.Int) []byte {
	b := n.Bytes()
	if len(b) >= 256 {
		return b[len(b)-256:]
	}
	out := make([]byte, 256)
	copy(out[256-len(b):], b)
	return out
}

type c18Server struct {
	s1, s2, pB []byte
	g          *big.Int
	p, v       *big.Int
}

func (s *c18Server) k() *big.Int { return new(big.Int).SetBytes(c18H(s.pB, c18Pad(s.g))) }

// B = (k·v + g^b) mod p
func (s *c18Server) B(b *big.Int) *big.Int {
	if s.p.Sign() == 0 {
		return new(big.Int)
	}
	gb := new(big.Int).Exp(s.g, b, s.p)
	kv := new(big.Int).Mul(s.k(), s.v)
	return kv.Add(kv, gb).Mod(kv, s.p)
}

// accept iff A is 256 bytes and M1 = H(H(p) xor H(g) | H(s1) | H(s2) | A | B | H(S')), S' = (A·v^u)^b mod p
func (s *c18Server) accepts(b *big.Int, aBytes, m1 []byte) bool {
	if len(aBytes) != 256 || s.p.Sign() == 0 {
		return false
	}
	A := new(big.Int).SetBytes(aBytes)
	gaB := c18Pad(A)
	gbB := c18Pad(s.B(b))
	u := new(big.Int).SetBytes(c18H(gaB, gbB))
	vu := new(big.Int).Exp(s.v, u, s.p)
	base := vu.Mul(vu, A)
	S := new(big.Int).Exp(base, b, s.p)
	K := c18H(c18Pad(S))
	hp, hg := c18H(s.pB), c18H(c18Pad(s.g))
	x := make([]byte, len(hp))
	for i := range x {
		x[i] = hp[i] ^ hg[i]
	}
	want := c18H(x, c18H(s.s1), c18H(s.s2), gaB, gbB, K)
	return bytes.Equal(want, m1)
}

// ---- op parsing ----------------------------------------------------------------------------------

type c18Args struct {
	pw, s1, s2, pB, random, srpB []byte
	g                            int64
	kind                         string
	srpID                        int64
	hasSrv                       bool
	v, b                         *big.Int
}

func c18Opt(s string) ([]byte, bool) {
	if s == "?" {
		return nil, false
	}
	return parseBytes(s), true
}

func c18Parse(op []string) (*c18Args, bool) {
	a := &c18Args{}
	var vt, bt string
	switch {
	case len(op) == 11 && op[0] == "c18.srp":
		a.pw, a.s1, a.s2 = parseBytes(op[1]), parseBytes(op[2]), parseBytes(op[3])
		g, err := strconv.ParseInt(op[4], 10, 32)
		if err != nil || g < 0 {
			return nil, false
		}
		a.g = g
		a.pB, a.random, a.srpB = parseBytes(op[5]), parseBytes(op[6]), parseBytes(op[7])
		vt, bt = op[9], op[10]
		a.kind = "mp"
	case len(op) == 12 && op[0] == "c18.pub":
		a.pw, a.kind, a.s1, a.s2 = parseBytes(op[1]), op[2], parseBytes(op[3]), parseBytes(op[4])
		if a.kind != "mp" && a.kind != "other" && a.kind != "nil" {
			return nil, false
		}
		g, err := strconv.ParseInt(op[5], 10, 32)
		if err != nil || g < 0 {
			return nil, false
		}
		a.g = g
		a.pB, a.srpB = parseBytes(op[6]), parseBytes(op[7])
		id, err := strconv.ParseInt(op[8], 10, 64)
		if err != nil {
			return nil, false
		}
		a.srpID = id
		vt, bt = op[10], op[11]
	default:
		return nil, false
	}
	vb, okv := c18Opt(vt)
	bb, okb := c18Opt(bt)
	if okv != okb {
		return nil, false
	}
	if okv {
		a.hasSrv = true
		a.v, a.b = new(big.Int).SetBytes(vb), new(big.Int).SetBytes(bb)
	}
	return a, true
}

func (a *c18Args) server() *c18Server {
	return &c18Server{s1: a.s1, s2: a.s2, pB: a.pB, g: big.NewInt(a.g), p: new(big.Int).SetBytes(a.pB), v: a.v}
}

func c18Err(err error) string {
	s := err.Error()
	switch {
	case strings.Contains(s, "invalid CurrentAlgo type"):
		return "err:algo"
	case strings.Contains(s, "receive invalid value of B"):
		return "err:invalidB"
	case strings.Contains(s, "receive invalid config g"):
		return "err:invalidG"
	}
	return "err:other"
}

func (a *c18Args) sameB() string {
	if new(big.Int).SetBytes(a.srpB).Cmp(a.server().B(a.b)) == 0 {
		return "same"
	}
	return "other"
}

func (a *c18Args) verdict(ga, m1 []byte) string {
	acc := "reject"
	if a.server().accepts(a.b, ga, m1) {
		acc = "accept"
	}
	return " B=" + a.sameB() + " srv=" + acc
}

// ---- the caller's memory and the rest of the account record --------------------------------------
//
// The property speaks of values ("for every password, pair of salts, group parameters, server value");
// where the caller keeps them is not part of it. A TL decoder gives every field its own exactly-sized
// array, but a caller may as well hold the whole record in one buffer and hand out sub-slices — then
// every field has spare capacity and the bytes behind it are the next field. Code that appends to, or
// writes through, one of its arguments is right for the first caller and wrong for the second. So the
// byte-string inputs of an exchange are placed in memory in a layout that is a function of the
// operation line (c18Layout: own exact arrays / own arrays with spare room / one backing array in
// every order, adjacent or with gaps), the same on every run and replay, and after the call all of that
// memory — fields, gaps, spare room — must be what it was.
//
// Likewise the public wrapper is given an AccountPassword whose OTHER fields (has_recovery, hint,
// email_unconfirmed_pattern, new_algo, secure_random, …) are populated as a function of the operation
// line: the answer must depend on the password, current_algo, srp_B and srp_id only.

type c18Mem struct {
	arrays, snaps [][]byte
	desc          string
}

func (m *c18Mem) own(b []byte) {
	m.arrays = append(m.arrays, b)
	m.snaps = append(m.snaps, append([]byte{}, b...))
}

func (m *c18Mem) changed() bool {
	for i, a := range m.arrays {
		if !bytes.Equal(a, m.snaps[i]) {
			return true
		}
	}
	return false
}

func c18OpHash(op []string) uint32 { return fnv32([]byte(strings.Join(op, " "))) }

// c18Layout places copies of the named fields in fresh caller memory and points the fields at them.
func c18Layout(h uint32, names []string, fields []*[]byte) *c18Mem {
	r := NewRand(uint64(h) ^ 0xc18a)
	m := &c18Mem{}
	guard := func(n int) []byte { return bytes.Repeat([]byte{0xEE}, n) }
	switch kind := h % 6; kind {
	case 0:
		for _, f := range fields {
			b := append(make([]byte, 0, len(*f)), *f...)
			*f = b
			m.own(b)
		}
		m.desc = "every field in its own exactly-sized array"
	case 1:
		for _, f := range fields {
			n := len(*f)
			arr := append(append(make([]byte, 0, n+96), *f...), guard(96)...)
			*f = arr[:n]
			m.own(arr)
		}
		m.desc = "every field in its own array with 96 bytes of spare capacity behind it"
	default:
		order := make([]int, len(fields))
		for i := range order {
			order[i] = i
		}
		for i := len(order) - 1; i > 0; i-- {
			j := r.Intn(i + 1)
			order[i], order[j] = order[j], order[i]
		}
		gap := 0
		if kind == 5 {
			gap = 1 + r.Intn(48)
		}
		var arr []byte
		offs := make([]int, len(fields))
		for _, i := range order {
			offs[i] = len(arr)
			arr = append(arr, *fields[i]...)
			arr = append(arr, guard(gap)...)
		}
		arr = append(arr, guard(64)...)
		arr = append(make([]byte, 0, len(arr)), arr...)
		var parts []string
		for _, i := range order {
			*fields[i] = arr[offs[i] : offs[i]+len(*fields[i])]
			parts = append(parts, fmt.Sprintf("%s[%d]", names[i], len(*fields[i])))
		}
		m.own(arr)
		m.desc = fmt.Sprintf("all fields sub-slices of ONE backing array, in the order %s, %d bytes between neighbours, 64 spare bytes at the end", strings.Join(parts, "|"), gap)
	}
	return m
}

// c18Record fills the fields of the account record that the SRP answer does not depend on.
func c18Record(h uint32, ap *telegram.AccountPassword) string {
	if (h>>8)%4 == 0 {
		return "other fields of the record: has_password only"
	}
	r := NewRand(uint64(h) ^ 0xacc0)
	var d []string
	if ap.HasRecovery = r.Bool(); ap.HasRecovery {
		d = append(d, "has_recovery")
	}
	if ap.HasSecureValues = r.Bool(); ap.HasSecureValues {
		d = append(d, "has_secure_values")
	}
	if ap.HasPassword = r.Intn(4) != 0; !ap.HasPassword {
		d = append(d, "has_password=false")
	}
	if r.Bool() {
		ap.Hint = []string{"hint", "пароль как всегда", "x"}[r.Intn(3)]
		d = append(d, "hint")
	}
	if r.Bool() {
		ap.EmailUnconfirmedPattern = []string{"j***@e***.com", "*@*", "a"}[r.Intn(3)]
		d = append(d, "email_unconfirmed_pattern")
	}
	switch r.Intn(3) {
	case 1:
		ap.NewAlgo = &telegram.PasswordKdfAlgoSHA256SHA256PBKDF2HMACSHA512iter100000SHA256ModPow{
			Salt1: r.Bytes(8), Salt2: r.Bytes(16), G: 3, P: r.Bytes(256)}
		d = append(d, "new_algo=modpow")
	case 2:
		ap.NewAlgo = &telegram.PasswordKdfAlgoUnknown{}
		d = append(d, "new_algo=unknown")
	}
	switch r.Intn(4) {
	case 1:
		ap.NewSecureAlgo = &telegram.SecurePasswordKdfAlgoPbkdf2Hmacsha512Iter100000{Salt: r.Bytes(8)}
		d = append(d, "new_secure_algo=pbkdf2")
	case 2:
		ap.NewSecureAlgo = &telegram.SecurePasswordKdfAlgoSHA512{Salt: r.Bytes(8)}
		d = append(d, "new_secure_algo=sha512")
	case 3:
		ap.NewSecureAlgo = &telegram.SecurePasswordKdfAlgoUnknown{}
		d = append(d, "new_secure_algo=unknown")
	}
	if r.Bool() {
		ap.SecureRandom = r.Bytes(256)
		d = append(d, "secure_random")
	}
	if len(d) == 0 {
		return "other fields of the record: has_password only"
	}
	return "other fields of the record set: " + strings.Join(d, ", ")
}

// c18Setting: the layout (and, for c18.pub, the record) of one operation, in words — for the oracle's report
func c18Setting(op []string) string {
	a, ok := c18Parse(op)
	if !ok {
		return ""
	}
	h := c18OpHash(op)
	if op[0] == "c18.srp" {
		return c18Layout(h, c18SrpNames, []*[]byte{&a.s1, &a.s2, &a.pB, &a.srpB, &a.random}).desc
	}
	d := c18Record(h, &telegram.AccountPassword{})
	if a.kind == "mp" {
		d = c18Layout(h, c18PubNames, []*[]byte{&a.s1, &a.s2, &a.pB, &a.srpB}).desc + "; " + d
	}
	return d
}

var c18SrpNames = []string{"salt1", "salt2", "p", "srp_B", "random"}
var c18PubNames = []string{"salt1", "salt2", "p", "srp_B"}

// ---- executor: the real code ---------------------------------------------------------------------

// c18Split: the exchanges of a c18.seq line
func c18Split(op []string) [][]string {
	var out [][]string
	cur := []string{}
	for _, t := range op[1:] {
		if t == ";" {
			out = append(out, cur)
			cur = []string{}
			continue
		}
		cur = append(cur, t)
	}
	return append(out, cur)
}

// c18CurMem: the caller memory of the exchange being executed (set once the real code has returned)
var c18CurMem *c18Mem

const c18Changed = "caller-buffer-changed; the call answered: "

func c18Exec(op []string) string {
	c18CurMem = nil
	out := c18ExecOne(op)
	if c18CurMem != nil && c18CurMem.changed() && (len(op) == 0 || op[0] != "c18.seq") {
		c18CurMem = nil
		return c18Changed + out
	}
	return out
}

func c18ExecOne(op []string) string {
	if len(op) > 0 && op[0] == "c18.seq" {
		var outs []string
		for _, sub := range c18Split(op) {
			if len(sub) == 0 || sub[0] == "c18.seq" {
				return "bad-op"
			}
			outs = append(outs, safeExec(&Prop{Exec: c18Exec}, sub))
		}
		return strings.Join(outs, " ; ")
	}
	if len(op) == 4 && op[0] == "c18.ph2" {
		// the repository exposes no PH2 entry point; this op compares the Lean KDF with the harness's
		return hex.EncodeToString(c18PH2(parseBytes(op[1]), parseBytes(op[2]), parseBytes(op[3])))
	}
	a, ok := c18Parse(op)
	if !ok {
		return "bad-op"
	}
	h := c18OpHash(op)
	if op[0] == "c18.srp" {
		// the real code gets its own placement of the inputs (m); a keeps the values for the server
		s1, s2, pB, srpB, random := a.s1, a.s2, a.pB, a.srpB, a.random
		m := c18Layout(h, c18SrpNames, []*[]byte{&s1, &s2, &pB, &srpB, &random})
		ga, m1, err := telegram.VerifSRP(string(a.pw), srpB, s1, s2, int32(a.g), pB, random)
		c18CurMem = m
		switch {
		case err != nil:
			e := c18Err(err)
			if a.hasSrv {
				e += " B=" + a.sameB() + " srv=-"
			}
			return e
		case ga == nil && m1 == nil:
			if a.hasSrv {
				return "none B=" + a.sameB() + " srv=-"
			}
			return "none"
		}
		out := "ok ga=" + hexD(ga) + " m1=" + hexD(m1)
		if a.hasSrv {
			out += a.verdict(ga, m1)
		}
		return out
	}
	// c18.pub
	s1, s2, pB, srpB := a.s1, a.s2, a.pB, a.srpB
	m := &c18Mem{}
	if a.kind == "mp" {
		m = c18Layout(h, c18PubNames, []*[]byte{&s1, &s2, &pB, &srpB})
	}
	ap := &telegram.AccountPassword{HasPassword: true, SRPB: srpB, SRPID: a.srpID}
	c18Record(h, ap)
	switch a.kind {
	case "mp":
		ap.CurrentAlgo = &telegram.PasswordKdfAlgoSHA256SHA256PBKDF2HMACSHA512iter100000SHA256ModPow{
			Salt1: s1, Salt2: s2, G: int32(a.g), P: pB}
	case "other":
		ap.CurrentAlgo = &telegram.PasswordKdfAlgoUnknown{}
	case "nil":
		ap.CurrentAlgo = nil
	}
	res, err := telegram.GetInputCheckPassword(string(a.pw), ap)
	c18CurMem = m
	if err != nil {
		e := c18Err(err)
		if e == "err:invalidB" || e == "err:invalidG" || e == "err:other" {
			if strings.Contains(err.Error(), "processing password") {
				return "err:processing"
			}
		}
		return e
	}
	switch r := res.(type) {
	case *telegram.InputCheckPasswordEmpty:
		return "empty"
	case *telegram.InputCheckPasswordSRPObj:
		out := fmt.Sprintf("obj srpid=%d alen=%d m1len=%d", r.SRPID, len(r.A), len(r.M1))
		if a.hasSrv {
			out += a.verdict(r.A, r.M1)
		}
		return out
	}
	return fmt.Sprintf("unexpected:%T", res)
}

// ---- judge: the property on the real code's result, by the harness's own server -------------------

func c18Judge(op []string, out string) string {
	why := c18Judge1(op, out)
	if why != "" && len(op) > 0 && op[0] != "c18.seq" {
		if d := c18Setting(op); d != "" {
			why += " [caller memory: " + d + "]"
		}
	}
	return why
}

func c18Judge1(op []string, out string) string {
	if len(op) > 0 && op[0] == "c18.seq" {
		subs, outs := c18Split(op), strings.Split(out, " ; ")
		if out == "bad-op" {
			return ""
		}
		if len(subs) != len(outs) {
			return "a sequence of " + strconv.Itoa(len(subs)) + " exchanges gave " + strconv.Itoa(len(outs)) + " results"
		}
		for i, sub := range subs {
			if why := c18Judge(sub, outs[i]); why != "" {
				prev := []string{}
				for _, q := range subs[:i] {
					if len(q) > 3 {
						prev = append(prev, "("+q[1]+","+q[2]+","+q[3]+")")
					}
				}
				return fmt.Sprintf("exchange %d of %d in one process, (password,salt1,salt2) = (%s,%s,%s), after the exchanges for %s: %s",
					i+1, len(subs), sub[1], sub[2], sub[3], strings.Join(prev, " "), why)
			}
		}
		return ""
	}
	if len(op) > 0 && op[0] == "c18.ph2" {
		return ""
	}
	a, ok := c18Parse(op)
	if !ok {
		return ""
	}
	if strings.HasPrefix(out, "panic:") {
		return "the SRP computation panicked: " + out
	}
	if strings.HasPrefix(out, c18Changed) {
		why := "the caller's memory that holds the inputs (fields, the room between and behind them) was written to by the call"
		rest := out[len(c18Changed):]
		if w := c18Judge1(op, rest); w != "" {
			why += "; and its answer (" + strings.SplitN(rest, " ", 2)[0] + " …) is wrong: " + w
		}
		return why
	}
	pub := op[0] == "c18.pub"
	if pub && a.kind != "mp" {
		if out != "err:algo" {
			return "a foreign CurrentAlgo must be refused with an error, got " + clip(out)
		}
		return ""
	}
	first := strings.Fields(out)
	if len(first) == 0 {
		return "empty result"
	}
	// empty password ⇒ the 'no password' answer
	if len(a.pw) == 0 {
		want := "none"
		if pub {
			want = "empty"
		}
		if first[0] != want {
			return "empty password must yield the 'no password' answer, got " + clip(out)
		}
		return ""
	}
	// out-of-range server value ⇒ refused
	p := new(big.Int).SetBytes(a.pB)
	B := new(big.Int).SetBytes(a.srpB)
	bad := B.Sign() <= 0 || B.Cmp(p) >= 0 || len(a.srpB) < 248 || len(a.srpB) > 256
	if bad {
		want := "err:invalidB"
		if pub {
			want = "err:processing"
		}
		if first[0] != want {
			return "out-of-range srp_B (0, >= p, shorter than 248 or longer than 256 bytes) must be refused, got " + clip(out)
		}
		return ""
	}
	if p.BitLen() > 2048 {
		return "" // outside the property: no 2048-bit padding can be right for a larger group
	}
	want := "ok"
	if pub {
		want = "obj"
	}
	if first[0] != want {
		return "a valid srp_B and a non-empty password must yield an SRP answer, got " + clip(out)
	}
	kv := map[string]string{}
	for _, t := range first[1:] {
		if i := strings.IndexByte(t, '='); i > 0 {
			kv[t[:i]] = t[i+1:]
		}
	}
	var ga, m1 []byte
	if pub {
		if kv["srpid"] != strconv.FormatInt(a.srpID, 10) {
			return "the answer must carry the account's SRPID " + strconv.FormatInt(a.srpID, 10) + ", got " + kv["srpid"]
		}
		if kv["alen"] != "256" || kv["m1len"] != "32" {
			return "A must be 256 bytes and M1 32 bytes, got " + clip(out)
		}
	} else {
		ga, m1 = parseBytes(kv["ga"]), parseBytes(kv["m1"])
		if len(ga) != 256 || len(m1) != 32 {
			return fmt.Sprintf("A must be 256 bytes and M1 32 bytes, got %d and %d", len(ga), len(m1))
		}
		wantA := c18Pad(new(big.Int).Exp(big.NewInt(a.g), new(big.Int).SetBytes(a.random), p))
		if !bytes.Equal(ga, wantA) {
			return "A is not g^a mod p in 256 bytes"
		}
	}
	if !a.hasSrv {
		return ""
	}
	srv := a.server()
	if B.Cmp(srv.B(a.b)) != 0 {
		return "" // not this server's B: nothing to expect from the server
	}
	var accepted bool
	if pub {
		accepted = kv["srv"] == "accept" // computed in Exec by the same server on the real (A, M1)
	} else {
		accepted = srv.accepts(a.b, ga, m1)
	}
	// the server holds v only: the right password is any password whose verifier is v
	x := new(big.Int).SetBytes(c18PH2(a.pw, a.s1, a.s2))
	right := new(big.Int).Exp(big.NewInt(a.g), x, p).Cmp(a.v) == 0
	switch {
	case right && !accepted:
		return "the answer computed for the RIGHT password is rejected by a server following Telegram's SRP definition"
	case !right && accepted && p.BitLen() >= 1024:
		// on a toy group a different verifier can still reach the same session secret by chance (the
		// residual discrete-log clause); rejection is demanded on groups of cryptographic size only
		return "the answer computed for a WRONG password is accepted by the server"
	}
	return ""
}

// ---- generator -----------------------------------------------------------------------------------

const c18TgPrime = "C71CAEB9C6B1C9048E6C522F70F13F73980D40238E3E21C14934D037563D930F" +
	"48198A0AA7C14058229493D22530F4DBFA336F6E0AC925139543AED44CCE7C37" +
	"20FD51F69458705AC68CD4FE6B6B13ABDC9746512969328454F18FAF8C595F64" +
	"2477FE96BB2A941D5BCD1D4AC8CC49880708FA9B378E3C4F3A9060BEE67CF9A4" +
	"A4A695811051907E162753B56B0F6B410DBA74D8A84B2A14B3144E0EF1284754" +
	"FD17ED950D5965B4B9DD46582DB1178D169C6BC465B0D6FF9CA3928FEF5B9AE4" +
	"E418FC15E83EBEA0F87FA9FF5EED70050DED2849F47BF959D956850CE929851F" +
	"0D8115F635B105EE2E4E15D04B2454BF6F4FADF034B10403119CD8E3B92FCC5B"

type c18Triple struct {
	pw, s1, s2 []byte
	name       string
}

type c18Group struct {
	pB   []byte
	g    int64
	name string
}

func c18HexN(n *big.Int) string { return hexD(n.Bytes()) }

type c18Gen struct {
	g       *G
	collect *[]string // when set, emitSrp appends its line here instead of emitting it (c18.seq)
}

// leadingZeros of the 256-byte form
func c18LZ(b []byte) int {
	n := 0
	for n < len(b) && b[n] == 0 {
		n++
	}
	return n
}

func (c *c18Gen) randNum(nbytes int) *big.Int { return new(big.Int).SetBytes(c.g.R.Bytes(nbytes)) }

// emitSrp writes one c18.srp line. xTok "?" lets the Lean driver compute PH2 itself.
func (c *c18Gen) emitSrp(t c18Triple, gr c18Group, random, srpB []byte, xKnown bool, v, b *big.Int, tags ...string) {
	xTok := "?"
	if xKnown {
		xTok = hexD(c18PH2(t.pw, t.s1, t.s2))
	}
	vt, bt := "?", "?"
	if v != nil {
		vt, bt = c18HexN(v), c18HexN(b)
	}
	line := fmt.Sprintf("c18.srp %s %s %s %d %s %s %s %s %s %s", hexD(t.pw), hexD(t.s1), hexD(t.s2), gr.g,
		hexD(gr.pB), hexD(random), hexD(srpB), xTok, vt, bt)
	if c.collect != nil {
		*c.collect = append(*c.collect, line)
		return
	}
	c.g.Emit(line, append(tags, "group:"+gr.name, "pw:"+t.name)...)
}

// sameConcat: triples whose bytes password|salt1|salt2 are those of t, with the two boundaries elsewhere —
// different accounts and passwords for the server (PH2 salts by position), one and the same string for
// anything that forgets where the parts end.
func (c *c18Gen) sameConcat(t c18Triple) []c18Triple {
	r := c.g.R
	cp := func(parts ...[]byte) []byte { return bytes.Join(parts, nil) }
	var out []c18Triple
	if n := len(t.s1); n > 0 {
		k := 1 + r.Intn(min(n, 3))
		out = append(out, c18Triple{cp(t.pw, t.s1[:k]), cp(t.s1[k:]), t.s2, "shift:pw<-salt1"})
		out = append(out, c18Triple{cp(t.pw, t.s1), []byte{}, t.s2, "shift:pw<-all-of-salt1"})
		k = 1 + r.Intn(min(n, 3))
		out = append(out, c18Triple{t.pw, cp(t.s1[:n-k]), cp(t.s1[n-k:], t.s2), "shift:salt1->salt2"})
	}
	if n := len(t.pw); n > 1 {
		k := 1 + r.Intn(min(n-1, 3))
		out = append(out, c18Triple{cp(t.pw[:n-k]), cp(t.pw[n-k:], t.s1), t.s2, "shift:pw->salt1"})
	}
	if n := len(t.s2); n > 0 {
		k := 1 + r.Intn(min(n, 3))
		out = append(out, c18Triple{t.pw, cp(t.s1, t.s2[:k]), cp(t.s2[k:]), "shift:salt1<-salt2"})
	}
	return out
}

// sequence: honest exchanges for t and then for every triple of sameConcat(t), in one operation
func (c *c18Gen) sequence(t c18Triple, gr c18Group) {
	var lines []string
	c.collect = &lines
	c.honest(t, gr, c.g.R.Bytes(256), c.randNum(256), true)
	for _, v := range c.sameConcat(t) {
		c.honest(v, gr, c.g.R.Bytes(256), c.randNum(256), true)
	}
	c.collect = nil
	c.g.Emit("c18.seq "+strings.Join(lines, " ; "), "sequence", "sequence:same-concatenation-other-boundaries", "group:"+gr.name)
}

func (c *c18Gen) emitPub(t c18Triple, kind string, gr c18Group, srpB []byte, id int64, v, b *big.Int, tags ...string) {
	xTok := "?"
	if len(t.pw) > 0 && kind == "mp" {
		xTok = hexD(c18PH2(t.pw, t.s1, t.s2))
	}
	vt, bt := "?", "?"
	if v != nil {
		vt, bt = c18HexN(v), c18HexN(b)
	}
	c.g.Emit(fmt.Sprintf("c18.pub %s %s %s %s %d %s %s %d %s %s %s", hexD(t.pw), kind, hexD(t.s1), hexD(t.s2), gr.g,
		hexD(gr.pB), hexD(srpB), id, xTok, vt, bt), append(tags, "pub", "group:"+gr.name)...)
}

func c18Verifier(t c18Triple, gr c18Group) *big.Int {
	p := new(big.Int).SetBytes(gr.pB)
	if p.Sign() == 0 {
		return new(big.Int)
	}
	x := new(big.Int).SetBytes(c18PH2(t.pw, t.s1, t.s2))
	return new(big.Int).Exp(big.NewInt(gr.g), x, p)
}

func c18Srv(t c18Triple, gr c18Group) *c18Server {
	return &c18Server{s1: t.s1, s2: t.s2, pB: gr.pB, g: big.NewInt(gr.g), p: new(big.Int).SetBytes(gr.pB), v: c18Verifier(t, gr)}
}

// honest exchange: B from the harness server for secret b (re-drawn while B = 0)
func (c *c18Gen) honest(t c18Triple, gr c18Group, random []byte, b *big.Int, xKnown bool, tags ...string) {
	srv := c18Srv(t, gr)
	B := srv.B(b)
	for i := 0; B.Sign() == 0; i++ {
		if i == 40 { // degenerate group (g ≡ 0, p = 2, …): this server can only produce B = 0
			c.emitSrp(t, gr, random, c18Pad(B), xKnown, srv.v, b, append(tags, "honest-but-B=0")...)
			return
		}
		b = new(big.Int).Add(b, big.NewInt(1))
		B = srv.B(b)
	}
	c.emitSrp(t, gr, random, c18Pad(B), xKnown, srv.v, b, append(tags, "honest")...)
}

// search a (as a 256-byte string) such that the 256-byte form of g^a mod p starts with `want` zero bytes,
// stepping a ← a+1 (one modular multiplication per try)
func (c *c18Gen) searchA(gr c18Group, want int, limit int) []byte {
	p := new(big.Int).SetBytes(gr.pB)
	g := big.NewInt(gr.g)
	a := c.randNum(255)
	A := new(big.Int).Exp(g, a, p)
	one := big.NewInt(1)
	for i := 0; i < limit; i++ {
		if c18LZ(c18Pad(A)) >= want && A.Sign() > 0 {
			return c18Pad(a)
		}
		a.Add(a, one)
		A.Mul(A, g).Mod(A, p)
	}
	return nil
}

// search b such that B = (k·v + g^b) mod p starts with `want` zero bytes
func (c *c18Gen) searchB(srv *c18Server, want int, limit int) *big.Int {
	b := c.randNum(255)
	gb := new(big.Int).Exp(srv.g, b, srv.p)
	kv := new(big.Int).Mul(srv.k(), srv.v)
	kv.Mod(kv, srv.p)
	one := big.NewInt(1)
	B := new(big.Int)
	for i := 0; i < limit; i++ {
		B.Add(kv, gb).Mod(B, srv.p)
		if c18LZ(c18Pad(B)) >= want && B.Sign() > 0 {
			return b
		}
		b.Add(b, one)
		gb.Mul(gb, srv.g).Mod(gb, srv.p)
	}
	return nil
}

// search a such that u = H(pad A | pad B) starts with `want` zero bytes
func (c *c18Gen) searchU(gr c18Group, Bpad []byte, want int, limit int) []byte {
	p := new(big.Int).SetBytes(gr.pB)
	g := big.NewInt(gr.g)
	a := c.randNum(255)
	A := new(big.Int).Exp(g, a, p)
	one := big.NewInt(1)
	for i := 0; i < limit; i++ {
		if c18LZ(c18H(c18Pad(A), Bpad)) >= want {
			return c18Pad(a)
		}
		a.Add(a, one)
		A.Mul(A, g).Mod(A, p)
	}
	return nil
}

// search a such that the session secret S = (g^b)^(a+u·x) mod p starts with a zero byte
func (c *c18Gen) searchS(t c18Triple, gr c18Group, b *big.Int, Bpad []byte, want int, limit int) []byte {
	p := new(big.Int).SetBytes(gr.pB)
	g := big.NewInt(gr.g)
	x := new(big.Int).SetBytes(c18PH2(t.pw, t.s1, t.s2))
	gb := new(big.Int).Exp(g, b, p)
	for i := 0; i < limit; i++ {
		a := c.randNum(256)
		A := new(big.Int).Exp(g, a, p)
		u := new(big.Int).SetBytes(c18H(c18Pad(A), Bpad))
		e := u.Mul(u, x).Add(u, a)
		S := new(big.Int).Exp(gb, e, p)
		if c18LZ(c18Pad(S)) >= want {
			return c18Pad(a)
		}
	}
	return nil
}

func c18Gen_(g *G) {
	defer func() {
		// non-empty password, modulus 0 or 1: every B is out of range
		c := &c18Gen{g: g}
		t := c18Triple{[]byte("123123"), []byte{1, 2, 3}, []byte{4}, "ascii"}
		for _, pb := range [][]byte{{}, {0}, {0, 0}, {1}} {
			for _, sb := range [][]byte{c18Pad(big.NewInt(5)), make([]byte, 256), {}} {
				c.emitSrp(t, c18Group{pb, 3, "p<2"}, g.R.Bytes(256), sb, true, nil, nil, "badB:p<2")
			}
		}
	}()
	c := &c18Gen{g: g}
	tgP, _ := hex.DecodeString(c18TgPrime)

	long := bytes.Repeat([]byte("correct horse battery staple "), 12) // 348 bytes
	triples := []c18Triple{
		{[]byte("123123"), parseBytes("4D11FB6BEC38F9D2546BB0F61E4F1C99A1BC0DB8F0D5F35B1291B37B213123D7ED48F3C6794D495B"),
			parseBytes("A1B181AAFE88188680AE32860D60BB01"), "ascii"},
		{[]byte("пароль🔑 Ünïcødé 密码"), g.R.Bytes(8), g.R.Bytes(32), "unicode"},
		{long, g.R.Bytes(100), []byte{}, "long"},
		{[]byte{0xff, 0x00, 0x80, 0x20}, []byte{}, g.R.Bytes(8), "nonutf8"},
	}
	if g.Thorough() {
		lens := []int{0, 8, 32, 100, 1, 16, 40, 64}
		for i := 0; len(triples) < 24; i++ {
			var pw []byte
			switch i % 5 {
			case 0:
				pw = []byte(fmt.Sprintf("pässwörd-%d-✓", i))
			case 1:
				pw = g.R.Bytes(1 + g.R.Intn(40))
			case 2:
				pw = []byte(strings.Repeat("長い", 1+g.R.Intn(100)))
			case 3:
				pw = []byte{byte(1 + g.R.Intn(255))}
			case 4:
				pw = []byte(" 123123 "[:1+g.R.Intn(7)])
			}
			triples = append(triples, c18Triple{pw, g.R.Bytes(lens[g.R.Intn(len(lens))]), g.R.Bytes(lens[g.R.Intn(len(lens))]), "gen"})
		}
	}

	// groups: Telegram's 2048-bit prime with every allowed g; odd moduli of other sizes (the agreement is
	// modular arithmetic and does not need a prime); toy primes; p written with leading zero bytes
	var tg []c18Group
	for _, gg := range []int64{2, 3, 4, 5, 6, 7} {
		tg = append(tg, c18Group{tgP, gg, "tg2048"})
	}
	oddMod := func(bits int) []byte {
		n := (bits + 7) / 8
		b := g.R.Bytes(n)
		b[0] &= byte(0xff >> uint(8*n-bits))
		b[0] |= byte(1 << uint((bits-1)%8))
		b[n-1] |= 1
		return b
	}
	others := []c18Group{
		{oddMod(2048), 3, "odd2048"}, {oddMod(2047), 2, "odd2047"}, {oddMod(2040), 5, "odd2040"},
		{oddMod(2033), 7, "odd2033"}, {oddMod(1024), 4, "odd1024"}, {oddMod(64), 6, "odd64"},
		{[]byte{23}, 5, "toy23"}, {[]byte{0xfb}, 6, "toy251"}, {[]byte{0x01, 0x00, 0x01}, 3, "toy65537"},
		{[]byte{0, 0, 23}, 5, "toy23-lz"}, {[]byte{0x7f, 0xff, 0xff, 0xff}, 7, "mersenne31"},
		{[]byte{15}, 2, "composite15"}, {[]byte{0x10, 0x00}, 3, "pow2-4096"}, {[]byte{23}, 0, "g0"}, {[]byte{23}, 1, "g1"},
		{[]byte{23}, 46, "g-multiple-of-p"}, {[]byte{2}, 3, "p2"}, {[]byte{0xfb}, 2147483647, "gmaxint32"},
	}
	// a modulus whose k = H(p | g) starts with a zero byte
	for i := 0; i < 5000; i++ {
		m := oddMod(2048)
		if c18H(m, c18Pad(big.NewInt(3)))[0] == 0 {
			others = append(others, c18Group{m, 3, "odd2048-k-lead0"})
			break
		}
	}

	randLens := []int{256, 256, 256, 0, 1, 31, 255, 257, 300, 512}
	nHonestTg := g.N(12, 30)
	nHonestOther := g.N(1, 2)
	nLead := g.N(1, 2)

	for ti, t := range triples {
		other := triples[(ti+1)%len(triples)]
		wrongs := []c18Triple{
			{other.pw, t.s1, t.s2, "wrong-other"},
			{append(append([]byte{}, t.pw...), ' '), t.s1, t.s2, "wrong-trailing-space"},
			{t.pw[:len(t.pw)-1], t.s1, t.s2, "wrong-truncated"},
		}
		if len(t.pw) == 1 {
			wrongs[2] = c18Triple{[]byte{t.pw[0] ^ 1}, t.s1, t.s2, "wrong-bitflip"}
		}
		if g.Thorough() && ti >= 8 {
			wrongs = wrongs[:1]
		}

		// 1. the KDF tie: the Lean driver computes PH2 itself for this (password, salts)
		g.Emit(fmt.Sprintf("c18.ph2 %s %s %s", hexD(t.pw), hexD(t.s1), hexD(t.s2)), "ph2")
		c.honest(t, tg[ti%len(tg)], g.R.Bytes(256), c.randNum(256), false, "kdf-in-driver")

		// 2. honest exchanges on Telegram's group, every g, secrets and random lengths varied
		for i := 0; i < nHonestTg; i++ {
			gr := tg[(i+ti)%len(tg)]
			rl := randLens[g.R.Intn(len(randLens))]
			bl := []int{256, 256, 255, 32, 1, 300}[g.R.Intn(6)]
			c.honest(t, gr, g.R.Bytes(rl), c.randNum(bl), true, fmt.Sprintf("randlen:%d", rl))
		}
		// small exponents: A = g^a without reduction (hundreds of leading zero bytes), a = 0, b = 0
		for _, a := range []int64{0, 1, 2, 100, 700} {
			c.honest(t, tg[int(a)%len(tg)], c18Pad(big.NewInt(a)), c.randNum(256), true, "small-a")
		}
		c.honest(t, tg[1], g.R.Bytes(256), big.NewInt(0), true, "b=0")
		c.honest(t, tg[2], g.R.Bytes(256), big.NewInt(1), true, "b=1")

		// 3. leading zero bytes in A, B, u, S (rejection sampling on Telegram's group)
		for i := 0; i < nLead; i++ {
			gr := tg[g.R.Intn(len(tg))]
			srv := c18Srv(t, gr)
			for _, z := range []int{1, 2} {
				if a := c.searchA(gr, z, 400000); a != nil {
					c.honest(t, gr, a, c.randNum(256), true, fmt.Sprintf("lead0:A%d", z))
				}
				if b := c.searchB(srv, z, 400000); b != nil {
					c.honest(t, gr, g.R.Bytes(256), b, true, fmt.Sprintf("lead0:B%d", z))
					// the same honest B sent without its leading zero bytes (255 / 254 bytes: in the accepted range)
					c.emitSrp(t, gr, g.R.Bytes(256), srv.B(b).Bytes(), true, srv.v, b, fmt.Sprintf("lead0:B%d-unpadded", z), "honest")
					// both A and B with leading zeros
					if a := c.searchA(gr, z, 400000); a != nil {
						c.honest(t, gr, a, b, true, fmt.Sprintf("lead0:A%dB%d", z, z))
					}
				}
				b := c.randNum(256)
				if a := c.searchU(gr, c18Pad(srv.B(b)), z, 400000); a != nil {
					c.honest(t, gr, a, b, true, fmt.Sprintf("lead0:u%d", z))
				}
			}
			b := c.randNum(256)
			if a := c.searchS(t, gr, b, c18Pad(srv.B(b)), 1, 1500); a != nil {
				c.honest(t, gr, a, b, true, "lead0:S1")
			}
		}

		// 4. other moduli (always at least one leading zero byte in A, B, S below 2048 bits)
		for _, gr := range others {
			for i := 0; i < nHonestOther; i++ {
				c.honest(t, gr, g.R.Bytes(randLens[g.R.Intn(3)]), c.randNum(256), true)
			}
			// a wrong password on a tiny group may well have the same verifier: the oracle decides by v
			c.wrong(t, wrongs[0], gr)
		}

		// 5. wrong passwords against the right verifier
		for _, w := range wrongs {
			for i := 0; i < g.N(2, 3); i++ {
				c.wrong(t, w, tg[g.R.Intn(len(tg))])
			}
		}

		// 6. out-of-range / odd-length server values; B = p − 1 and B = 1 are in range
		c.badB(t, tg[ti%len(tg)])
		c.badB(t, others[ti%len(others)])

		// 7. the public entry point
		c.public(t, wrongs[0], tg[(ti+3)%len(tg)])
	}

	// 8. one client, several accounts, one process: (password, salt1, salt2) triples that are the same bytes
	// when written one after the other, the boundaries between the three parts moved
	nSeq := 2
	if g.Thorough() {
		nSeq = 6
	}
	for ti := 0; ti < nSeq && ti < len(triples); ti++ {
		c.sequence(triples[ti], tg[(ti+1)%len(tg)])
	}

	// 9. long inputs: "all passwords", "salts of any length"
	c.longInputs(tg, others[1])

	// empty password: the 'no password' answer whatever else is given
	empty := c18Triple{[]byte{}, triples[0].s1, triples[0].s2, "empty"}
	for _, gr := range []c18Group{tg[1], others[6], {[]byte{}, 3, "p-empty"}} {
		srv := c18Srv(triples[0], gr)
		for _, sb := range [][]byte{c18Pad(big.NewInt(5)), {}, make([]byte, 256), make([]byte, 300), gr.pB} {
			if len(gr.pB) == 0 { // p = 0: no server exists
				c.emitSrp(empty, gr, g.R.Bytes(256), sb, true, nil, nil, "empty-password")
				continue
			}
			c.emitSrp(empty, gr, g.R.Bytes(256), sb, true, srv.v, big.NewInt(7), "empty-password")
			c.emitPub(empty, "mp", gr, sb, 42, nil, nil, "empty-password")
		}
	}
}

// longInputs: passwords and salts far beyond the sizes Telegram hands out. The property quantifies over "all
// passwords" and "salts of any length"; every generated triple so far had a password of at most 348 bytes and salts
// of at most 100. Lengths: 0, 1, the neighbourhood of the hash block sizes (SHA-256: 55/56 — where the padding
// spills into another block — 63, 64, 65; SHA-512 / HMAC: 119, 127, 128, 129), 500, 1023, 1024, 1025, 4096, 65536 —
// each of password, salt1, salt2 swept alone (the other two of Telegram's own sizes), and in combination.
// Every case is an honest exchange judged by the harness's server (which hashes with the streaming
// crypto/sha256 and its own PBKDF2); long passwords are also answered with a password that differs from the right
// one in the last byte only / is one byte shorter / one byte longer (must be rejected). PH2 is on the line
// (computed by the harness) except where said, so the Lean side adds no PBKDF2 run for these.
func (c *c18Gen) longInputs(tg []c18Group, odd c18Group) {
	g := c.g
	r := g.R
	all := []int{0, 1, 55, 56, 63, 64, 65, 119, 127, 128, 129, 500, 1023, 1024, 1025, 4096, 65536}
	lens := all
	if !g.Thorough() {
		lens = []int{0, 1, []int{55, 56, 63, 64, 65}[r.Intn(5)], []int{119, 127, 128, 129}[r.Intn(4)], 500, 1024, 1025, 4096, 65536}
	}
	pwOf := func(n int) []byte { // valid UTF-8 now and then, arbitrary bytes otherwise (a Go string holds either)
		if n >= 8 && r.Intn(3) == 0 {
			return []byte(strings.Repeat("пароль密🔑", n/16+1))[:n]
		}
		b := r.Bytes(n)
		return b
	}
	triple := func(np, n1, n2 int) c18Triple {
		return c18Triple{pwOf(np), r.Bytes(n1), r.Bytes(n2), fmt.Sprintf("len%d", np)}
	}
	group := func() c18Group {
		if r.Intn(5) == 0 {
			return odd
		}
		return tg[r.Intn(len(tg))]
	}
	exchange := func(t c18Triple, xKnown bool, tags ...string) {
		tags = append(tags, "long-inputs", fmt.Sprintf("salt1len:%d", len(t.s1)), fmt.Sprintf("salt2len:%d", len(t.s2)))
		c.honest(t, group(), r.Bytes(256), c.randNum(256), xKnown, tags...)
	}
	// one dimension at a time
	kdfInDriver := 500 // the Lean driver computes PH2 itself for one long salt1 (HMAC message of several blocks)
	for _, n := range lens {
		if n > 0 {
			exchange(triple(n, 40, 16), true, "long:password")
		} else {
			exchange(triple(0, 65536, 1024), true, "long:password", "empty-password")
		}
		exchange(triple(12, n, 16), n != kdfInDriver, "long:salt1")
		exchange(triple(12, 40, n), true, "long:salt2")
	}
	// in combination
	combos := [][3]int{{1024, 1024, 1024}, {65536, 65536, 65536}, {500, 500, 500}, {4096, 0, 4096}, {1, 65536, 0}, {65536, 1, 1}}
	for i, n := 0, g.N(3, 40); i < n; i++ {
		combos = append(combos, [3]int{all[1+r.Intn(len(all)-1)], all[r.Intn(len(all))], all[r.Intn(len(all))]})
	}
	for _, k := range combos {
		exchange(triple(k[0], k[1], k[2]), true, "long:combination")
	}
	// "and only for it": a long password and one that differs from it at the very end
	wl := []int{1024, 4096, 65536}
	if g.Thorough() {
		wl = []int{500, 1023, 1024, 1025, 2048, 4096, 65536}
	}
	for i, n := range wl {
		t := triple(n, []int{40, 0, 500}[i%3], []int{16, 1024, 0}[i%3])
		flip := append([]byte{}, t.pw...)
		flip[n-1] ^= 1
		ws := []c18Triple{{flip, t.s1, t.s2, "wrong-last-byte"}}
		if i == 0 || g.Thorough() {
			ws = append(ws, c18Triple{t.pw[:n-1], t.s1, t.s2, "wrong-truncated"}, c18Triple{append(append([]byte{}, t.pw...), 'x'), t.s1, t.s2, "wrong-one-more-byte"})
		}
		for _, w := range ws {
			c.wrong(t, w, tg[r.Intn(len(tg))])
		}
	}
	// through the public entry point
	for _, k := range [][3]int{{4096, 40, 16}, {12, 1024, 16}, {12, 40, 65536}} {
		t := triple(k[0], k[1], k[2])
		gr := tg[r.Intn(len(tg))]
		srv := c18Srv(t, gr)
		b := c.randNum(256)
		if B := srv.B(b); B.Sign() != 0 {
			c.emitPub(t, "mp", gr, c18Pad(B), int64(r.U64()), srv.v, b, "honest", "long-inputs")
		}
	}
}

// wrong: the server holds the verifier of t.pw, the client answers with w.pw (same salts)
func (c *c18Gen) wrong(t, w c18Triple, gr c18Group) {
	if len(w.pw) == 0 {
		return
	}
	srv := c18Srv(t, gr)
	b := c.randNum(256)
	B := srv.B(b)
	for i := 0; B.Sign() == 0; i++ {
		if i == 40 {
			return
		}
		b.Add(b, big.NewInt(1))
		B = srv.B(b)
	}
	c.emitSrp(w, gr, c.g.R.Bytes(256), c18Pad(B), true, srv.v, b, "wrong-password", w.name)
}

func (c *c18Gen) badB(t c18Triple, gr c18Group) {
	srv := c18Srv(t, gr)
	p := srv.p
	b := c.randNum(256)
	B := srv.B(b)
	one := big.NewInt(1)
	type cs struct {
		sb  []byte
		tag string
	}
	pPlus := new(big.Int).Add(p, one)
	var cases []cs
	cases = append(cases,
		cs{make([]byte, 256), "badB:zero"},
		cs{[]byte{}, "badB:empty"},
		cs{c18Pad(p), "badB:p"},
		cs{c18Pad(pPlus), "badB:p+1"},
		cs{c18Pad(new(big.Int).Sub(p, one)), "B:p-1"},
		cs{c18Pad(one), "B:1"},
		cs{c18Pad(new(big.Int).Add(p, B)), "badB:B+p"},
		cs{c18Pad(B)[9:], "badB:len247"},   // an honest value that happens to be short, sent unpadded
		cs{c18Pad(B)[8:], "B:len248"},      // low 248 bytes (a different, valid, number unless B is small)
		cs{c18Pad(B)[1:], "B:len255"},
		cs{append([]byte{0}, c18Pad(B)...), "badB:len257"},
		cs{append(make([]byte, 44), c18Pad(B)...), "badB:len300"},
		cs{append(c18Pad(B), 0), "badB:len257-trailing"},
		cs{bytes.Repeat([]byte{0xff}, 256), "badB:allff"},
	)
	// an honest B below 2^1984 sent in 248 bytes and in 256 bytes (only for moduli that small or by luck)
	if p.BitLen() <= 1984 {
		cases = append(cases, cs{c18Pad(B)[8:], "honest:len248"}, cs{c18Pad(B)[4:], "honest:len252"})
	}
	for _, k := range cases {
		c.emitSrp(t, gr, c.g.R.Bytes(256), k.sb, true, srv.v, b, k.tag)
	}
	c.emitPub(t, "mp", gr, make([]byte, 256), 1, srv.v, b, "badB:zero")
	c.emitPub(t, "mp", gr, c18Pad(p), 2, srv.v, b, "badB:p")
	c.emitPub(t, "mp", gr, c18Pad(B)[10:], 3, srv.v, b, "badB:short")
	c.emitPub(t, "mp", gr, append([]byte{0, 0}, c18Pad(B)...), 4, srv.v, b, "badB:long")
}

func (c *c18Gen) public(t, w c18Triple, gr c18Group) {
	srv := c18Srv(t, gr)
	ids := []int64{0, 1, -1, 9223372036854775807, -9223372036854775808, int64(c.g.R.U64())}
	for i := 0; i < c.g.N(3, 6); i++ {
		b := c.randNum(256)
		B := srv.B(b)
		if B.Sign() == 0 {
			continue
		}
		c.emitPub(t, "mp", gr, c18Pad(B), ids[i%len(ids)], srv.v, b, "honest")
	}
	b := c.randNum(256)
	if B := srv.B(b); B.Sign() != 0 && len(w.pw) > 0 {
		c.emitPub(w, "mp", gr, c18Pad(B), 77, srv.v, b, "wrong-password")
		c.emitPub(t, "other", gr, c18Pad(B), 5, srv.v, b, "foreign-algo")
		c.emitPub(t, "nil", gr, c18Pad(B), 6, srv.v, b, "foreign-algo")
		c.emitPub(c18Triple{[]byte{}, t.s1, t.s2, "empty"}, "other", gr, c18Pad(B), 6, nil, nil, "foreign-algo", "empty-password")
	}
}

func init() {
	register(&Prop{Name: "c18", Stateless: true, Gen: c18Gen_, Exec: c18Exec, Judge: c18Judge})
}
