package main

// C13, end-to-end clause: "every generated client method sends a request of its function's constructor
// with its arguments in the schema's parameter positions and returns the server's answer as the result
// kind the schema declares".
//
// One operation = one call of a REAL method of *telegram.Client (found by reflection) on a real
// mtproto.MTProto that resumed a stored session and is connected, over loopback TCP, to a scripted peer
// (this file; the server side of the envelope comes from x_envelope.go, written from the protocol text).
//
//   c13.e2e <Method>[/<InnerMethod>] <args> <size> <shape> <k>
//     Method   Go name of the client method (InnerMethod: the query wrapped by a hand-written wrapper)
//     args     z = zero scalars, empty vectors, smallest constructors | p = distinguishable values, vectors
//              with elements, conditional parameters present for a random set of flag bits
//     size     s = smallest value of the result type | n<count> = result vector of that many elements |
//              big = a value that serialises to more than 32768 bytes (one inflate window);
//              with the suffix ~w (or ~w1: all goroutines on one processor, GOMAXPROCS(1)) the call is made WHILE
//              OTHER CALLS ARE UNDER WAY on the same client: a first generated method's write is in progress (held
//              in the transport's write hook, the write lock taken), then the method under test encodes its
//              request and waits for the lock, then a third generated method encodes, and the receive loop
//              acknowledges a new_session_created — the peer must receive each of the three requests exactly as
//              the schema serialises that call's arguments, and each call must return its own answer
//     shape    how the peer delivers the answer: plain | cont (inside a msg_container, after a pong) |
//              gz (rpc_result{gzip_packed}) | salt (the first copy of the request is rejected with
//              bad_server_salt, the re-sent copy is answered) | saltgz (both)
//     k        seed of the values
//
// Everything about the expected bytes comes from the SCHEMA LINE of the function, read from
// schemes/api_latest.tl of the working tree by the small reader below: the peer compares the request it
// receives with the serialisation of the arguments by the schema-directed writer c13Schema.ser (it never
// calls the repository's encoder), and answers with the serialisation, by the same writer, of a value
// of the declared result type built from the schema. Judge: the method returns, within a deadline and
// without panicking, a value whose schema-directed serialisation is the payload that was sent (and whose
// canonical text equals that of the value the payload was made from).

import (
	"bufio"
	"bytes"
	"compress/gzip"
	"encoding/binary"
	"fmt"
	"io"
	"math"
	"net"
	"os"
	"path/filepath"
	"reflect"
	"runtime"
	"sort"
	"strconv"
	"strings"
	"sync"
	"time"

	"github.com/xelaj/mtproto"
	"github.com/xelaj/mtproto/internal/encoding/tl"
	"github.com/xelaj/mtproto/internal/session"
	"github.com/xelaj/mtproto/internal/transport"
	"github.com/xelaj/mtproto/telegram"

	"github.com/xelaj/mtproto/verifharness/internal/reg"
)

// ---- the schema, read from the working tree ---------------------------------------------------------------

type c13Ty struct {
	kind string // # int long double string bytes Bool true vector boxed generic other
	name string // boxed: name of the type
	elem *c13Ty // vector
	bit  int    // conditional parameter: bit of the flags word (-1: unconditional)
	fld  string // ... and the name of that flags parameter
}

type c13Par struct {
	name string
	ty   c13Ty
}

type c13Def struct {
	name    string
	id      uint32
	pars    []c13Par
	res     string
	resTy   c13Ty
	fn      bool
	generic bool // {X:Type}
}

type c13Cand struct {
	d    *c13Def
	gt   reflect.Type
	kind string
}

type c13CandKey struct {
	name string
	gt   reflect.Type
}

type c13Cands struct {
	all      []c13Cand
	smallest *c13Cand
	minH     int
}

type c13Schema struct {
	cands   map[c13CandKey]*c13Cands // constructors of a schema type that a Go type can hold
	byID    map[uint32]*c13Def
	ctors   map[string][]*c13Def // type name -> constructors in file order
	funcs   []*c13Def
	bigT    map[string]bool // the type has a value of any size (a string, bytes or vector somewhere in it)
	height  map[string]int  // minimal nesting of a value of the type
	dheight map[uint32]int
}

const (
	c13Inf        = 1 << 20
	c13CrcVector  = 0x1cb5c415
	c13CrcTrue    = 0x997275b5
	c13CrcFalse   = 0xbc799737
	c13CrcRpcRes  = 0xf35c6d01
	c13CrcGzip    = 0x3072cfa1
	c13CrcCont    = 0x73f1f8dc
	c13CrcPong    = 0x347773c5
	c13CrcAck     = 0x62d6b459
	c13CrcBadSalt = 0xedab447b
	c13CrcPing    = 0x7abe77ec
	c13Window     = 32768
)

func c13ParseTy(s string) c13Ty {
	t := c13Ty{bit: -1}
	if q := strings.Index(s, "?"); q > 0 {
		dot := strings.Index(s, ".")
		if dot > 0 && dot < q {
			if b, err := strconv.Atoi(s[dot+1 : q]); err == nil {
				t.fld, t.bit, s = s[:dot], b, s[q+1:]
			}
		}
	}
	switch {
	case s == "#":
		t.kind = "#"
	case s == "int" || s == "long" || s == "double" || s == "string" || s == "bytes" || s == "Bool" || s == "true":
		t.kind = s
	case (strings.HasPrefix(s, "Vector<") || strings.HasPrefix(s, "vector<")) && strings.HasSuffix(s, ">"):
		e := c13ParseTy(s[7 : len(s)-1])
		t.kind, t.elem = "vector", &e
	case strings.HasPrefix(s, "!") || s == "X":
		t.kind = "generic"
	default:
		last := s[strings.LastIndex(s, ".")+1:]
		if last != "" && last[0] >= 'A' && last[0] <= 'Z' {
			t.kind, t.name = "boxed", s
		} else {
			t.kind, t.name = "other", s
		}
	}
	return t
}

func c13ReadSchema(path string) (*c13Schema, error) {
	f, err := os.Open(path)
	if err != nil {
		return nil, err
	}
	defer f.Close()
	s := &c13Schema{bigT: map[string]bool{}, cands: map[c13CandKey]*c13Cands{}, byID: map[uint32]*c13Def{}, ctors: map[string][]*c13Def{}, height: map[string]int{}, dheight: map[uint32]int{}}
	sc := bufio.NewScanner(f)
	sc.Buffer(make([]byte, 1<<16), 1<<22)
	fn := false
	for sc.Scan() {
		l := strings.TrimSpace(sc.Text())
		switch {
		case l == "" || strings.HasPrefix(l, "//"):
			continue
		case l == "---functions---":
			fn = true
			continue
		case l == "---types---":
			fn = false
			continue
		}
		toks := strings.Fields(strings.TrimSuffix(l, ";"))
		eq := -1
		for i, t := range toks {
			if t == "=" {
				eq = i
			}
		}
		h := strings.Index(toks[0], "#")
		if eq < 1 || eq != len(toks)-2 || h < 1 {
			return nil, fmt.Errorf("schema line not understood: %s", l)
		}
		id, err := strconv.ParseUint(toks[0][h+1:], 16, 32)
		if err != nil {
			return nil, fmt.Errorf("schema line not understood: %s", l)
		}
		d := &c13Def{name: toks[0][:h], id: uint32(id), fn: fn, res: toks[eq+1], resTy: c13ParseTy(toks[eq+1])}
		for _, t := range toks[1:eq] {
			if strings.HasPrefix(t, "{") {
				d.generic = true
				continue
			}
			c := strings.Index(t, ":")
			if c < 1 {
				return nil, fmt.Errorf("schema line not understood: %s", l)
			}
			d.pars = append(d.pars, c13Par{name: t[:c], ty: c13ParseTy(t[c+1:])})
		}
		s.byID[d.id] = d
		if fn {
			s.funcs = append(s.funcs, d)
		} else {
			s.ctors[d.res] = append(s.ctors[d.res], d)
		}
	}
	// minimal heights (required parameters only), by fixpoint
	for n := range s.ctors {
		s.height[n] = c13Inf
	}
	for _, d := range s.byID {
		s.dheight[d.id] = c13Inf
	}
	for changed := true; changed; {
		changed = false
		for n, cs := range s.ctors {
			for _, d := range cs {
				h := 0
				for _, p := range d.pars {
					if p.ty.bit >= 0 {
						continue
					}
					if ph := s.tyHeight(&p.ty); ph > h {
						h = ph
					}
				}
				if h < c13Inf && h+1 < s.dheight[d.id] {
					s.dheight[d.id] = h + 1
					changed = true
				}
				if s.dheight[d.id] < s.height[n] {
					s.height[n] = s.dheight[d.id]
					changed = true
				}
			}
		}
	}
	for changed := true; changed; {
		changed = false
		for n, cs := range s.ctors {
			for _, d := range cs {
				for _, p := range d.pars {
					if !s.bigT[n] && s.dheight[d.id] < c13Inf && s.bigable(&p.ty) {
						s.bigT[n] = true
						changed = true
					}
				}
			}
		}
	}
	return s, nil
}

// bigable: a value of the type can be made as large as one likes
func (s *c13Schema) bigable(t *c13Ty) bool {
	return t.kind == "string" || t.kind == "bytes" || t.kind == "vector" || t.kind == "boxed" && s.bigT[t.name]
}

func (s *c13Schema) tyHeight(t *c13Ty) int {
	switch t.kind {
	case "boxed":
		if h, ok := s.height[t.name]; ok {
			return h
		}
		return c13Inf
	case "generic", "other":
		return c13Inf
	}
	return 0
}

// ---- the schema-directed writer: Go value -> bytes, by the schema alone -------------------------------------

func c13U32(v uint32) []byte { b := make([]byte, 4); binary.LittleEndian.PutUint32(b, v); return b }
func c13U64(v uint64) []byte { b := make([]byte, 8); binary.LittleEndian.PutUint64(b, v); return b }

func c13Str(b []byte) []byte {
	var out []byte
	if len(b) < 254 {
		out = append([]byte{byte(len(b))}, b...)
	} else {
		out = append([]byte{0xfe, byte(len(b)), byte(len(b) >> 8), byte(len(b) >> 16)}, b...)
	}
	for len(out)%4 != 0 {
		out = append(out, 0)
	}
	return out
}

// c13Fields: the exported fields of a registered struct that take part in the layout, in order.
func c13Fields(st reflect.Value) []reflect.Value {
	c13FieldMu.Lock()
	ix, ok := c13FieldIx[st.Type()]
	if !ok {
		ix = []int{}
		for i := 0; i < st.NumField(); i++ {
			if tag, ok := st.Type().Field(i).Tag.Lookup("tl"); ok && strings.HasPrefix(tag, "-") {
				continue
			}
			ix = append(ix, i)
		}
		c13FieldIx[st.Type()] = ix
	}
	c13FieldMu.Unlock()
	out := make([]reflect.Value, len(ix))
	for j, i := range ix {
		out[j] = st.Field(i)
	}
	return out
}

var (
	c13FieldMu sync.Mutex
	c13FieldIx = map[reflect.Type][]int{}
)

func (s *c13Schema) ser(t *c13Ty, v reflect.Value, w *bytes.Buffer) error {
	switch t.kind {
	case "int":
		switch v.Kind() {
		case reflect.Int, reflect.Int32, reflect.Int64:
			w.Write(c13U32(uint32(v.Int())))
			return nil
		}
	case "long":
		switch v.Kind() {
		case reflect.Int, reflect.Int64:
			w.Write(c13U64(uint64(v.Int())))
			return nil
		}
	case "double":
		if v.Kind() == reflect.Float64 {
			w.Write(c13U64(math.Float64bits(v.Float())))
			return nil
		}
	case "string":
		if v.Kind() == reflect.String {
			w.Write(c13Str([]byte(v.String())))
			return nil
		}
	case "bytes":
		if v.Kind() == reflect.Slice && v.Type().Elem().Kind() == reflect.Uint8 {
			w.Write(c13Str(v.Bytes()))
			return nil
		}
	case "Bool":
		if v.Kind() == reflect.Bool {
			if v.Bool() {
				w.Write(c13U32(c13CrcTrue))
			} else {
				w.Write(c13U32(c13CrcFalse))
			}
			return nil
		}
	case "true":
		if v.Kind() == reflect.Bool {
			return nil
		}
	case "vector":
		if v.Kind() == reflect.Slice {
			w.Write(c13U32(c13CrcVector))
			w.Write(c13U32(uint32(v.Len())))
			for i := 0; i < v.Len(); i++ {
				if err := s.ser(t.elem, v.Index(i), w); err != nil {
					return err
				}
			}
			return nil
		}
	case "boxed", "generic":
		for v.Kind() == reflect.Interface {
			if v.IsNil() {
				return fmt.Errorf("nil where %s is required", t.name)
			}
			v = v.Elem()
		}
		var id uint32
		switch {
		case v.Kind() == reflect.Uint32: // a type all of whose constructors are empty: the value is the id
			id = uint32(v.Uint())
		case v.Kind() == reflect.Ptr && !v.IsNil() && v.Elem().Kind() == reflect.Struct:
			o, ok := v.Interface().(tl.Object)
			if !ok {
				return fmt.Errorf("%v is not a TL object", v.Type())
			}
			id = o.CRC()
		default:
			return fmt.Errorf("%v where %s is required", v.Type(), t.name)
		}
		d := s.byID[id]
		if d == nil {
			return fmt.Errorf("%v carries id %08x, which the schema does not define", v.Type(), id)
		}
		if t.kind == "boxed" && (d.fn || d.res != t.name) {
			return fmt.Errorf("%s is not a constructor of %s", d.name, t.name)
		}
		if t.kind == "generic" && !d.fn {
			return fmt.Errorf("%s is not a function", d.name)
		}
		w.Write(c13U32(id))
		if v.Kind() == reflect.Uint32 {
			if len(d.pars) != 0 {
				return fmt.Errorf("%s has parameters, the Go value is a bare id", d.name)
			}
			return nil
		}
		return s.serFields(d, c13Fields(v.Elem()), w)
	}
	return fmt.Errorf("Go value of type %v where the schema says %s", v.Type(), t.kind+t.name)
}

// serFields writes the parameters of d; vals are the Go values of the parameters other than the flags
// words, in the schema's order. A conditional parameter is present iff its Go value is not the zero value.
func (s *c13Schema) serFields(d *c13Def, vals []reflect.Value, w *bytes.Buffer) error {
	n := 0
	for _, p := range d.pars {
		if p.ty.kind != "#" {
			n++
		}
	}
	if n != len(vals) {
		return fmt.Errorf("%s has %d parameters, the Go side has %d", d.name, n, len(vals))
	}
	j := 0
	idx := make([]int, len(d.pars))
	for i, p := range d.pars {
		if p.ty.kind != "#" {
			idx[i] = j
			j++
		}
	}
	for i, p := range d.pars {
		if p.ty.kind == "#" {
			var word uint32
			for k, q := range d.pars {
				if q.ty.bit >= 0 && q.ty.fld == p.name && !vals[idx[k]].IsZero() {
					word |= 1 << uint(q.ty.bit)
				}
			}
			w.Write(c13U32(word))
			continue
		}
		v := vals[idx[i]]
		if p.ty.bit >= 0 && v.IsZero() {
			continue
		}
		ty := p.ty
		if err := s.ser(&ty, v, w); err != nil {
			return fmt.Errorf("%s.%s: %v", d.name, p.name, err)
		}
	}
	return nil
}

// ---- building values from the schema ------------------------------------------------------------------------

type c13Mk struct {
	s       *c13Schema
	r       *Rand
	n       int64
	scal    bool // scalars take distinguishable non-zero values
	pop     bool // vectors get elements, conditional parameters are present for some bits, constructors vary
	vecN    int  // element count of a vector at depth 0 (-1: by mode)
	big     bool // one string / bytes / vector of the value is made large
	bigDone bool
	inner   *c13Method // what a generic parameter (query:!X) wraps
}

func (m *c13Mk) next() int64 { m.n++; return m.n }

// goTypeOf: the registered Go type of a constructor (struct pointer, or the enum type)
func c13GoType(id uint32) (reflect.Type, string) {
	c := reg.ByID()[id]
	if c == nil {
		return nil, ""
	}
	return c.Type, c.Kind
}

// val builds a value of schema type t as a Go value of static type gt. nz: not the zero value (a present
// conditional parameter).
func (m *c13Mk) val(t *c13Ty, gt reflect.Type, depth int, nz bool) (reflect.Value, error) {
	out := reflect.New(gt).Elem()
	if depth > 16 {
		return out, fmt.Errorf("nesting too deep")
	}
	bad := func() (reflect.Value, error) {
		return out, fmt.Errorf("schema type %s%s does not fit Go type %v", t.kind, t.name, gt)
	}
	switch t.kind {
	case "int", "long":
		switch gt.Kind() {
		case reflect.Int, reflect.Int32, reflect.Int64:
		default:
			return bad()
		}
		if t.kind == "long" && gt.Kind() == reflect.Int32 {
			return bad()
		}
		switch {
		case !m.scal && !nz:
		case t.kind == "int":
			out.SetInt(1000 + m.next())
		default:
			out.SetInt(0x0102030400000000 + m.next())
		}
	case "double":
		if gt.Kind() != reflect.Float64 {
			return bad()
		}
		if m.scal || nz {
			out.SetFloat(1.5 + float64(m.next()))
		}
	case "string", "bytes":
		if t.kind == "string" && gt.Kind() != reflect.String || t.kind == "bytes" && !(gt.Kind() == reflect.Slice && gt.Elem().Kind() == reflect.Uint8) {
			return bad()
		}
		var b []byte
		switch {
		case m.big && !m.bigDone:
			m.bigDone = true
			b = make([]byte, c13Window+c13Window/4+int(m.r.Intn(4096)))
			seed := m.r.U64()
			copy(b, envLCG(len(b), seed))
			for i := range b { // printable, so that a string is a string
				b[i] = 'a' + b[i]%26
			}
		case m.scal || nz:
			b = []byte(fmt.Sprintf("%c%d", 'a'+byte(m.n%26), m.next()))
		}
		if t.kind == "string" {
			out.SetString(string(b))
		} else if b != nil {
			out.SetBytes(b)
		}
	case "Bool":
		if gt.Kind() != reflect.Bool {
			return bad()
		}
		out.SetBool(nz || m.scal && m.next()%2 == 0)
	case "true":
		if gt.Kind() != reflect.Bool {
			return bad()
		}
		out.SetBool(nz)
	case "vector":
		if gt.Kind() != reflect.Slice {
			return bad()
		}
		n := 0
		switch {
		case depth == 0 && m.vecN >= 0:
			n = m.vecN
		case m.big && !m.bigDone:
			m.bigDone = true
			// as many elements as make the vector larger than one inflate window
			probe := &c13Mk{s: m.s, r: NewRand(1), scal: m.scal, pop: m.pop, vecN: -1, inner: m.inner}
			e, err := probe.val(t.elem, gt.Elem(), depth+1, m.pop)
			if err != nil {
				return out, err
			}
			var w bytes.Buffer
			if err := m.s.ser(t.elem, e, &w); err != nil {
				return out, err
			}
			n = (c13Window+c13Window/4)/w.Len() + 1 + m.r.Intn(64)
		case m.pop && depth == 0:
			n = 2 + m.r.Intn(2)
		case m.pop:
			n = 1
		}
		if nz && n == 0 {
			n = 1
		}
		if n == 0 && !m.pop {
			return out, nil // nil slice
		}
		sl := reflect.MakeSlice(gt, n, n)
		for i := 0; i < n; i++ {
			e, err := m.val(t.elem, gt.Elem(), depth+1, m.pop)
			if err != nil {
				return out, err
			}
			sl.Index(i).Set(e)
		}
		return sl, nil
	case "generic":
		if m.inner == nil {
			return out, fmt.Errorf("generic parameter without a query")
		}
		pt, _ := c13GoType(m.inner.def.id)
		if pt == nil || pt.Kind() != reflect.Ptr || !pt.AssignableTo(gt) {
			return bad()
		}
		obj := reflect.New(pt.Elem())
		if err := m.fill(m.inner.def, obj.Elem(), depth); err != nil {
			return out, err
		}
		out.Set(obj)
	case "boxed":
		ck := c13CandKey{t.name, gt}
		cc, ok := m.s.cands[ck]
		if !ok {
			cc = &c13Cands{minH: c13Inf}
			for _, d := range m.s.ctors[t.name] {
				ct, kind := c13GoType(d.id)
				if ct == nil || !ct.AssignableTo(gt) || m.s.dheight[d.id] >= c13Inf {
					continue
				}
				cc.all = append(cc.all, c13Cand{d, ct, kind})
				if m.s.dheight[d.id] < cc.minH {
					cc.minH = m.s.dheight[d.id]
				}
			}
			// the smallest constructor: least nesting, then fewest parameters, then file order
			for i := range cc.all {
				hi := m.s.dheight[cc.all[i].d.id]
				if cc.smallest == nil || hi < m.s.dheight[cc.smallest.d.id] ||
					hi == m.s.dheight[cc.smallest.d.id] && len(cc.all[i].d.pars) < len(cc.smallest.d.pars) {
					cc.smallest = &cc.all[i]
				}
			}
			m.s.cands[ck] = cc
		}
		cands, minH := cc.all, cc.minH
		if len(cands) == 0 {
			return out, fmt.Errorf("no registered constructor of %s fits Go type %v", t.name, gt)
		}
		var pick *c13Cand
		if m.big && !m.bigDone { // a constructor that has something to make large: of its own, else further down
			for _, direct := range []bool{true, false} {
				for i := range cands {
					for _, p := range cands[i].d.pars {
						if pick == nil && m.s.bigable(&p.ty) && (!direct || p.ty.kind != "boxed") {
							pick = &cands[i]
						}
					}
				}
			}
		}
		if pick == nil && m.pop && depth == 0 {
			var near []int
			for i := range cands {
				if m.s.dheight[cands[i].d.id] <= minH+1 {
					near = append(near, i)
				}
			}
			pick = &cands[near[m.r.Intn(len(near))]]
		}
		if pick == nil {
			pick = cc.smallest
		}
		if pick.kind == "enum" {
			e := reflect.New(pick.gt).Elem()
			e.SetUint(uint64(pick.d.id))
			out.Set(e)
			return out, nil
		}
		if pick.gt.Kind() != reflect.Ptr || pick.gt.Elem().Kind() != reflect.Struct {
			return bad()
		}
		obj := reflect.New(pick.gt.Elem())
		if err := m.fill(pick.d, obj.Elem(), depth); err != nil {
			return out, err
		}
		out.Set(obj)
	default:
		return bad()
	}
	return out, nil
}

// fill sets the layout fields of struct st from the parameters of d.
func (m *c13Mk) fill(d *c13Def, st reflect.Value, depth int) error {
	fs := c13Fields(st)
	types := make([]reflect.Type, len(fs))
	for i := range fs {
		types[i] = fs[i].Type()
	}
	vals, err := m.fields(d, types, depth)
	if err != nil {
		return err
	}
	for i := range fs {
		fs[i].Set(vals[i])
	}
	return nil
}

// fields builds one value per parameter of d other than the flags words; types are the Go types of those
// positions (struct fields or the positional arguments of a method).
func (m *c13Mk) fields(d *c13Def, types []reflect.Type, depth int) ([]reflect.Value, error) {
	var ps []c13Par
	for _, p := range d.pars {
		if p.ty.kind != "#" {
			ps = append(ps, p)
		}
	}
	if len(ps) != len(types) {
		return nil, fmt.Errorf("%s has %d parameters, the Go side has %d", d.name, len(ps), len(types))
	}
	// presence is decided per flag bit: parameters sharing a bit are present together
	var present map[string]bool
	for _, p := range ps {
		if p.ty.bit >= 0 && present == nil {
			present = map[string]bool{}
		}
	}
	for _, p := range ps {
		key := p.ty.fld + "." + strconv.Itoa(p.ty.bit)
		if p.ty.bit < 0 {
			continue
		}
		if _, seen := present[key]; !seen {
			present[key] = m.pop && depth == 0 && m.r.Intn(2) == 0
		}
		if m.big && !m.bigDone && depth <= 4 && m.s.bigable(&p.ty) {
			present[key] = true
		}
	}
	vals := make([]reflect.Value, len(ps))
	for i, p := range ps {
		ty := p.ty
		if ty.bit >= 0 && !present[ty.fld+"."+strconv.Itoa(ty.bit)] {
			vals[i] = reflect.Zero(types[i])
			continue
		}
		v, err := m.val(&ty, types[i], depth+1, ty.bit >= 0)
		if err != nil {
			return nil, fmt.Errorf("%s.%s: %v", d.name, p.name, err)
		}
		vals[i] = v
	}
	return vals, nil
}

// ---- the client methods, by reflection ----------------------------------------------------------------------

type c13Method struct {
	goName    string
	def       *c13Def
	idx       int          // index in the method set of *telegram.Client
	typ       reflect.Type // with the receiver as In(0)
	viaStruct bool         // the method takes *<Name>Params
}

type c13World struct {
	s         *c13Schema
	methods   map[string]*c13Method
	names     []string // sorted Go names of the methods that have a schema function
	unmatched []string
}

var (
	c13Once  sync.Once
	c13W     *c13World
	c13WErr  error
	c13Calls int
)

func c13Norm(s string) string {
	return strings.ToLower(strings.NewReplacer(".", "", "_", "").Replace(s))
}

func c13Load() (*c13World, error) {
	c13Once.Do(func() {
		repo := os.Getenv("VERIF_REPO")
		if repo == "" {
			repo = "/repo"
		}
		s, err := c13ReadSchema(filepath.Join(repo, "schemes", "api_latest.tl"))
		if err != nil {
			c13WErr = err
			return
		}
		w := &c13World{s: s, methods: map[string]*c13Method{}}
		ct := reflect.TypeOf(&telegram.Client{})
		byNorm := map[string]int{}
		for i := 0; i < ct.NumMethod(); i++ {
			byNorm[strings.ToLower(ct.Method(i).Name)] = i
		}
		for _, d := range s.funcs {
			i, ok := byNorm[c13Norm(d.name)]
			if !ok {
				w.unmatched = append(w.unmatched, d.name)
				continue
			}
			me := ct.Method(i)
			cm := &c13Method{goName: me.Name, def: d, idx: i, typ: me.Type}
			if me.Type.NumIn() == 2 {
				if id, ok := reg.CrcOf(me.Type.In(1)); ok && id == d.id {
					cm.viaStruct = true
				}
			}
			w.methods[me.Name] = cm
			w.names = append(w.names, me.Name)
		}
		sort.Strings(w.names)
		c13W = w
	})
	return c13W, c13WErr
}

// args builds the arguments of a call and the request the schema says they make.
func (w *c13World) args(cm *c13Method, mk *c13Mk) ([]reflect.Value, []byte, error) {
	var args, vals []reflect.Value
	if cm.viaStruct {
		st := reflect.New(cm.typ.In(1).Elem())
		if err := mk.fill(cm.def, st.Elem(), 0); err != nil {
			return nil, nil, err
		}
		args, vals = []reflect.Value{st}, c13Fields(st.Elem())
	} else {
		var types []reflect.Type
		for i := 1; i < cm.typ.NumIn(); i++ {
			types = append(types, cm.typ.In(i))
		}
		var err error
		if vals, err = mk.fields(cm.def, types, 0); err != nil {
			return nil, nil, err
		}
		args = vals
	}
	var buf bytes.Buffer
	buf.Write(c13U32(cm.def.id))
	if err := w.s.serFields(cm.def, vals, &buf); err != nil {
		return nil, nil, err
	}
	return args, buf.Bytes(), nil
}

// result builds the value the peer answers with: resDef is the function whose result type is declared
// (the method's own, or the wrapped query's), outT the Go type the caller gets it as.
func (w *c13World) result(resDef *c13Def, outT reflect.Type, mk *c13Mk) (reflect.Value, []byte, error) {
	ty := resDef.resTy
	v, err := mk.val(&ty, outT, 0, false)
	if err != nil {
		return v, nil, err
	}
	var buf bytes.Buffer
	if err := w.s.ser(&ty, v, &buf); err != nil {
		return v, nil, err
	}
	return v, buf.Bytes(), nil
}

// ---- the scripted peer ----------------------------------------------------------------------------------------

type c13Frame struct {
	salt, mid uint64
	seq       uint32
	body      []byte
}

type c13Peer struct {
	ln      net.Listener
	key     []byte
	mu      sync.Mutex
	conn    net.Conn
	sid     uint64
	nextID  uint64
	content uint32
	reqs    chan c13Frame
	damaged []string // client messages under the constructor of msgs_ack / ping that are not well-formed
}

func c13NewPeer(key []byte) (*c13Peer, error) {
	ln, err := net.Listen("tcp", "127.0.0.1:0")
	if err != nil {
		return nil, err
	}
	p := &c13Peer{ln: ln, key: key, nextID: uint64(time.Now().Unix())<<32 | 1, reqs: make(chan c13Frame, 64)}
	go func() {
		for {
			c, err := ln.Accept()
			if err != nil {
				return
			}
			p.mu.Lock()
			p.conn = c
			p.mu.Unlock()
			go p.read(c)
		}
	}()
	return p, nil
}

func (p *c13Peer) read(c net.Conn) {
	ann := make([]byte, 4)
	if _, err := io.ReadFull(c, ann); err != nil {
		return
	}
	for {
		hdr := make([]byte, 4)
		if _, err := io.ReadFull(c, hdr); err != nil {
			return
		}
		pkt := make([]byte, binary.LittleEndian.Uint32(hdr))
		if _, err := io.ReadFull(c, pkt); err != nil {
			return
		}
		m, why := envOpen(0, p.key, pkt, true)
		if why != "" {
			continue
		}
		p.mu.Lock()
		p.sid = m.Sid
		p.mu.Unlock()
		if len(m.Body) >= 4 {
			switch binary.LittleEndian.Uint32(m.Body) {
			case c13CrcAck:
				// msgs_ack#62d6b459 msg_ids:Vector<long>: the vector's id, a count of at least one, that many ids, nothing else
				b := m.Body
				if len(b) < 20 || binary.LittleEndian.Uint32(b[4:]) != 0x1cb5c415 || len(b) != 12+8*int(binary.LittleEndian.Uint32(b[8:])) {
					p.mu.Lock()
					p.damaged = append(p.damaged, "msgs_ack:"+c13ShowReq(b))
					p.mu.Unlock()
				}
				continue
			case c13CrcPing:
				if len(m.Body) != 12 {
					p.mu.Lock()
					p.damaged = append(p.damaged, "ping:"+c13ShowReq(m.Body))
					p.mu.Unlock()
				}
				continue
			}
		}
		select {
		case p.reqs <- c13Frame{salt: m.Salt, mid: m.Mid, seq: m.Seq, body: append([]byte{}, m.Body...)}:
		default:
		}
	}
}

func (p *c13Peer) damagedMsgs() string {
	p.mu.Lock()
	defer p.mu.Unlock()
	return strings.Join(p.damaged, ",")
}

func (p *c13Peer) id(content bool) (mid uint64, seq uint32) {
	p.nextID += 4
	seq = p.content * 2
	if content {
		seq++
		p.content++
	}
	return p.nextID, seq
}

func (p *c13Peer) send(body []byte, content bool) {
	p.mu.Lock()
	mid, seq := p.id(content)
	c, sid := p.conn, p.sid
	p.mu.Unlock()
	pkt := envSeal(8, p.key, envMsg{Salt: 0x1122334455667788, Sid: sid, Mid: mid, Seq: seq, Body: body}, make([]byte, (16-(32+len(body))%16)%16))
	frame := make([]byte, 4, 4+len(pkt))
	binary.LittleEndian.PutUint32(frame, uint32(len(pkt)))
	if c != nil {
		_, _ = c.Write(append(frame, pkt...))
	}
}

// sendContainer: msg_container{pong, body}
func (p *c13Peer) sendContainer(body []byte) {
	p.mu.Lock()
	m1, s1 := p.id(false)
	m2, s2 := p.id(true)
	p.mu.Unlock()
	pong := append(append(c13U32(c13CrcPong), c13U64(1)...), c13U64(2)...)
	var b bytes.Buffer
	b.Write(c13U32(c13CrcCont))
	b.Write(c13U32(2))
	for _, x := range []struct {
		mid  uint64
		seq  uint32
		body []byte
	}{{m1, s1, pong}, {m2, s2, body}} {
		b.Write(c13U64(x.mid))
		b.Write(c13U32(x.seq))
		b.Write(c13U32(uint32(len(x.body))))
		b.Write(x.body)
	}
	p.send(b.Bytes(), false)
}

func (p *c13Peer) stop() {
	_ = p.ln.Close()
	p.mu.Lock()
	if p.conn != nil {
		_ = p.conn.Close()
	}
	p.mu.Unlock()
}

func c13Gzip(plain []byte) []byte {
	var buf bytes.Buffer
	zw := gzip.NewWriter(&buf)
	_, _ = zw.Write(plain)
	_ = zw.Close()
	return append(c13U32(c13CrcGzip), c13Str(buf.Bytes())...)
}

func c13RpcResult(req uint64, payload []byte) []byte {
	return append(append(c13U32(c13CrcRpcRes), c13U64(req)...), payload...)
}

type c13Store struct {
	mu sync.Mutex
	s  *session.Session
}

func (st *c13Store) Load() (*session.Session, error) {
	st.mu.Lock()
	defer st.mu.Unlock()
	c := *st.s
	return &c, nil
}

func (st *c13Store) Store(x *session.Session) error {
	st.mu.Lock()
	defer st.mu.Unlock()
	c := *x
	st.s = &c
	return nil
}

// ---- one operation --------------------------------------------------------------------------------------------

type c13Ret struct {
	out   []reflect.Value
	panic string
}

// A call gets c13Deadline to return after the answer went out. Once the client has reported a warning (it
// could not make sense of a message) only c13AfterWarning more; when five calls of a run have not returned,
// the tree is broken and the rest of the run is about naming the methods, so the wait after a warning shrinks.
const c13Deadline = 6 * time.Second

var c13NoReturns int

func c13AfterWarning() time.Duration {
	if c13NoReturns >= 5 {
		return 120 * time.Millisecond
	}
	return 500 * time.Millisecond
}

func c13San(s string) string {
	s = strings.Map(func(r rune) rune {
		if r == ' ' || r == '\n' || r == '\t' {
			return '_'
		}
		if r < 33 || r > 126 {
			return '?'
		}
		return r
	}, s)
	if len(s) > 160 {
		s = s[:160]
	}
	return s
}

func c13Dump(v reflect.Value) string {
	if !v.IsValid() {
		return "N"
	}
	if v.Kind() == reflect.Bool {
		if v.Bool() {
			return "T"
		}
		return "F"
	}
	if (v.Kind() == reflect.Interface || v.Kind() == reflect.Ptr || v.Kind() == reflect.Slice) && v.IsNil() {
		if v.Kind() == reflect.Slice {
			return "v()"
		}
		return "N"
	}
	return eraseNil(dumpAny(v.Interface()))
}

func c13Short(s string) string {
	if len(s) > 200 {
		return fmt.Sprintf("%s…(%d chars, fnv %d)", s[:200], len(s), fnv32([]byte(s)))
	}
	return s
}

// c13Split: "Wrapper/Inner" -> the two methods
func (w *c13World) lookup(name string) (cm, inner *c13Method, err error) {
	parts := strings.SplitN(name, "/", 2)
	cm = w.methods[parts[0]]
	if cm == nil {
		return nil, nil, fmt.Errorf("no client method %s with a schema function", parts[0])
	}
	if len(parts) == 2 {
		if inner = w.methods[parts[1]]; inner == nil || inner.def.generic {
			return nil, nil, fmt.Errorf("no generated client method %s", parts[1])
		}
	}
	if cm.def.generic != (inner != nil) {
		return nil, nil, fmt.Errorf("%s: a wrapper needs a query, a generated method takes none", parts[0])
	}
	return cm, inner, nil
}

type c13Plan struct {
	cm, inner *c13Method
	args      []reflect.Value
	want      []byte // the request
	res       reflect.Value
	payload   []byte
	inter     string // "" | "w" | "w1": the call is made while other calls are under way (see the head of the file)
}

func c13Seed(op []string) uint64 {
	k, _ := strconv.ParseUint(op[5], 10, 64)
	return k*0x9E3779B97F4A7C15 ^ uint64(fnv32([]byte(op[1]+" "+op[2]+" "+op[3])))
}

// plan builds arguments, expected request, answer value and payload of an operation (no I/O).
func (w *c13World) plan(op []string) (*c13Plan, error) {
	cm, inner, err := w.lookup(op[1])
	if err != nil {
		return nil, err
	}
	if op[2] != "z" && op[2] != "p" {
		return nil, fmt.Errorf("bad args token")
	}
	pl := &c13Plan{cm: cm, inner: inner}
	size := op[3]
	if i := strings.IndexByte(size, '~'); i >= 0 {
		size, pl.inter = size[:i], size[i+1:]
		if (pl.inter != "w" && pl.inter != "w1") || inner != nil || op[4] != "plain" {
			return nil, fmt.Errorf("bad size token")
		}
	}
	r := NewRand(c13Seed(op))
	amk := &c13Mk{s: w.s, r: r, scal: op[2] == "p", pop: op[2] == "p", vecN: -1, inner: inner}
	if pl.args, pl.want, err = w.args(cm, amk); err != nil {
		return nil, fmt.Errorf("arguments: %v", err)
	}
	resDef, outT := cm.def, cm.typ.Out(0)
	if inner != nil {
		resDef, outT = inner.def, inner.typ.Out(0)
	}
	rmk := &c13Mk{s: w.s, r: r, scal: true, pop: true, vecN: -1, n: 500}
	if op[2] == "z" {
		rmk.n = 501 // a Bool result is boolTrue for the call with zero arguments, boolFalse for the populated one
	}
	switch {
	case size == "s":
		if resDef.resTy.kind == "vector" {
			return nil, fmt.Errorf("size s is for results that are not vectors")
		}
		rmk.pop = false
	case size == "big":
		rmk.big = true
		rmk.pop = false
	case strings.HasPrefix(size, "n"):
		n, err := strconv.Atoi(size[1:])
		if err != nil || n < 0 || n > 1<<17 || resDef.resTy.kind != "vector" {
			return nil, fmt.Errorf("bad size token")
		}
		rmk.vecN = n
		rmk.pop = n < 1000 // a long vector is made of the smallest elements
	default:
		return nil, fmt.Errorf("bad size token")
	}
	if pl.res, pl.payload, err = w.result(resDef, outT, rmk); err != nil {
		return nil, fmt.Errorf("answer: %v", err)
	}
	if size == "big" && len(pl.payload) <= c13Window {
		return nil, fmt.Errorf("answer: no value of %s larger than %d bytes was found", resDef.res, c13Window)
	}
	switch op[4] {
	case "plain", "cont", "gz", "salt", "saltgz", "gzall":
	case "wrong", "null":
		if inner != nil {
			return nil, fmt.Errorf("bad shape token") // the wrappers assert nothing (known finding: they return tl.Object)
		}
	default:
		return nil, fmt.Errorf("bad shape token")
	}
	return pl, nil
}

func c13Exec(op []string) string {
	if len(op) != 6 || op[0] != "c13.e2e" {
		return "bad-op"
	}
	w, err := c13Load()
	if err != nil {
		return "harness:" + c13San(err.Error())
	}
	t0 := time.Now()
	pl, err := w.plan(op)
	if err != nil {
		return "harness:" + c13San(err.Error())
	}
	tPlan := time.Since(t0)
	c13Calls++
	key := envLCG(256, 99)
	peer, err := c13NewPeer(key)
	if err != nil {
		return "harness:listen"
	}
	defer peer.stop()
	addr := peer.ln.Addr().String()
	store := &c13Store{s: &session.Session{Key: key, Hash: envSha1(key)[12:20], Salt: 1000, Hostname: addr}}
	m, err := mtproto.NewMTProto(mtproto.Config{SessionStorage: store, ServerHost: addr})
	if err != nil {
		return "harness:client:" + c13San(err.Error())
	}
	var wmu sync.Mutex
	var warns []string
	var firstWarn time.Time
	m.Warnings = make(chan error, 1024)
	go func() {
		for e := range m.Warnings {
			wmu.Lock()
			if len(warns) == 0 {
				firstWarn = time.Now()
			}
			if len(warns) < 4 {
				warns = append(warns, e.Error())
			}
			wmu.Unlock()
		}
	}()
	if err := m.CreateConnection(); err != nil {
		return "harness:connect:" + c13San(err.Error())
	}
	defer func() {
		done := make(chan struct{})
		go func() { _ = m.Disconnect(); close(done) }()
		select {
		case <-done:
		case <-time.After(time.Second):
		}
	}()
	client := &telegram.Client{MTProto: m}
	fn := reflect.ValueOf(client).Method(pl.cm.idx)
	if pl.inter != "" {
		if out := w.interleaved(op, pl, peer, client); out != "" {
			return out
		}
		return c13OK(op)
	}

	ret := make(chan c13Ret, 1)
	go func() {
		defer func() {
			if r := recover(); r != nil {
				ret <- c13Ret{panic: c13San(fmt.Sprint(r))}
			}
		}()
		ret <- c13Ret{out: fn.Call(pl.args)}
	}()

	warning := func() string {
		wmu.Lock()
		defer wmu.Unlock()
		if len(warns) == 0 {
			return "-"
		}
		ws := warns[0]
		// the cause is at the end of the wrapped message
		if len(ws) > 150 {
			ws = "…" + ws[len(ws)-150:]
		}
		return c13San(ws)
	}
	// wait: a frame from the client, or the call's return, within the deadline; once the client has
	// reported a warning, only c13AfterWarning() more
	start := time.Now()
	expired := func() bool {
		wmu.Lock()
		fw := firstWarn
		wmu.Unlock()
		if !fw.IsZero() && time.Since(fw) > c13AfterWarning() {
			return true
		}
		return time.Since(start) > c13Deadline
	}
	early := func(r c13Ret, stage string) string {
		if r.panic != "" {
			return "panic(" + r.panic + ") stage=" + stage
		}
		if len(r.out) == 2 && !r.out[1].IsNil() {
			return "error(" + c13San(r.out[1].Interface().(error).Error()) + ") stage=" + stage
		}
		return "returned-before-the-answer stage=" + stage + " value=" + c13Short(c13Dump(r.out[0]))
	}
	waitReq := func(stage string) (c13Frame, string) {
		for {
			select {
			case f := <-peer.reqs:
				return f, ""
			case r := <-ret:
				return c13Frame{}, early(r, stage)
			case <-time.After(2 * time.Millisecond):
				if expired() {
					c13NoReturns++
					return c13Frame{}, "no-request stage=" + stage + " warning=" + warning()
				}
			}
		}
	}
	check := func(f c13Frame, stage string) string {
		if !bytes.Equal(f.body, pl.want) {
			return fmt.Sprintf("request-differs stage=%s schema-says=%s sent=%s", stage, c13ShowReq(pl.want), c13ShowReq(f.body))
		}
		return ""
	}

	f, fail := waitReq("first-request")
	if fail == "" {
		fail = check(f, "first-request")
	}
	if fail != "" {
		return fail
	}
	shape := op[4]
	if shape == "salt" || shape == "saltgz" {
		first := f
		peer.send(bytes.Join([][]byte{c13U32(c13CrcBadSalt), c13U64(f.mid), c13U32(f.seq), c13U32(48), c13U64(0x5a17c0de5a17)}, nil), false)
		start = time.Now()
		if f, fail = waitReq("request-again-after-bad-server-salt"); fail != "" {
			return fail
		}
		if fail = check(f, "request-again-after-bad-server-salt"); fail != "" {
			return fail
		}
		if f.mid == first.mid {
			return "request-again-under-the-same-msg-id"
		}
	}
	payload := pl.payload
	if shape == "wrong" || shape == "null" {
		// D32: a well-formed answer of ANOTHER type than the method declares — `null`, or boolTrue (pong for a method that
		// declares Bool). "An unexpected constructor" is among the messages C16 names: the call must return an error;
		// until the repair the generated method panicked in the caller's goroutine (the process of the application ends)
		payload = c13U32(0x56730bcc)
		if shape == "wrong" {
			payload = c13U32(0x997275b5)
			if pl.cm.def.res == "Bool" {
				payload = bytes.Join([][]byte{c13U32(0x347773c5), c13U64(f.mid), c13U64(7)}, nil)
			}
		}
	}
	if shape == "gz" || shape == "saltgz" {
		payload = c13Gzip(payload)
	}
	body := c13RpcResult(f.mid, payload)
	if shape == "gzall" {
		// the WHOLE message packed: gzip_packed{rpc_result{…}} (gzip_packed stands for any object; D35: the hints of a
		// call that declares a vector were looked up from the first word of the body only)
		body = c13Gzip(body)
	}
	if shape == "cont" {
		peer.sendContainer(body)
	} else {
		peer.send(body, true)
	}
	start = time.Now()
	var r c13Ret
	for got := false; !got; {
		select {
		case r = <-ret:
			got = true
		case <-peer.reqs:
			return "unexpected-further-request-after-the-answer"
		case <-time.After(2 * time.Millisecond):
			if expired() {
				c13NoReturns++
				return fmt.Sprintf("no-return answer-bytes=%d warning=%s", len(pl.payload), warning())
			}
		}
	}
	if r.panic != "" {
		return "panic(" + r.panic + ") stage=answer-delivered"
	}
	if len(r.out) != 2 {
		return "harness:method-shape"
	}
	if shape == "wrong" || shape == "null" {
		if r.out[1].IsNil() {
			return "returned-a-value-for-an-answer-of-another-type value=" + c13Short(c13Dump(r.out[0]))
		}
		if !r.out[0].IsZero() {
			return "error-together-with-a-value value=" + c13Short(c13Dump(r.out[0]))
		}
		return c13OK(op)
	}
	if !r.out[1].IsNil() {
		return "error(" + c13San(r.out[1].Interface().(error).Error()) + ") stage=answer-delivered"
	}
	got := r.out[0]
	tRet := time.Since(start)
	t1 := time.Now()
	defer func() {
		if os.Getenv("C13_TIMING") != "" {
			fmt.Fprintf(os.Stderr, "timing %s plan=%v answer->return=%v compare=%v\n", strings.Join(op[1:5], " "), tPlan, tRet, time.Since(t1))
		}
	}()
	wantDump, gotDump := "", ""
	if len(pl.payload) <= 8192 {
		wantDump, gotDump = c13Dump(pl.res), c13Dump(got)
	}
	resDef := pl.cm.def
	if pl.inner != nil {
		resDef = pl.inner.def
	}
	var back bytes.Buffer
	ty := resDef.resTy
	if err := w.s.ser(&ty, got, &back); err != nil {
		return "result-is-no-" + c13San(resDef.res) + " (" + c13San(err.Error()) + ") value=" + c13Short(c13Dump(got))
	}
	if !bytes.Equal(back.Bytes(), pl.payload) || wantDump != gotDump {
		return "result-differs sent=" + c13Short(c13Dump(pl.res)) + " returned=" + c13Short(c13Dump(got))
	}
	if d := peer.damagedMsgs(); d != "" {
		return "damaged-message " + c13San(d)
	}
	return c13OK(op)
}

// interleaved: the call of pl (the method under test, A) made while other calls are under way on the same
// client. B, another generated method, is called first; its write is held in the transport's write hook (the write
// lock is taken: "a write in progress"). Then A is called: it encodes its request and waits for the lock. Then C, a
// third generated method, is called and encodes; the peer sends new_session_created, which the receive loop
// acknowledges (it encodes a msgs_ack). When the hold ends the four messages are written. The peer must have
// received, in any order, exactly the three requests the schema defines for the three calls' arguments (and a
// well-formed acknowledgement); it answers each with the value built for that call; every call must return its own.
// Returns "" when all of that holds.
func (w *c13World) interleaved(op []string, pl *c13Plan, peer *c13Peer, client *telegram.Client) string {
	const stage = "encoded-while-a-write-is-in-progress-and-other-callers-encode"
	// the companions: two other generated methods, zero arguments, smallest answers
	r := NewRand(c13Seed(op) ^ 0x1e7e21ea5ed)
	plans := []*c13Plan{nil, pl, nil} // B, A, C
	for slot, tries := 0, 0; slot < 3; tries++ {
		if slot == 1 {
			slot++
			continue
		}
		if tries > 200 {
			return "harness:no-companion-methods"
		}
		n := w.names[r.Intn(len(w.names))]
		cm := w.methods[n]
		if cm.def.generic || n == pl.cm.goName || (plans[0] != nil && n == plans[0].cm.goName) {
			continue
		}
		size := "s"
		if cm.def.resTy.kind == "vector" {
			size = "n3"
		}
		cp, err := w.plan([]string{"c13.e2e", n, "z", size, "plain", op[5]})
		if err != nil || bytes.Equal(cp.want, pl.want) {
			continue
		}
		plans[slot] = cp
		slot++
	}
	if pl.inter == "w1" {
		defer runtime.GOMAXPROCS(runtime.GOMAXPROCS(1))
	}
	// the first write of this client is held for a while, inside WriteMsg (under the client's write lock)
	var hmu sync.Mutex
	held := false
	transport.VerifYield = func(point string, _ interface{}) {
		if point != "write" {
			return
		}
		hmu.Lock()
		first := !held
		held = true
		hmu.Unlock()
		if first {
			time.Sleep(6 * time.Millisecond)
		}
	}
	defer func() { transport.VerifYield = nil }()

	rets := make([]chan c13Ret, 3)
	call := func(i int) {
		rets[i] = make(chan c13Ret, 1)
		fn := reflect.ValueOf(client).Method(plans[i].cm.idx)
		go func() {
			defer func() {
				if r := recover(); r != nil {
					rets[i] <- c13Ret{panic: c13San(fmt.Sprint(r))}
				}
			}()
			rets[i] <- c13Ret{out: fn.Call(plans[i].args)}
		}()
	}
	call(0)
	time.Sleep(1500 * time.Microsecond)
	call(1)
	time.Sleep(1500 * time.Microsecond)
	call(2)
	time.Sleep(500 * time.Microsecond)
	peer.send(bytes.Join([][]byte{c13U32(0x9ec20908), c13U64(5), c13U64(6), c13U64(0x5a17c0de5a18)}, nil), true)

	who := func(i int) string {
		return []string{"first-caller", "method-under-test", "third-caller"}[i] + ":" + plans[i].cm.goName
	}
	// the three requests, in any order
	var frames []c13Frame
	wait := c13Deadline
	if c13NoReturns >= 5 {
		wait = 300 * time.Millisecond // the tree is broken: the rest of the run is about naming the methods
	}
	deadline := time.Now().Add(wait)
	for len(frames) < 3 && time.Now().Before(deadline) {
		select {
		case f := <-peer.reqs:
			frames = append(frames, f)
		case <-time.After(2 * time.Millisecond):
			peer.mu.Lock()
			nd := len(peer.damaged)
			peer.mu.Unlock()
			if nd > 0 && len(frames)+nd >= 3 && time.Until(deadline) > 40*time.Millisecond {
				// requests went out under the constructor of another message: they will not come any more
				deadline = time.Now().Add(40 * time.Millisecond)
			}
		}
	}
	owner := make([]int, len(frames)) // frame -> call
	seen := make([]int, 3)
	var strange []string
	for k, f := range frames {
		owner[k] = -1
		for i := range plans {
			if bytes.Equal(f.body, plans[i].want) {
				owner[k] = i
				seen[i]++
			}
		}
		if owner[k] < 0 {
			strange = append(strange, c13ShowReq(f.body))
		}
	}
	if d := peer.damagedMsgs(); d != "" {
		strange = append(strange, d)
	}
	for _, i := range []int{1, 0, 2} {
		if seen[i] != 1 {
			c13NoReturns++
			return fmt.Sprintf("request-differs stage=%s %s: the server received its request %d times; schema-says=%s; received-instead=%s",
				stage, who(i), seen[i], c13ShowReq(plans[i].want), c13San(strings.Join(strange, ",")))
		}
	}
	if len(strange) > 0 {
		return "damaged-message stage=" + stage + " " + c13San(strings.Join(strange, ","))
	}
	// each request is answered with the value built for its call
	for k, f := range frames {
		peer.send(c13RpcResult(f.mid, plans[owner[k]].payload), true)
	}
	for _, i := range []int{1, 0, 2} {
		var rt c13Ret
		select {
		case rt = <-rets[i]:
		case <-time.After(c13Deadline):
			c13NoReturns++
			return fmt.Sprintf("no-return stage=%s %s answer-bytes=%d", stage, who(i), len(plans[i].payload))
		}
		if rt.panic != "" {
			return "panic(" + rt.panic + ") stage=" + stage + " " + who(i)
		}
		if len(rt.out) != 2 {
			return "harness:method-shape"
		}
		if !rt.out[1].IsNil() {
			return "error(" + c13San(rt.out[1].Interface().(error).Error()) + ") stage=" + stage + " " + who(i)
		}
		resDef := plans[i].cm.def
		var back bytes.Buffer
		ty := resDef.resTy
		if err := w.s.ser(&ty, rt.out[0], &back); err != nil {
			return "result-is-no-" + c13San(resDef.res) + " (" + c13San(err.Error()) + ") " + who(i) + " value=" + c13Short(c13Dump(rt.out[0]))
		}
		if !bytes.Equal(back.Bytes(), plans[i].payload) || (len(plans[i].payload) <= 8192 && c13Dump(plans[i].res) != c13Dump(rt.out[0])) {
			return "result-differs stage=" + stage + " " + who(i) + " sent=" + c13Short(c13Dump(plans[i].res)) + " returned=" + c13Short(c13Dump(rt.out[0]))
		}
	}
	if d := peer.damagedMsgs(); d != "" {
		return "damaged-message stage=" + stage + " " + c13San(d)
	}
	return ""
}

func c13ShowReq(b []byte) string {
	if len(b) <= 96 {
		return hexD(b)
	}
	return fmt.Sprintf("%s…(%d bytes, fnv %d)", hexD(b[:96]), len(b), fnv32(b))
}

// c13OK: the line an operation yields when the property holds for it (the Lean driver prints the same)
func c13OK(op []string) string {
	return "ok " + strings.Join(op[1:5], " ")
}

func c13Judge(op []string, out string) string {
	if len(op) == 0 || op[0] != "c13.e2e" {
		return ""
	}
	if len(op) == 6 && out == c13OK(op) {
		return ""
	}
	what := "client method " + op[1]
	if w, err := c13Load(); err == nil && strings.Contains(op[1], "/") {
		if _, inner, err := w.lookup(op[1]); err == nil && inner != nil {
			what = fmt.Sprintf("hand-written wrapper %s around the query %s (declared result %s)", strings.SplitN(op[1], "/", 2)[0], inner.def.name, inner.def.res)
		}
	}
	if len(op) == 6 {
		tok, inter := op[3], ""
		if i := strings.IndexByte(tok, '~'); i >= 0 {
			tok, inter = tok[:i], tok[i+1:]
		}
		size := map[string]string{"s": "the smallest value of the result type", "big": "a value of the result type larger than 32768 bytes"}[tok]
		if size == "" {
			size = "a Vector of " + strings.TrimPrefix(tok, "n") + " elements"
		}
		if inter != "" {
			what += " called while another call's write is in progress and a third caller and the receive loop encode their messages"
			if inter == "w1" {
				what += " (GOMAXPROCS 1)"
			}
		}
		how := map[string]string{"plain": "as a plain rpc_result", "cont": "inside a msg_container", "gz": "gzip_packed",
			"salt":   "after the first copy of the request was rejected with bad_server_salt",
			"saltgz": "gzip_packed, after the first copy of the request was rejected with bad_server_salt",
			"gzall":  "with the whole message gzip_packed (gzip_packed{rpc_result{answer}})",
			"wrong":  "- replaced by a well-formed value of ANOTHER type (boolTrue; pong for a Bool method): the call must return an error",
			"null":   "- replaced by null#56730bcc: the call must return an error"}[op[4]]
		args := map[string]string{"z": "zero-valued", "p": "populated"}[op[2]]
		what += fmt.Sprintf(" (%s arguments; answer: %s, delivered %s)", args, size, how)
	}
	switch {
	case strings.HasPrefix(out, "harness:") || out == "bad-op":
		return what + ": the harness could not carry the operation out: " + out
	case strings.HasPrefix(out, "request-differs"):
		return what + " does not send the request the schema defines for these arguments: " + out
	case strings.HasPrefix(out, "damaged-message"):
		return what + ": a message of the client reached the server damaged (not what its sender encoded): " + out
	case strings.HasPrefix(out, "no-request"):
		return what + ": no request reached the server: " + out
	case strings.HasPrefix(out, "no-return"):
		return what + " does not return the server's answer (no return within the deadline): " + out
	case strings.HasPrefix(out, "panic("):
		return what + " panics: " + out
	case strings.HasPrefix(out, "error("):
		return what + " returns an error instead of the server's answer: " + out
	}
	return what + " does not return the answer the server sent as the declared result kind: " + out
}

// ---- generation -------------------------------------------------------------------------------------------------

func c13Gen(g *G) {
	w, err := c13Load()
	if err != nil {
		g.Emit("c13.e2e <schema-unreadable> z s plain 0", "unreadable")
		return
	}
	k := func() string { return strconv.Itoa(1 + g.R.Intn(1<<20)) }
	emit := func(name, args, size, shape string, tags ...string) bool {
		op := []string{"c13.e2e", name, args, size, shape, k()}
		// whether a type has a value larger than one inflate window is found out by building one; every other
		// operation is emitted as it is (if the harness cannot build it, Exec says so and Judge reports it)
		var err error
		if size == "big" {
			_, err = w.plan(op)
		}
		if err != nil {
			key := "unbuildable:" + args + "/" + size
			n, _ := g.Extra[key].(int)
			g.Extra[key] = n + 1
			if lst, _ := g.Extra["unbuildable_sample"].([]string); len(lst) < 12 {
				g.Extra["unbuildable_sample"] = append(lst, name+" "+args+" "+size+": "+err.Error())
			}
			return false
		}
		g.Emit(strings.Join(op, " "), append(tags, "shape:"+shape, "args:"+args)...)
		return true
	}
	var gen, vec, wrappers []string
	for _, n := range w.names {
		cm := w.methods[n]
		switch {
		case cm.def.generic:
			wrappers = append(wrappers, n)
		case cm.def.resTy.kind == "vector":
			vec = append(vec, n)
			gen = append(gen, n)
		default:
			gen = append(gen, n)
		}
	}
	g.Extra["methods_with_schema_function"] = len(w.names)
	g.Extra["schema_functions_without_method"] = w.unmatched
	g.Extra["vector_result_methods"] = len(vec)
	small := func(n string) string {
		if w.methods[n].def.resTy.kind == "vector" {
			return "n3"
		}
		return "s"
	}
	kind := func(n string) string {
		cm := w.methods[n]
		t := "result:" + cm.def.resTy.kind
		if cm.viaStruct {
			t += "+params-struct"
		}
		return t
	}
	shapes := []string{"cont", "gz", "salt", "saltgz"}
	// D35: the whole message packed, for every method that declares a vector and a sample of the others
	for i, n := range gen {
		if w.methods[n].def.resTy.kind == "vector" || i%16 == 0 {
			emit(n, "z", small(n), "gzall", kind(n), "whole-message-packed")
		}
	}
	// (0) D32: every generated method answered with a well-formed value of another type, and with null: an error, no panic
	for _, n := range gen {
		emit(n, "z", small(n), "wrong", kind(n), "answer-of-another-type")
		emit(n, "z", small(n), "null", kind(n), "answer-of-another-type")
	}
	// (1) every method once with zero arguments, answered plainly; once with populated arguments and the
	// answer delivered in one of the other ways
	for _, n := range gen {
		emit(n, "z", small(n), "plain", kind(n))
	}
	for _, n := range gen {
		emit(n, "p", small(n), shapes[g.R.Intn(len(shapes))], kind(n))
	}
	// (1b) a sample of the methods (thorough: every method) called while other calls are under way on the same
	// client: a write in progress, the method's request encoded and waiting, another caller and the receive loop
	// encoding meanwhile — on all processors and on one
	{
		sample := append([]string{}, gen...)
		for i := len(sample) - 1; i > 0; i-- {
			j := g.R.Intn(i + 1)
			sample[i], sample[j] = sample[j], sample[i]
		}
		if n := g.N(40, len(sample)); len(sample) > n {
			sample = sample[:n]
		}
		for i, n := range sample {
			mode := []string{"~w1", "~w"}[i%2]
			if g.Thorough() {
				emit(n, "p", small(n)+"~w", "plain", "interleaved")
				mode = "~w1"
			}
			emit(n, []string{"z", "p"}[g.R.Intn(2)], small(n)+mode, "plain", "interleaved")
		}
	}
	// (2) every method with a Vector result: 0, 3, 5000 elements x every way of delivery; a vector larger
	// than one inflate window, packed
	for _, n := range vec {
		for _, size := range []string{"n0", "n3"} {
			for _, sh := range []string{"plain", "cont", "gz", "salt", "saltgz"} {
				if size == "n3" && sh == "plain" {
					continue // in (1)
				}
				emit(n, []string{"z", "p"}[g.R.Intn(2)], size, sh, "vector-matrix")
			}
		}
		long := []string{"plain", "gz", []string{"cont", "salt", "saltgz"}[g.R.Intn(3)]}
		if g.Thorough() {
			long = []string{"plain", "cont", "gz", "salt", "saltgz"}
		}
		for _, sh := range long {
			emit(n, []string{"z", "p"}[g.R.Intn(2)], "n5000", sh, "vector-matrix")
		}
		for _, sh := range []string{"gz", "saltgz", "plain"} {
			emit(n, "z", "big", sh, "big")
		}
	}
	// (3) answers larger than one inflate window for the other result types (where the type has a string,
	// bytes or vector to enlarge)
	perm := append([]string{}, gen...)
	for i := len(perm) - 1; i > 0; i-- {
		j := g.R.Intn(i + 1)
		perm[i], perm[j] = perm[j], perm[i]
	}
	nBig := g.N(48, len(perm))
	for _, n := range perm {
		if nBig == 0 {
			break
		}
		if w.methods[n].def.resTy.kind == "vector" {
			continue
		}
		if emit(n, "z", "big", []string{"gz", "gz", "saltgz", "cont"}[g.R.Intn(4)], "big") {
			nBig--
		}
	}
	// (4) the hand-written wrappers around queries with an object, a Bool and a Vector result
	var obj, boo []string
	for _, n := range gen {
		switch w.methods[n].def.resTy.kind {
		case "boxed":
			obj = append(obj, n)
		case "Bool":
			boo = append(boo, n)
		}
	}
	for _, wn := range wrappers {
		for _, sh := range []string{"plain", "cont", "gz", "salt"} {
			in := obj[g.R.Intn(len(obj))]
			emit(wn+"/"+in, []string{"z", "p"}[g.R.Intn(2)], "s", sh, "wrapper:object")
		}
		emit(wn+"/"+boo[g.R.Intn(len(boo))], "z", "s", "plain", "wrapper:Bool")
		if len(vec) > 0 {
			emit(wn+"/"+vec[g.R.Intn(len(vec))], "z", "n3", "plain", "wrapper:vector")
		}
	}
	// thorough: further argument sets for every method
	if g.Thorough() {
		for rep := 0; rep < 3; rep++ {
			for _, n := range gen {
				emit(n, "p", small(n), []string{"plain", "cont", "gz", "salt", "saltgz"}[g.R.Intn(5)], kind(n))
			}
		}
	}
}

func init() {
	register(&Prop{Name: "c13", Gen: c13Gen, Exec: c13Exec, Judge: c13Judge,
		Teardown: func() {
			if theG != nil {
				theG.Extra["calls_made"] = c13Calls
			}
		}})
}
