package main

// C17, "migration to configured and unconfigured data centres, with other calls in flight": SEVERAL calls are in flight at
// the old data centre H when it sends them away - it answers EVERY request with rpc_error 303 PHONE_MIGRATE_2 (what a data
// centre does with requests that belong elsewhere) and keeps its connection open. "The client reconnects to the address
// configured for data centre X and repeats the request there": every one of the calls must return the answer data centre
// A made for it.
//
//	c17.inflight <calls> <procs> <iters>
//
// Each iteration: a fresh client on a stored session for H, SetDCList({2: A}), CreateConnection, <calls> goroutines call
// MakeRequest(ping) with distinct ping ids at the same time. Independent judgement per iteration: every call returns,
// without panic and without error, the pong that A made for ITS ping id. calls = 1 is the control.
// Result: `inflight ok` (every call of every iteration returned its answer) or `inflight stranded` (the counts and the first
// failing iteration go into the Judge's complaint: `ok=<k>/<n> ran=<r> bad=<class>*<count>,... first=<iteration>:<detail>`).
// The Lean driver answers what the lifecycle model of the code as it is says (Props/C17Inflight.lean).
//
// On the unchanged tree calls >= 2 fails (D33, known finding c17-migration-strands-other-calls-in-flight): Reconnect
// cancels the reading routine and replaces the connection while the other calls still wait for answers on it; nothing
// fails or repeats them ("TODO: close ALL CHANNELS" in Disconnect), and a second caller's Reconnect closes the connection
// on which the first caller's repeated request waits.

import (
	"fmt"
	"runtime"
	"sort"
	"strconv"
	"strings"
	"sync/atomic"
	"time"

	"github.com/xelaj/mtproto"
)

func c17InflightOnce(calls int) (class, detail string) {
	key := envLCG(256, 1733)
	h := newC17rPeer(key, 2, "keep", 0)
	h.migrateAll = true
	a := newC17rPeer(key, 0, "", 0)
	var m *mtproto.MTProto
	defer func() {
		if m != nil {
			func() {
				defer func() { _ = recover() }()
				_ = m.Disconnect()
			}()
		}
		h.stop()
		a.stop()
	}()
	mm, err := mtproto.NewMTProto(mtproto.Config{SessionStorage: c17KeyedSession{key, h.addr()}, ServerHost: h.addr()})
	if err != nil {
		return "setup", "NewMTProto"
	}
	m = mm
	m.Warnings = make(chan error, 256)
	m.SetDCList(map[int]string{2: a.addr()})
	if err := m.CreateConnection(); err != nil {
		m = nil
		return "setup", "CreateConnection"
	}
	type one struct {
		res      c17rResult
		returned bool
		ping     int64
	}
	outs := make(chan one, calls)
	base := 0x17d00000 + atomic.AddInt64(&c17rPing, int64(2*calls+2))
	for i := 0; i < calls; i++ {
		ping := base + int64(i)
		go func() {
			r, ok := c17rCall(m, ping, 1500*time.Millisecond)
			outs <- one{r, ok, ping}
		}()
	}
	counts := func() string {
		h.mu.Lock()
		a.mu.Lock()
		defer h.mu.Unlock()
		defer a.mu.Unlock()
		return fmt.Sprintf("H{conns=%d reqs=%d} A{conns=%d reqs=%d}", len(h.conns), len(h.reqs), len(a.conns), len(a.reqs))
	}
	for i := 0; i < calls; i++ {
		o := <-outs
		switch {
		case !o.returned:
			class, detail = "call-no-return", counts()
		case o.res.panic:
			class, detail = "call-panic", clip(o.res.err.Error())
		case o.res.err != nil:
			class, detail = "call-error", clip(o.res.err.Error())+" "+counts()
		default:
			if _, ok := c17rAnsweredBy(a, o.res.v, o.ping); !ok {
				class, detail = "call-wrong-answer", fmt.Sprintf("%T %s", o.res.v, counts())
			}
		}
	}
	return class, detail
}

func c17InflightExec(op []string) (string, bool) {
	if len(op) == 0 || op[0] != "c17.inflight" {
		return "", false
	}
	if len(op) != 4 {
		return "bad-op", true
	}
	calls, ok0 := c17rNat(op[1])
	procs, ok1 := c17rNat(op[2])
	iters, ok2 := c17rNat(op[3])
	if !ok0 || !ok1 || !ok2 || calls < 1 || calls > 16 || procs < 1 || procs > 64 || iters < 1 || iters > 1000 ||
		strconv.Itoa(calls) != op[1] || strconv.Itoa(procs) != op[2] || strconv.Itoa(iters) != op[3] {
		return "bad-op", true
	}
	prev := runtime.GOMAXPROCS(procs)
	defer runtime.GOMAXPROCS(prev)
	okN, ran := 0, 0
	bad := map[string]int{}
	first := ""
	for i := 0; i < iters; i++ {
		if sum(bad) >= 2 { // a tree on which the calls hang: enough is known after two runs
			break
		}
		ran++
		class, detail := c17InflightOnce(calls)
		if class == "" {
			okN++
			continue
		}
		bad[class]++
		if first == "" {
			first = fmt.Sprintf("%d:%s:%s", i+1, class, strings.ReplaceAll(detail, " ", "_"))
		}
	}
	if len(bad) == 0 {
		return "inflight ok", true
	}
	var cl []string
	for k, v := range bad {
		cl = append(cl, fmt.Sprintf("%s*%d", k, v))
	}
	sort.Strings(cl)
	c17InflightDetail = fmt.Sprintf("ok=%d/%d ran=%d bad=%s first=%s", okN, iters, ran, strings.Join(cl, ","), first)
	return "inflight stranded", true
}

var c17InflightDetail string // of the last operation that ended `inflight stranded` (Judge runs right after Exec)

func c17InflightJudge(op []string, out string) string {
	if out == "bad-op" || len(op) != 4 {
		return ""
	}
	if out == "inflight ok" {
		return ""
	}
	if out == "inflight stranded" {
		out += " " + c17InflightDetail
	}
	return fmt.Sprintf("migration with other calls in flight (%s calls at once, each answered rpc_error 303 PHONE_MIGRATE_2 by the old data centre, "+
		"GOMAXPROCS %s): every call must return the answer the configured data centre made for it; got: %s", op[1], op[2], out)
}

func c17InflightGen(g *G) {
	g.Emit(fmt.Sprintf("c17.inflight 1 2 %d", g.N(10, 60)), "inflight-control")
	for _, calls := range []int{2, 3} {
		for _, procs := range []int{1, 4} {
			g.Emit(fmt.Sprintf("c17.inflight %d %d %d", calls, procs, g.N(6, 40)), "inflight-migration")
		}
	}
	if g.Thorough() {
		g.Emit("c17.inflight 8 16 20", "inflight-migration")
	}
}
