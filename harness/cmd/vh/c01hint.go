package main

// C01, bare vectors in an object position and the ARGUMENTS of the codec calls.
//
// A vector has no constructor of its own: where an object is expected (the top of a message, the result of an
// rpc_result, the object inside a gzip_packed, an element of a vector of objects) the decoder chooses the Go
// type from the caller's hints (`tl.DecodeUnknownObject(data, hints...)`, the state "decoder type hints" of the
// property). The round-trip law for such values: the bytes tl.Marshal writes for the vector, decoded with the
// hints that describe it, give the vector back - and, decoding being a function of (bytes, hints), they give it
// back EVERY time: a caller keeps one hints slice per request type and spreads it into every call.
//
//   c01.hint <wrap> <ety> <value> <hints> <rounds> <spare>
//     wrap    top = the vector alone | rpc = rpc_result{vector} | gz = gzip_packed{vector} | rpcgz = rpc_result{gzip_packed{vector}}
//     ety     element type of the value: i32 u32 i64 f64 bool str bytes p<hexid> f<interface>; a leading v = one more
//             level (vector of vectors of ...)
//     value   v(...) in the text form of x_tlval.go
//     hints   element types of the hints, in order (each hint is the slice of it), `-` = none
//     rounds  how many times the SAME bytes are decoded with the SAME hints slice object (not a copy per call)
//     spare   spare capacity of the hints slice beyond its length (holds sentinels the decoder must leave alone)
//
// Real code: tl.Marshal(value) (inner bytes), wrapped by hand from the schema lines of rpc_result / gzip_packed,
// then `rounds` calls of tl.DecodeUnknownObject(outer, hints...). After the last call the arguments are compared
// with copies taken before the first: the hints (every slot up to the capacity), the input bytes, the value that
// was marshalled. Result line: enc=<inner> r1=<value|err|panic> ... rN=... hints=same|changed data=same|changed
// val=same|changed. The Lean driver answers with the decoder model on the same wrapping (a function: every
// round the same answer, arguments untouched).

import (
	"bytes"
	"compress/gzip"
	"encoding/binary"
	"fmt"
	"reflect"
	"sort"
	"strconv"
	"strings"

	"github.com/xelaj/mtproto/internal/encoding/tl"

	"github.com/xelaj/mtproto/verifharness/internal/reg"
)

const c01HintReqID = 0x5e0b700a00000041

var c01IfaceTypes map[string]reflect.Type

func c01IfaceByName() map[string]reflect.Type {
	if c01IfaceTypes == nil {
		c01IfaceTypes = map[string]reflect.Type{"tl.Object": tObject}
		var walk func(t reflect.Type)
		walk = func(t reflect.Type) {
			switch t.Kind() {
			case reflect.Interface:
				c01IfaceTypes[t.String()] = t
			case reflect.Slice:
				walk(t.Elem())
			}
		}
		for _, c := range reg.All() {
			for _, f := range c.Fields {
				walk(f.Type)
			}
		}
	}
	return c01IfaceTypes
}

// c01ElemType: the Go type of an element-type token (nil: not understood).
func c01ElemType(s string) reflect.Type {
	switch s {
	case "i32":
		return reflect.TypeOf(int32(0))
	case "u32":
		return reflect.TypeOf(uint32(0))
	case "i64":
		return reflect.TypeOf(int64(0))
	case "f64":
		return reflect.TypeOf(float64(0))
	case "bool":
		return reflect.TypeOf(false)
	case "str":
		return reflect.TypeOf("")
	case "bytes":
		return tBytes
	case "":
		return nil
	}
	switch s[0] {
	case 'v':
		if e := c01ElemType(s[1:]); e != nil {
			return reflect.SliceOf(e)
		}
	case 'p':
		var id uint32
		if _, err := fmt.Sscanf(s[1:], "%x", &id); err == nil {
			if c := reg.ByID()[id]; c != nil && c.Kind == "struct" {
				return c.Type
			}
		}
	case 'f':
		if t, ok := c01IfaceByName()[s[1:]]; ok {
			return t
		}
	}
	return nil
}

func c01HintTypes(s string) ([]reflect.Type, bool) {
	if s == "-" {
		return nil, true
	}
	var out []reflect.Type
	for _, t := range strings.Split(s, ",") {
		e := c01ElemType(t)
		if e == nil || strings.HasPrefix(t, "v") {
			return nil, false
		}
		out = append(out, reflect.SliceOf(e))
	}
	return out, true
}

// c01HintsFor: the hints that describe a value of element type ety: its own slice type; for a vector of
// vectors the outer vector is a vector of objects and every inner vector takes the next hint.
func c01HintsFor(ety string, v reflect.Value) []string {
	if strings.HasPrefix(ety, "v") {
		out := []string{"ftl.Object"}
		for i := 0; i < v.Len(); i++ {
			out = append(out, c01HintsFor(ety[1:], v.Index(i))...)
		}
		return out
	}
	return []string{ety}
}

type c01Sentinel struct{ _ int }

func c01HintWrap(wrap string, inner []byte) ([]byte, bool) {
	le := func(x uint32) []byte { b := make([]byte, 4); binary.LittleEndian.PutUint32(b, x); return b }
	outer := inner
	switch wrap {
	case "top", "rpc":
	case "gz", "rpcgz":
		var z bytes.Buffer
		zw := gzip.NewWriter(&z)
		_, _ = zw.Write(inner)
		_ = zw.Close()
		if z.Len() >= 1<<24 {
			return nil, false
		}
		outer = append(le(0x3072cfa1), c01TLBytes(z.Bytes())...)
	default:
		return nil, false
	}
	if wrap == "rpc" || wrap == "rpcgz" {
		req := make([]byte, 8)
		binary.LittleEndian.PutUint64(req, c01HintReqID)
		outer = append(append(le(0xf35c6d01), req...), outer...)
	}
	return outer, true
}

// c01HintWant: the text the decoder's result has when it returns the vector `val` inside the wrapping.
func c01HintWant(wrap, val string) string {
	switch wrap {
	case "rpc":
		return fmt.Sprintf("of35c6d01(l%d;%s)", uint64(c01HintReqID), val)
	case "gz":
		return "o3072cfa1(" + val + ")"
	case "rpcgz":
		return fmt.Sprintf("of35c6d01(l%d;o3072cfa1(%s))", uint64(c01HintReqID), val)
	}
	return val
}

func c01HintExec(op []string) string {
	if len(op) != 7 {
		return "bad-op"
	}
	wrap, ety, val := op[1], op[2], op[3]
	et := c01ElemType(ety)
	hintTypes, ok := c01HintTypes(op[4])
	rounds, err1 := strconv.Atoi(op[5])
	spare, err2 := strconv.Atoi(op[6])
	if et == nil || !ok || err1 != nil || err2 != nil || rounds < 1 || rounds > 16 || spare < 0 || spare > 16 || !strings.HasPrefix(val, "v") {
		return "bad-op"
	}
	v := parseTLValue(reflect.SliceOf(et), val)
	x := v.Interface()
	before := dumpVal(v)
	var inner []byte
	encS := tlOutcome(func() (string, error) {
		b, err := tl.Marshal(x)
		inner = b
		return showBytes(b), err
	})
	if encS == "err" || encS == "panic" {
		return "enc=" + encS
	}
	outer, ok := c01HintWrap(wrap, inner)
	if !ok {
		return "bad-op"
	}
	// ONE hints slice for all rounds, with spare capacity that holds sentinels
	full := make([]reflect.Type, len(hintTypes)+spare)
	copy(full, hintTypes)
	for i := len(hintTypes); i < len(full); i++ {
		full[i] = reflect.TypeOf(c01Sentinel{})
	}
	hints := full[:len(hintTypes)]
	if len(hintTypes) == 0 && spare == 0 {
		hints = nil
	}
	fullCopy := append([]reflect.Type{}, full...)
	outerCopy := append([]byte{}, outer...)
	var parts []string
	for r := 1; r <= rounds; r++ {
		res := tlOutcome(func() (string, error) {
			o, err := tl.DecodeUnknownObject(outer, hints...)
			if err != nil {
				return "", err
			}
			return dumpAny(o), nil
		})
		parts = append(parts, fmt.Sprintf("r%d=%s", r, res))
	}
	same := func(b bool) string {
		if b {
			return "same"
		}
		return "changed"
	}
	hintsSame := len(full) == len(fullCopy)
	for i := range fullCopy {
		hintsSame = hintsSame && full[i] == fullCopy[i]
	}
	return fmt.Sprintf("enc=%s %s hints=%s data=%s val=%s", encS, strings.Join(parts, " "),
		same(hintsSame), same(bytes.Equal(outer, outerCopy)), same(dumpVal(v) == before))
}

func c01HintJudge(op []string, out string) string {
	if len(op) != 7 || out == "bad-op" || out == "enc=err" {
		return ""
	}
	fs := strings.Fields(out)
	var rs []string
	for _, f := range fs[1:] {
		kv := strings.SplitN(f, "=", 2)
		if len(kv) != 2 {
			continue
		}
		switch {
		case kv[0] == "hints" && kv[1] != "same":
			return "tl.DecodeUnknownObject(data, hints...) changed the caller's hints slice (compared slot by slot, up to its capacity, with a copy taken before the first call): " + clip(out)
		case kv[0] == "data" && kv[1] != "same":
			return "tl.DecodeUnknownObject changed the bytes it was given to decode"
		case kv[0] == "val" && kv[1] != "same":
			return "tl.Marshal changed the value it was given to serialise"
		case strings.HasPrefix(kv[0], "r"):
			rs = append(rs, kv[1])
		}
	}
	for i, r := range rs {
		if r != rs[0] {
			return fmt.Sprintf("the same bytes decoded with the same hints slice give another result the %d. time than the first time: first %s, then %s", i+1, clip(rs[0]), clip(r))
		}
	}
	et := c01ElemType(op[2])
	if et == nil || len(rs) == 0 {
		return ""
	}
	v := parseTLValue(reflect.SliceOf(et), op[3])
	if !isCanonicalBy(v, c01SchemaFields) {
		return ""
	}
	// the hints describe the value (more hints may follow): the vector comes back
	need := strings.Join(c01HintsFor(op[2], v), ",")
	if op[4] != need && !strings.HasPrefix(op[4], need+",") {
		return ""
	}
	if want := eraseNil(c01HintWant(op[1], op[3])); eraseNil(rs[0]) != want {
		return fmt.Sprintf("decoding the serialised vector (%s) with the hints that describe it does not return the original: got %s", op[1], clip(rs[0]))
	}
	return ""
}

// c01HintOps: vectors of every element kind (numbers, Bool, strings, byte strings, pointers to constructors,
// boxed objects, vectors of vectors) in every wrapping, decoded 1 to 4 times with one hints slice, the slice with
// and without spare capacity, with and without hints left over after the last vector.
func c01HintOps(g *G, tg *tlGen) {
	saveCanon, saveBig := tg.alwaysCanon, tg.bigStrings
	tg.alwaysCanon, tg.bigStrings = true, false
	defer func() { tg.alwaysCanon, tg.bigStrings = saveCanon, saveBig }()
	scalars := []string{"i32", "u32", "i64", "f64", "bool", "str", "bytes"}
	// pointer and interface element types: those that occur as vector elements in the registry
	ptrSet, ifSet := map[string]bool{}, map[string]bool{}
	for _, c := range reg.All() {
		if c.Kind != "struct" || !marshalable(&c) {
			continue
		}
		for _, f := range c.Fields {
			if f.Ignore || f.Type.Kind() != reflect.Slice || f.Type == tBytes {
				continue
			}
			switch e := f.Type.Elem(); e.Kind() {
			case reflect.Ptr:
				if id, ok := reg.CrcOf(e); ok && e != tInt128 && e != tInt256 {
					if cc := reg.ByID()[id]; cc != nil && cc.Kind == "struct" && marshalable(cc) {
						ptrSet[fmt.Sprintf("p%08x", id)] = true
					}
				}
			case reflect.Interface:
				if len(tg.impls[e]) > 0 {
					ifSet["f"+e.String()] = true
				}
			}
		}
	}
	var ptrs, ifaces []string
	for k := range ptrSet {
		ptrs = append(ptrs, k)
	}
	for k := range ifSet {
		ifaces = append(ifaces, k)
	}
	sort.Strings(ptrs)
	sort.Strings(ifaces)
	wraps := []string{"top", "rpc", "gz", "rpcgz"}
	mk := func(ety string, n int) (reflect.Value, bool) {
		et := c01ElemType(ety)
		if et == nil {
			return reflect.Value{}, false
		}
		for tries := 0; tries < 20; tries++ {
			sl := reflect.MakeSlice(reflect.SliceOf(et), n, n)
			for i := 0; i < n; i++ {
				if strings.HasPrefix(ety, "v") {
					m := g.R.Intn(4)
					in := reflect.MakeSlice(et, m, m)
					for j := 0; j < m; j++ {
						in.Index(j).Set(tg.value(et.Elem(), tg.maxDepth-1, true))
					}
					sl.Index(i).Set(in)
				} else {
					sl.Index(i).Set(tg.value(et, tg.maxDepth-1, true))
				}
			}
			if isCanonicalBy(sl, c01SchemaFields) && len(dumpVal(sl)) < 20000 {
				return sl, true
			}
		}
		return reflect.Value{}, false
	}
	emitted := 0
	emit := func(wrap, ety string, n, rounds, spare, extra int, tag string) {
		sl, ok := mk(ety, n)
		if !ok {
			return
		}
		hs := c01HintsFor(ety, sl)
		for i := 0; i < extra; i++ { // hints left over after the last vector
			hs = append(hs, scalars[g.R.Intn(len(scalars))])
		}
		g.Emit(fmt.Sprintf("c01.hint %s %s %s %s %d %d", wrap, ety, dumpVal(sl), strings.Join(hs, ","), rounds, spare),
			"hinted-vector", "hinted-vector:"+tag, "hinted-vector:"+wrap, fmt.Sprintf("hinted-vector:rounds-%d", rounds))
		emitted++
	}
	// every scalar kind in every wrapping: decoded twice and more, without and with spare capacity
	for _, w := range wraps {
		for _, k := range scalars {
			emit(w, k, 1+g.R.Intn(5), 2, 0, 0, "scalar")
			emit(w, k, g.R.Intn(6), 2+g.R.Intn(3), 1+g.R.Intn(3), g.R.Intn(3), "scalar")
		}
	}
	// constructors and boxed objects as elements, vectors of vectors
	var objKinds []string
	objKinds = append(objKinds, ptrs...)
	objKinds = append(objKinds, ifaces...)
	for r := 0; r < g.N(40, 400) && len(objKinds) > 0; r++ {
		k := objKinds[g.R.Intn(len(objKinds))]
		emit(wraps[r%4], k, 1+g.R.Intn(4), 1+g.R.Intn(4), g.R.Intn(3), g.R.Intn(2), "object")
	}
	for r := 0; r < g.N(16, 120); r++ {
		k := scalars[g.R.Intn(len(scalars))]
		if r%4 == 3 && len(objKinds) > 0 {
			k = objKinds[g.R.Intn(len(objKinds))]
		}
		emit(wraps[r%4], "v"+k, 1+g.R.Intn(3), 1+g.R.Intn(3), g.R.Intn(3), g.R.Intn(2), "nested")
	}
	// one decoding only and no hints at all (refused: the control)
	for _, w := range wraps {
		emit(w, "i64", 2, 1, 0, 0, "once")
		g.Emit(fmt.Sprintf("c01.hint %s i64 v(l1;l2) - 2 %d", w, g.R.Intn(2)), "hinted-vector", "hinted-vector:no-hints")
	}
	g.Extra["hinted_vector_operations"] = emitted
}
