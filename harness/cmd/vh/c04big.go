package main

// C04, session 9: the SIZE axis of "every block-aligned garbage body under the right key id", and the result
// contract of every function of the receive path ("err == nil" means "here is a message").
//
// The quantifier of the property has no bound on the size of a packet; the sweeps of c04.go are quadratic in the
// packet size and therefore stay small. A guard or a buffer that behaves differently from some size on (seeded
// change C04-m15: `return nil, errors.Wrapf(nil, …)` = (nil, nil) for more than 2^24 encrypted bytes, followed by a
// nil dereference in transport.ReadMsg) lives exactly in the part that was left out. Packets of 2^10 … 2^24+2^20
// bytes do not travel as hex: the operation carries a description both sides expand with the same 64-bit LCG
// (envLCG / Mtv.Envelope.Exec.lcgBytes).
//
//   c04.big <open|route> <key> <desc> <expect>
//       desc  g:<n>:<seed>                    n bytes (n >= 8): the id of <key>, then LCG(n-8, seed) — garbage under the
//                                             right key id; block aligned iff (n-24) % 16 == 0
//             r:<total>:<seed>:<decl>:<span>  what a holder of the key can make: plaintext LCG(total, seed) (total a
//                                             positive multiple of 16, >= 32) with server msg_id parity forced
//                                             (byte 16 = b&^3|1) and the length field (bytes 28..31) set to int32
//                                             decl; msg_key over plain[:span]; sealed in the server's direction by the
//                                             specification server of x_envelope.go. decl in [0, total-32] and
//                                             span = 32+decl: a VALID sealing of a message of decl bytes
//       open  = messages.DeserializeEncrypted directly; route = transport.ReadMsg over a loopback TCP connection
//       expect: any (garbage) | refuse | ok (the judge derives the message from the description itself)
//   c04.cut <key> <declared> <sent> <seed>
//       the peer announces a frame of <declared> bytes, sends the first <sent> (< declared) bytes of g:<declared>:<seed>
//       and closes the connection: ReadMsg's own error returns (end of stream / broken connection). Must be an error,
//       no message, no panic. Result class: err:transport.
//
// Result contract (all operations of C04, see c04Open / c04Unenc / c04Routed): a call that returns err == nil and no
// usable message — a nil pointer, a nil interface, an interface holding a nil pointer — prints
// "ok-without-message(<where>)"; the judge reports it as "no error and no message".
//
// How large may a VALID packet be? The format carries the body length in a signed 32-bit field and the frame length
// in an unsigned one; the property names no limit ("its declared body length lies inside the decrypted data" is the
// only condition on the length). So every valid sealing the harness can afford must open: the check demands it up to
// 2^24+2^20 bytes (quick: one such packet; thorough: several more sizes), which is all the property's own size
// examples (none) and the seeded guard's threshold call for — nothing near 2^31 is demanded.

import (
	"context"
	"encoding/binary"
	"fmt"
	"io"
	"strconv"
	"strings"
	"time"

	"github.com/xelaj/mtproto/internal/mode"
	"github.com/xelaj/mtproto/internal/transport"
)

const c04NoMsg = "ok-without-message"

type c04Desc struct {
	kind              byte // 'g' or 'r'
	n                 int  // total packet length (g) / plaintext length (r)
	seed              uint64
	decl              int64
	span              int
	valid             bool // r: a valid sealing
	aligned, fitsHead bool
}

func c04ParseDesc(s string) (d c04Desc, ok bool) {
	p := strings.Split(s, ":")
	num := func(t string) (int64, bool) {
		v, err := strconv.ParseInt(t, 10, 64)
		return v, err == nil
	}
	if len(p) < 3 {
		return d, false
	}
	n, ok1 := num(p[1])
	sd, err := strconv.ParseUint(p[2], 10, 64)
	if !ok1 || err != nil || n < 0 || n > 1<<28 {
		return d, false
	}
	d.n, d.seed = int(n), sd
	switch {
	case p[0] == "g" && len(p) == 3 && n >= 8:
		d.kind = 'g'
		d.aligned = n >= 24+16 && (n-24)%16 == 0
		d.fitsHead = n >= 56
		return d, true
	case p[0] == "r" && len(p) == 5 && n >= 32 && n%16 == 0:
		decl, ok2 := num(p[3])
		span, ok3 := num(p[4])
		if !ok2 || !ok3 || decl < -1<<31 || decl > 1<<31-1 || span < 0 || span > n {
			return d, false
		}
		d.kind, d.decl, d.span = 'r', decl, int(span)
		d.valid = decl >= 0 && 32+decl <= n && span == 32+decl
		d.aligned, d.fitsHead = true, true
		return d, true
	}
	return d, false
}

func (d c04Desc) plain() []byte {
	p := envLCG(d.n, d.seed)
	p[16] = p[16]&^3 | 1
	binary.LittleEndian.PutUint32(p[28:], uint32(int32(d.decl)))
	return p
}

func (d c04Desc) packet(key []byte) []byte {
	if d.kind == 'g' {
		return append(append(make([]byte, 0, d.n), envSha1(key)[12:20]...), envLCG(d.n-8, d.seed)...)
	}
	return envSealRaw(8, key, d.plain(), d.span)
}

// the message a valid r-description seals
func (d c04Desc) msg() envMsg {
	p := d.plain()
	return envMsg{Salt: binary.LittleEndian.Uint64(p[0:]), Sid: binary.LittleEndian.Uint64(p[8:]),
		Mid: binary.LittleEndian.Uint64(p[16:]), Seq: binary.LittleEndian.Uint32(p[24:]), Body: p[32 : 32+d.decl]}
}

// c04Deliver: the frames, one after the other, in front of ONE transport.ReadMsg loop; keys[i] is the session's key
// when frame i is read. A frame is (declared length, bytes actually sent); after a frame that is cut short the peer
// closes the connection.
type c04Frame struct {
	key      []byte
	declared int
	data     []byte
}

func c04Deliver(frames []c04Frame) []string {
	next := make(chan c04Frame)
	done := make(chan struct{})
	go func() {
		defer close(done)
		conn, err := envListener.Accept()
		if err != nil {
			for range next {
			}
			return
		}
		ann := make([]byte, 4)
		_, _ = io.ReadFull(conn, ann)
		closed := false
		for f := range next {
			if closed {
				continue
			}
			hdr := make([]byte, 4)
			binary.LittleEndian.PutUint32(hdr, uint32(f.declared))
			_, _ = conn.Write(hdr)
			_, _ = conn.Write(f.data)
			if len(f.data) < f.declared {
				_ = conn.Close()
				closed = true
			}
		}
		if !closed {
			_ = conn.Close()
		}
	}()
	ctx, cancel := context.WithCancel(context.Background())
	defer cancel()
	inf := &c04Inf{}
	t, err := transport.NewTransport(inf, transport.TCPConnConfig{
		Ctx: ctx, Host: envListener.Addr().String(), Timeout: 10 * time.Second,
	}, mode.Intermediate)
	if err != nil {
		close(next)
		<-done
		return []string{"dial-error:" + err.Error()}
	}
	defer func() { close(next); t.Close(); <-done }()
	var outs []string
	alive := true
	for _, f := range frames {
		if !alive {
			outs = append(outs, "err:transport(dead)")
			continue
		}
		inf.key = append([]byte{}, f.key...) // the new key is a new value in new memory
		next <- f
		var res string
		func() {
			defer func() {
				if r := recover(); r != nil {
					res, alive = "panic:"+panicSite(), false
				}
			}()
			msg, err := t.ReadMsg()
			res, alive = c04Routed(msg, err)
		}()
		outs = append(outs, res)
	}
	return outs
}

var c04Cuts = map[string]int{}

func c04Big(op []string) string {
	switch op[0] {
	case "c04.big":
		if len(op) != 5 {
			return "bad-op"
		}
		d, ok := c04ParseDesc(op[3])
		if !ok || (op[1] != "open" && op[1] != "route") {
			return "bad-op"
		}
		key := envTok(op[2])
		pkt := d.packet(key)
		if op[1] == "open" {
			return c04Open(key, pkt)
		}
		return c04Deliver([]c04Frame{{key, len(pkt), pkt}})[0]
	case "c04.cut":
		if len(op) != 5 {
			return "bad-op"
		}
		declared, e1 := strconv.Atoi(op[2])
		sent, e2 := strconv.Atoi(op[3])
		seed, e3 := strconv.ParseUint(op[4], 10, 64)
		if e1 != nil || e2 != nil || e3 != nil || declared < 8 || declared > 1<<28 || sent < 0 || sent >= declared {
			return "bad-op"
		}
		key := envTok(op[1])
		pkt := c04Desc{kind: 'g', n: declared, seed: seed}.packet(key)
		out := c04Deliver([]c04Frame{{key, declared, pkt[:sent]}})[0]
		if strings.HasPrefix(out, "err:transport(") {
			// which of ReadMsg's two connection returns it was is counted, not compared (the model has one class)
			sub := "broken"
			if strings.Contains(out, "(EOF)") {
				sub = "eof"
			}
			c04Cuts[sub]++
			return "err:transport"
		}
		return out
	}
	return "bad-op"
}

// c04JudgeBig: the property on the result of a c04.big / c04.cut operation.
func c04JudgeBig(op []string, out string) string {
	if out == "bad-op" {
		return ""
	}
	if op[0] == "c04.cut" {
		if out != "err:transport" {
			return "a frame that was cut short by the end of the connection did not end in a connection error: " + clip(out)
		}
		return ""
	}
	d, ok := c04ParseDesc(op[3])
	if !ok {
		return ""
	}
	key := envTok(op[2])
	res := out
	what := fmt.Sprintf("a packet of %d bytes under the right key id", d.n)
	if d.kind == 'r' {
		what = fmt.Sprintf("a packet of %d bytes made by a key holder (declared length %d, msg_key over %d bytes)", d.n+24, d.decl, d.span)
	}
	if op[1] == "route" {
		if strings.HasPrefix(out, "dial-error") || strings.HasPrefix(out, "err:transport") {
			return "loopback transport failed on " + what + ": " + clip(out)
		}
		if strings.HasPrefix(out, "code:") || strings.HasPrefix(out, "unenc ") || strings.HasPrefix(out, "err:unenc") {
			return what + " was not given to the encrypted deserialiser: " + clip(out)
		}
		res = strings.TrimPrefix(out, "enc ")
	}
	accepted := strings.HasPrefix(res, "ok ")
	if !accepted && !strings.HasPrefix(res, "err:") {
		return "unclassified result: " + clip(out)
	}
	switch {
	case d.kind == 'r' && d.valid:
		if want := envShowMsg(d.msg()); res != want {
			return what + " is a valid sealing and was not opened to what was sealed: got " + clip(res) + ", want " + clip(want)
		}
	case d.kind == 'r':
		if accepted {
			return what + " is inconsistent and was accepted: " + clip(res)
		}
	default: // garbage
		if accepted && (!d.aligned || op[4] == "refuse") {
			return what + " was accepted: " + clip(res)
		}
		if accepted {
			m, why := envOpen(8, key, d.packet(key), false)
			if why != "" {
				return "accepted " + what + " that is not a valid sealing under this key: " + why
			}
			if res != envShowMsg(m) || (m.Mid%4 != 1 && m.Mid%4 != 3) {
				return "accepted message differs from the packet's content or has no server parity: " + clip(res)
			}
		}
	}
	return ""
}

// ---- generation -----------------------------------------------------------------------------------

func c04GenBig(g *G) {
	r := g.R
	th := g.Thorough()
	keyTok := fmt.Sprintf("x256:%d", r.U64()>>1)
	emit := func(via, desc, expect string, tags ...string) {
		g.Emit(fmt.Sprintf("c04.big %s %s %s %s", via, keyTok, desc, expect), append(tags, "big")...)
	}
	both := func(desc, expect string, routeToo bool, tags ...string) {
		emit("open", desc, expect, tags...)
		if routeToo {
			emit("route", desc, expect, append(tags, "big-route")...)
		}
	}
	// (a1) garbage under the right key id at and around every power of two 2^10 .. 2^24: packet = 24 + body, body
	// block aligned (the property's class) and not. Every size through DeserializeEncrypted; through ReadMsg for a
	// share of the small ones and for every size from 2^23 on.
	for e := 10; e <= 24; e++ {
		p := 1 << uint(e)
		offs := []int{0}
		if th || e >= 23 || e%4 == 0 {
			offs = []int{-16, 0, 16}
		}
		if th {
			offs = append(offs, -32, 32, 16*(1+r.Intn(1<<uint(e-6))))
		}
		for _, off := range offs {
			body := p + off
			big := body >= 1<<23
			both(fmt.Sprintf("g:%d:%d", 24+body, r.U64()>>1), "any", big || r.Intn(3) == 0, "big-garbage-aligned", fmt.Sprintf("big-garbage-2^%d", e))
			if off == 0 {
				// the same size not block aligned, and the packet (not the body) of exactly 2^e bytes
				both(fmt.Sprintf("g:%d:%d", 24+body+1+r.Intn(15), r.U64()>>1), "refuse", big, "big-garbage-unaligned")
				both(fmt.Sprintf("g:%d:%d", p, r.U64()>>1), "refuse", false, "big-garbage-unaligned")
			}
		}
	}
	// beyond 2^24
	beyond := []int{1<<24 + 1<<20}
	if th {
		beyond = append(beyond, 1<<24+1<<16, 1<<24+1<<23, 1<<25, 1<<25+16, 3<<24)
	}
	for _, body := range beyond {
		both(fmt.Sprintf("g:%d:%d", 24+body, r.U64()>>1), "any", true, "big-garbage-aligned", "big-garbage-beyond-2^24")
	}
	// (a2) VALID sealings of large messages: a guard that refuses what the format carries is seen as well
	totals := []int{1 << 10, 1 << 14, 1 << 16, 1 << 20, 1<<20 + 1<<16}
	bigTotals := []int{1<<24 + 1<<20}
	if th {
		totals = append(totals, 1<<12, 1<<18, 1<<22, 1<<23)
		bigTotals = []int{1 << 24, 1<<24 - 16, 1<<24 + 16, 1<<24 + 32, 1<<24 + 1<<20, 1 << 25}
	}
	for _, total := range append(totals, bigTotals...) {
		decl := total - 32 - r.Intn(16)
		both(fmt.Sprintf("r:%d:%d:%d:%d", total, r.U64()>>1, decl, 32+decl), "ok", total >= 1<<20, "big-valid", fmt.Sprintf("big-valid-total=%d", total))
	}
	// (a3) holding the key, large: declared length just outside the decrypted data, negative, msg_key over another span
	for _, total := range []int{1 << 16, 1 << 20} {
		sd := r.U64() >> 1
		for _, c := range [][2]int64{{int64(total) - 31, int64(total)}, {int64(total), int64(total)}, {-1, 31}, {-1 << 31, 32},
			{1<<31 - 1, int64(total)}, {int64(total) - 32, int64(total) - 16}, {int64(total) - 48, int64(total)}} {
			both(fmt.Sprintf("r:%d:%d:%d:%d", total, sd, c[0], c[1]), "refuse", r.Intn(4) == 0, "big-reseal-inconsistent")
		}
	}
	// (c) ReadMsg's own returns: the connection ends inside / before a frame
	for _, c := range [][2]int{{56, 0}, {56, 1}, {56, 55}, {1 << 16, 1 << 10}, {1 << 20, 1<<20 - 1}, {1<<24 + 40, 1 << 16}} {
		g.Emit(fmt.Sprintf("c04.cut %s %d %d %d", keyTok, c[0], c[1], r.U64()>>1), "cut", "big")
	}
}
