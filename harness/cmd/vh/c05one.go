package main

// C05 — sequences of calls in which exactly ONE argument changes from one call to the next.
//
// The property speaks of every call on its own: "for every key, IV and input", "keys derived from the TWO
// nonces". Code that remembers a result of an earlier call and finds it again by PART of the arguments — the
// temporary keys memoised under new_nonce alone (C05-m17), a key schedule cached under the auth key without
// the message key or without the direction, a cipher object kept per key with the IV of its first use, a
// digest cached under the length or the first bytes of a message — is right for any run whose consecutive
// calls differ in every argument (random arguments do, and so does the complement the decoy pass of c05Exec
// uses) or in none (the "same nonces throughout" sequences of c05par.go). It is wrong exactly when a call
// follows one with which it shares the arguments the memory is keyed by and differs in another one. So, for
// every function of internal/aes_ige with more than one argument (and MessageKey, whose one argument has parts:
// length, head, tail), and for every argument position j of it:
//
//	base · v1 · v2 · base · v3 · v4        (only argument j differs; every other argument equal BY VALUE)
//
// where the v_k are made from the base value in every way a partial key could overlook: a new random value;
// one bit flipped in the last / the first / some byte of the part of the argument the function reads; the same
// head with a new tail; the same tail with a new head; one to three leading zero bytes (nonces — the
// fixed-width conversion); one step longer / shorter (messages, block data). The return to the base value
// after two others shows a memory of depth one being refilled, v3/v4 a second round.
//
// Every chain runs twice:
//   c05.seq   | member | …   on FRESH private buffers per call (c05Prep: equal by value, never the same memory);
//   c05.seqip | member | …   every argument in the SAME long-lived caller memory refilled in place from call to
//                            call — the windows of c05Arena (one layout for the whole sequence: equal lengths ⇒
//                            equal addresses) and the two long-lived big.Ints of c05Exec1 — no decoy pass, no
//                            forced collection between the calls; the memory checks of c05Exec1 (arguments,
//                            guard zones, retention) stay on.
// and a few c05.par batches hold one argument fixed over all goroutines.
//
// New ordinary operations (so that the two remaining functions are reached on their own):
//   c05.mkey <msg>                      MessageKey(msg)                     → ok:<16 bytes>
//   c05.kdf  <msg_key> <auth_key> <0|1> generateAESIGE(msg_key, auth_key, decode) through the verif hook
//                                       → key=… iv=… (panic:… for an auth key it cannot work with)
//
// Every member is judged by the independent oracle of its ordinary operation (reference derivation /
// conformant peer / IGE definition — never by the library's own inverse), c05JudgeBatch.

import (
	"bytes"
	"fmt"
	"strings"
)

var (
	c05NoCollect bool   // c05.seqip: c05Later does nothing
	c05LayoutOf  string // c05.seqip: the layout of every member is that of the whole line
)

// c05SeqInPlace runs the members of a c05.seqip line: c05Exec1 without decoy pass and without collections,
// all members on the one layout of the line.
func c05SeqInPlace(op []string, members [][]string) string {
	c05NoCollect, c05LayoutOf = true, fmt.Sprint(fnv32([]byte(strings.Join(op, " "))))
	defer func() { c05NoCollect, c05LayoutOf = false, "" }()
	res := make([]string, len(members))
	for i, m := range members {
		if len(m) == 0 || c05Arity[m[0]] != len(m) {
			res[i] = "bad-op"
			continue
		}
		m := m
		res[i] = c05Guarded(func() string { return c05Exec1(m, false) })
	}
	return strings.Join(res, " | ")
}

// ---- values that differ from a base value in one respect ------------------------------------------------

// c05Arg: one argument position of a function. lo..hi: the bytes the function reads (one-bit changes are made
// there); step > 0: the length may change by multiples of step; zeros: values with leading zero bytes matter
// (integers); kinds: filled by c05Kinds.
type c05Arg struct {
	name   string
	lo, hi int
	step   int
	zeros  bool
}

const (
	c05vFresh = iota
	c05vLastBit
	c05vFirstBit
	c05vSomeBit
	c05vSameHead
	c05vSameTail
	c05vLeadZero
	c05vLonger
	c05vShorter
)

var c05KindName = []string{"fresh", "last-byte", "first-byte", "some-byte", "same-head", "same-tail", "leading-zeros", "longer", "shorter"}

func (a c05Arg) kinds(n int) []int {
	ks := []int{c05vFresh, c05vLastBit, c05vFirstBit, c05vSomeBit}
	if n >= 4 {
		ks = append(ks, c05vSameHead, c05vSameTail)
	}
	if a.zeros {
		ks = append(ks, c05vLeadZero)
	}
	if a.step > 0 {
		ks = append(ks, c05vLonger)
		if n > a.step {
			ks = append(ks, c05vShorter)
		}
	}
	return ks
}

func c05Vary(r *Rand, a c05Arg, base []byte, kind int) []byte {
	v := append([]byte{}, base...)
	n := len(v)
	lo, hi := a.lo, a.hi
	if hi > n || hi == 0 {
		hi = n
	}
	if lo >= hi {
		lo = 0
	}
	if n == 0 {
		return r.Bytes(1 + r.Intn(3)*a.step)
	}
	switch kind {
	case c05vFresh:
		v = r.Bytes(n)
	case c05vLastBit:
		v[hi-1] ^= 1 << uint(r.Intn(8))
	case c05vFirstBit:
		v[lo] ^= 1 << uint(r.Intn(8))
	case c05vSomeBit:
		v[lo+r.Intn(hi-lo)] ^= 1 << uint(r.Intn(8))
	case c05vSameHead: // the first quarter (at most 8 bytes) stays, everything behind it is new
		k := n / 4
		if k > 8 {
			k = 8
		}
		copy(v[k:], r.Bytes(n-k))
	case c05vSameTail: // the last quarter (at most 8 bytes) stays, everything in front of it is new
		k := n / 4
		if k > 8 {
			k = 8
		}
		copy(v[:n-k], r.Bytes(n-k))
	case c05vLeadZero:
		v = c05Nonce(r, n, 1+r.Intn(3))
	case c05vLonger:
		v = append(v, r.Bytes(a.step*(1+r.Intn(2)))...)
	case c05vShorter:
		v = v[:n-a.step]
	}
	if bytes.Equal(v, base) {
		v[hi-1] ^= 0xff
	}
	return v
}

// c05Values: base · v1 · v2 · base · v3 · v4 for one argument; consecutive values differ.
func c05Values(r *Rand, a c05Arg, base []byte, rot int) (vals [][]byte, kinds []string) {
	ks := a.kinds(len(base))
	vals = append(vals, base)
	kinds = append(kinds, "base")
	for k := 1; k < 6; k++ {
		if k == 3 {
			vals, kinds = append(vals, base), append(kinds, "base")
			continue
		}
		kind := ks[(rot*4+k)%len(ks)]
		v := c05Vary(r, a, base, kind)
		for tries := 0; bytes.Equal(v, vals[len(vals)-1]) && tries < 8; tries++ {
			v = c05Vary(r, a, base, c05vFresh)
		}
		vals, kinds = append(vals, v), append(kinds, c05KindName[kind])
	}
	return vals, kinds
}

// c05Fn: one function under test: its argument positions, base values, and the operation line of a call.
type c05Fn struct {
	name string
	args []c05Arg
	base func(r *Rand, rep int) [][]byte
	line func(v [][]byte) string
	// seqOK: the member is defined inside c05.seq / c05.par (c05.tenc with padding is not)
	seqOK func(v [][]byte) bool
}

func c05Toks(v [][]byte) []interface{} {
	t := make([]interface{}, len(v))
	for i, b := range v {
		t[i] = c05Tok(b)
	}
	return t
}

func c05OneArgFns() []c05Fn {
	nonceN := c05Arg{name: "new_nonce", zeros: true}
	nonceS := c05Arg{name: "server_nonce", zeros: true}
	nonces := func(r *Rand, rep int) ([]byte, []byte) { return c05Nonce(r, 32, rep%3), c05Nonce(r, 16, (rep/3)%3) }
	always := func([][]byte) bool { return true }
	var seed int64
	return []c05Fn{
		{name: "generateTempKeys", args: []c05Arg{nonceN, nonceS},
			base:  func(r *Rand, rep int) [][]byte { n, s := nonces(r, rep); return [][]byte{n, s} },
			line:  func(v [][]byte) string { return fmt.Sprintf("c05.tkeys %s %s", c05Toks(v)...) },
			seqOK: always},
		{name: "DecryptMessageWithTempKeys", args: []c05Arg{nonceN, nonceS, {name: "padding"}, {name: "answer"}},
			base: func(r *Rand, rep int) [][]byte {
				n, s := nonces(r, rep)
				l := r.Intn(90)
				if rep%4 == 0 {
					l = 12 + 16*r.Intn(5) // no padding
				}
				return [][]byte{n, s, r.Bytes((16 - (20+l)%16) % 16), r.Bytes(l)}
			},
			line:  func(v [][]byte) string { return fmt.Sprintf("c05.tdec %s %s %s %s", c05Toks(v)...) },
			seqOK: always},
		{name: "EncryptMessageWithTempKeys", args: []c05Arg{nonceN, nonceS, {name: "payload", step: 16}},
			base: func(r *Rand, rep int) [][]byte {
				n, s := nonces(r, rep)
				seed = int64(r.U64() >> 1)
				l := 12 + 16*r.Intn(5)
				if rep%2 == 1 { // with padding: defined in c05.seqip only
					l = r.Intn(90)
				}
				return [][]byte{n, s, r.Bytes(l)}
			},
			line: func(v [][]byte) string {
				return fmt.Sprintf("c05.tenc %s %s %d %s %s", c05Tok(v[0]), c05Tok(v[1]), seed, c05Tok(c05Pad16(seed)), c05Tok(v[2]))
			},
			seqOK: func(v [][]byte) bool { return (20+len(v[2]))%16 == 0 }},
		{name: "encryptMessageWithTempKeys", args: []c05Arg{nonceN, nonceS, {name: "data", step: 16}},
			base: func(r *Rand, rep int) [][]byte {
				n, s := nonces(r, rep)
				return [][]byte{n, s, r.Bytes(16 * (1 + r.Intn(4)))}
			},
			line:  func(v [][]byte) string { return fmt.Sprintf("c05.tnopad %s %s %s", c05Toks(v)...) },
			seqOK: always},
		{name: "Encrypt", args: []c05Arg{{name: "auth_key", lo: 0, hi: 128}, {name: "message", step: 1}},
			base:  func(r *Rand, rep int) [][]byte { return [][]byte{r.Bytes(256), r.Bytes(1 + r.Intn(70))} },
			line:  func(v [][]byte) string { return fmt.Sprintf("c05.msgenc %s %s", c05Toks(v)...) },
			seqOK: always},
		{name: "Decrypt", args: []c05Arg{{name: "auth_key", lo: 8, hi: 136}, {name: "msg_key"}, {name: "ciphertext", step: 16}},
			base: func(r *Rand, rep int) [][]byte {
				return [][]byte{r.Bytes(256), r.Bytes(16), r.Bytes(16 * (1 + r.Intn(4)))}
			},
			line:  func(v [][]byte) string { return fmt.Sprintf("c05.msgdec %s %s %s", c05Toks(v)...) },
			seqOK: always},
		{name: "generateAESIGE/encode", args: []c05Arg{{name: "msg_key"}, {name: "auth_key", lo: 0, hi: 128}},
			base:  func(r *Rand, rep int) [][]byte { return [][]byte{r.Bytes(16), r.Bytes(256)} },
			line:  func(v [][]byte) string { return fmt.Sprintf("c05.kdf %s %s 0", c05Toks(v)...) },
			seqOK: always},
		{name: "generateAESIGE/decode", args: []c05Arg{{name: "msg_key"}, {name: "auth_key", lo: 8, hi: 136}},
			base:  func(r *Rand, rep int) [][]byte { return [][]byte{r.Bytes(16), r.Bytes(256)} },
			line:  func(v [][]byte) string { return fmt.Sprintf("c05.kdf %s %s 1", c05Toks(v)...) },
			seqOK: always},
		{name: "NewCipher+encrypt", args: []c05Arg{{name: "key"}, {name: "iv"}, {name: "data", step: 16}},
			base: func(r *Rand, rep int) [][]byte {
				return [][]byte{r.Bytes(32), r.Bytes(32), r.Bytes(16 * (1 + r.Intn(4)))}
			},
			line:  func(v [][]byte) string { return fmt.Sprintf("c05.enc %s %s %s", c05Toks(v)...) },
			seqOK: always},
		{name: "NewCipher+decrypt", args: []c05Arg{{name: "key"}, {name: "iv"}, {name: "data", step: 16}},
			base: func(r *Rand, rep int) [][]byte {
				return [][]byte{r.Bytes(32), r.Bytes(32), r.Bytes(16 * (1 + r.Intn(4)))}
			},
			line:  func(v [][]byte) string { return fmt.Sprintf("c05.dec %s %s %s", c05Toks(v)...) },
			seqOK: always},
		{name: "MessageKey", args: []c05Arg{{name: "message", step: 1}},
			base:  func(r *Rand, rep int) [][]byte { return [][]byte{r.Bytes(1 + r.Intn(70))} },
			line:  func(v [][]byte) string { return fmt.Sprintf("c05.mkey %s", c05Toks(v)...) },
			seqOK: always},
	}
}

func c05GenOneArg(g *G) {
	r := g.R
	emit := func(ms []string, seqOK bool, tags ...string) {
		body := strings.Join(ms, " | ")
		if seqOK {
			g.Emit("c05.seq | "+body, append([]string{"one-argument-changes", "fresh-buffers"}, tags...)...)
		}
		g.Emit("c05.seqip | "+body, append([]string{"one-argument-changes", "in-place"}, tags...)...)
	}
	fns := c05OneArgFns()
	// (i) every function x every argument position: only that argument changes from call to call
	for rep := 0; rep < g.N(3, 18); rep++ {
		for _, fn := range fns {
			for j, a := range fn.args {
				if fn.name == "DecryptMessageWithTempKeys" && a.name == "padding" {
					continue // the amount of padding is tied to the answer; its content changes with the answer below
				}
				base := fn.base(r, rep+j)
				vals, kinds := c05Values(r, a, base[j], rep+j)
				var ms []string
				ok := true
				for _, v := range vals {
					args := append([][]byte{}, base...)
					args[j] = v
					if fn.name == "DecryptMessageWithTempKeys" && a.name == "answer" { // a padding that fits the new answer
						args[2] = r.Bytes((16 - (20+len(v))%16) % 16)
					}
					ok = ok && fn.seqOK(args)
					ms = append(ms, fn.line(args))
				}
				tags := []string{fn.name + ":" + a.name + "-changes"}
				for _, k := range kinds {
					if k != "base" {
						tags = append(tags, "varied:"+k)
					}
				}
				emit(ms, ok, tags...)
			}
		}
		// the direction as the changing "argument": the key schedule of one (msg_key, auth_key) for sending and
		// for receiving; one (key, iv, data) encrypted and decrypted; Encrypt and Decrypt under one auth key
		// and the message key of the message
		mk, ak := r.Bytes(16), r.Bytes(256)
		k0 := fmt.Sprintf("c05.kdf %s %s 0", c05Tok(mk), c05Tok(ak))
		k1 := fmt.Sprintf("c05.kdf %s %s 1", c05Tok(mk), c05Tok(ak))
		if rep%2 == 1 {
			k0, k1 = k1, k0
		}
		emit([]string{k0, k1, k0, k1}, true, "generateAESIGE:direction-changes")
		key, iv, data := c05Tok(r.Bytes(32)), c05Tok(r.Bytes(32)), c05Tok(r.Bytes(16*(1+r.Intn(3))))
		e := fmt.Sprintf("c05.enc %s %s %s", key, iv, data)
		d := fmt.Sprintf("c05.dec %s %s %s", key, iv, data)
		if rep%2 == 1 {
			e, d = d, e
		}
		emit([]string{e, d, e, d}, true, "NewCipher:direction-changes")
		msg := r.Bytes(16 * (1 + r.Intn(3)))
		me := fmt.Sprintf("c05.msgenc %s %s", c05Tok(ak), c05Tok(msg))
		md := fmt.Sprintf("c05.msgdec %s %s %s", c05Tok(ak), c05Tok(sha1of(msg)[4:20]), c05Tok(msg))
		if rep%2 == 1 {
			me, md = md, me
		}
		emit([]string{me, md, me, md}, true, "Encrypt/Decrypt:direction-changes")
		// the two wrappers of the key exchange under ONE new_nonce and a server_nonce that changes (and the
		// other way round): decrypt a peer's answer, encrypt the client's, derive, decrypt the next peer's …
		n0, s0 := c05Nonce(r, 32, rep%3), c05Nonce(r, 16, (rep+1)%3)
		m := c05Mk{r}
		var ms []string
		for k := 0; k < 6; k++ {
			n, s := n0, s0
			if rep%2 == 0 {
				s = c05Vary(r, c05Arg{zeros: true}, s0, []int{c05vFresh, c05vLastBit, c05vLeadZero, c05vSameHead, c05vFirstBit, c05vSameTail}[(k+rep)%6])
			} else {
				n = c05Vary(r, c05Arg{zeros: true}, n0, []int{c05vFresh, c05vLastBit, c05vLeadZero, c05vSameHead, c05vFirstBit, c05vSameTail}[(k+rep)%6])
			}
			switch k % 3 {
			case 0:
				ms = append(ms, m.tdecWith(n, s, r.Intn(120)))
			case 1:
				ms = append(ms, m.tencWith(n, s, r.Intn(5)))
			case 2:
				ms = append(ms, fmt.Sprintf("c05.tkeys %s %s", c05Tok(n), c05Tok(s)))
			}
		}
		emit(ms, true, "key-exchange:one-nonce-fixed")
	}
	// (j) the same from several goroutines at once: one argument shared by all members, the other one each
	// member's own (each member is first run alone, one after the other — a sequence of its own)
	rounds, iters := g.N(6, 20), g.N(16, 32)
	par := func(ms []string, tags ...string) {
		g.Emit(fmt.Sprintf("c05.par %d %d | %s", rounds, iters, strings.Join(ms, " | ")), append(tags, "concurrent", "one-argument-changes")...)
	}
	m := c05Mk{r}
	for rep := 0; rep < g.N(1, 5); rep++ {
		n0, s0 := c05Nonce(r, 32, rep%3), c05Nonce(r, 16, (rep+2)%3)
		var a, b, c, d, e []string
		ak, ct, key, data := r.Bytes(256), r.Bytes(16*(1+r.Intn(4))), r.Bytes(32), r.Bytes(16*(1+r.Intn(4)))
		for k := 0; k < 6; k++ {
			a = append(a, fmt.Sprintf("c05.tkeys %s %s", c05Tok(n0), c05Tok(c05Nonce(r, 16, k%3))))
			b = append(b, fmt.Sprintf("c05.tkeys %s %s", c05Tok(c05Nonce(r, 32, k%3)), c05Tok(s0)))
			if k%2 == 0 {
				c = append(c, m.tdecWith(n0, c05Nonce(r, 16, k%3), r.Intn(100)))
			} else {
				c = append(c, m.tdecWith(c05Nonce(r, 32, k%3), s0, r.Intn(100)))
			}
			d = append(d, fmt.Sprintf("c05.msgdec %s %s %s", c05Tok(ak), c05Tok(r.Bytes(16)), c05Tok(ct)))
			e = append(e, fmt.Sprintf("c05.enc %s %s %s", c05Tok(key), c05Tok(r.Bytes(32)), c05Tok(data)))
		}
		par(a, "generateTempKeys:new_nonce-shared")
		par(b, "generateTempKeys:server_nonce-shared")
		par(c, "DecryptMessageWithTempKeys:one-nonce-shared")
		par(d, "Decrypt:auth_key+ciphertext-shared")
		par(e, "NewCipher:key+data-shared")
	}
}
