package main

// C02, values with SHARING. The schema-defined serialisation is a function of the TREE a value unfolds to: an
// object that occurs at two positions is written twice. A Go value is a graph: one *InputPeerUser may sit in two
// fields of a request (forwarding inside one chat), one *InputUserObj at two positions of a vector, one []byte in
// two parameters, one sub-object at two depths. The text form of an operation is the tree; a value parsed from it
// has a fresh Go object at every position, so sharing has to be asked for:
//
//   c02.enc <id> <value> alias      the value is parsed and then HASH-CONSED: every pointer to a constructor,
//                                   every 128/256-bit integer and every non-empty slice / byte string whose
//                                   type and text equal those of an earlier position (depth first, fields in
//                                   order) is replaced by the Go object of that earlier position
//   c02.enc <id> <value> distinct   the control: the same tree, every position its own object
//
// Both are answered by the Lean side with the bytes the schema lines define for the tree (values of the model are
// trees: sharing does not exist there). The generator makes trees in which a sub-object occurs twice by copying
// one position of a generated value to another position of the same static type: two fields of one object, two
// elements of one vector, positions at different depths, and slices.

import (
	"fmt"
	"reflect"
	"strings"

	"github.com/xelaj/mtproto/verifharness/internal/reg"
)

// c02Alias hash-conses the value below root (a settable interface / pointer / slice position) and says how many
// positions now hold the object of an earlier position.
func c02Alias(root reflect.Value) int {
	seen := map[string]reflect.Value{}
	shared := 0
	var walk func(v reflect.Value)
	fields := func(p reflect.Value) { // p: non-nil pointer
		if p.Type() == tInt128 || p.Type() == tInt256 || p.Elem().Kind() != reflect.Struct {
			return
		}
		st := p.Elem()
		for i := 0; i < st.NumField(); i++ {
			if st.Field(i).CanSet() {
				walk(st.Field(i))
			}
		}
	}
	walk = func(v reflect.Value) {
		switch v.Kind() {
		case reflect.Interface:
			if v.IsNil() {
				return
			}
			e := v.Elem()
			if e.Kind() != reflect.Ptr || e.IsNil() {
				return
			}
			key := e.Type().String() + "|" + dumpDyn(e)
			if first, ok := seen[key]; ok {
				v.Set(first)
				shared++
				return
			}
			seen[key] = e
			fields(e)
		case reflect.Ptr:
			if v.IsNil() {
				return
			}
			key := v.Type().String() + "|" + dumpDyn(v)
			if first, ok := seen[key]; ok {
				v.Set(first)
				shared++
				return
			}
			seen[key] = v
			fields(v)
		case reflect.Slice:
			if v.IsNil() || v.Len() == 0 {
				return
			}
			key := v.Type().String() + "|" + dumpVal(v)
			if first, ok := seen[key]; ok {
				v.Set(first)
				shared++
				return
			}
			seen[key] = v
			if v.Type() != tBytes {
				for i := 0; i < v.Len(); i++ {
					walk(v.Index(i))
				}
			}
		}
	}
	walk(root)
	return shared
}

type c02Slot struct {
	v      reflect.Value
	path   string // positions from the root, e.g. /2/0/1
	parent string
	inVec  bool
	slice  bool // a non-empty slice / byte string position (else: a position holding a pointer to a constructor)
}

// c02Slots: the positions below a value that hold a pointer to a registered constructor (directly or boxed) and
// the positions that hold a non-empty slice.
func c02Slots(v reflect.Value, path, parent string, inVec bool, out *[]c02Slot) {
	switch v.Kind() {
	case reflect.Interface, reflect.Ptr:
		if v.IsNil() {
			return
		}
		p := v
		if v.Kind() == reflect.Interface {
			p = v.Elem()
		}
		if p.Kind() != reflect.Ptr || p.IsNil() || p.Elem().Kind() != reflect.Struct || p.Type() == tInt128 || p.Type() == tInt256 {
			return
		}
		if _, ok := reg.CrcOf(p.Type()); !ok {
			return
		}
		if v.CanSet() && path != "" {
			*out = append(*out, c02Slot{v: v, path: path, parent: parent, inVec: inVec})
		}
		st := p.Elem()
		for i := 0; i < st.NumField(); i++ {
			if st.Field(i).CanSet() {
				c02Slots(st.Field(i), fmt.Sprintf("%s/%d", path, i), path, false, out)
			}
		}
	case reflect.Slice:
		if v.IsNil() || v.Len() == 0 {
			return
		}
		if v.CanSet() && path != "" {
			*out = append(*out, c02Slot{v: v, path: path, parent: parent, inVec: inVec, slice: true})
		}
		if v.Type() != tBytes {
			for i := 0; i < v.Len(); i++ {
				c02Slots(v.Index(i), fmt.Sprintf("%s/%d", path, i), path, true, out)
			}
		}
	}
}

// c02ShareOps: for constructors drawn at random, a generated value in which the object (or slice) of one position
// is put into another position of the same static type - both then print the same text, and `alias` makes them one
// Go object again. Classes: two fields of one object, two elements of one vector (also u, x, u by appending), two
// positions with different parents (nested), slices. The shared object carries data (a constructor without
// parameters has no state to share) where one can be found.
func c02ShareOps(g *G, tg *tlGen, all []reg.Ctor) {
	saveCanon, saveBig := tg.alwaysCanon, tg.bigStrings
	tg.alwaysCanon, tg.bigStrings = true, false
	defer func() { tg.alwaysCanon, tg.bigStrings = saveCanon, saveBig }()
	var cs []*reg.Ctor
	for i := range all {
		if all[i].Kind == "struct" && marshalable(&all[i]) {
			cs = append(cs, &all[i])
		}
	}
	if len(cs) == 0 {
		return
	}
	classes := []string{"two-fields", "two-elements", "nested", "slice"}
	want := g.N(40, 400)
	have := map[string]int{}
	hasData := func(s c02Slot) bool {
		if s.slice {
			return true
		}
		return !strings.HasSuffix(dumpVal(s.v), "()")
	}
	disjoint := func(a, b c02Slot) bool {
		return a.path != b.path && !strings.HasPrefix(a.path, b.path+"/") && !strings.HasPrefix(b.path, a.path+"/")
	}
	emitted := 0
	for tries := 0; tries < 60000; tries++ {
		done := true
		for _, k := range classes {
			done = done && have[k] >= want
		}
		if done {
			break
		}
		c := cs[g.R.Intn(len(cs))]
		obj := tg.object(c, g.R.Intn(tg.maxDepth)) // depth 0: the deepest nesting
		root := reflect.New(tObject).Elem()
		root.Set(obj)
		var slots []c02Slot
		c02Slots(root.Elem(), "", "", false, &slots)
		if len(slots) == 0 {
			continue
		}
		// candidate pairs (source, target) per class
		type pair struct{ s, t c02Slot }
		byClass := map[string][]pair{}
		if len(slots) > 400 {
			continue
		}
		texts := make([]string, len(slots))
		for i, s := range slots {
			texts[i] = dumpVal(s.v)
		}
		for si, s := range slots {
			if !hasData(s) {
				continue
			}
			for ti, t := range slots {
				if s.v.Type() != t.v.Type() || !disjoint(s, t) || texts[si] == texts[ti] {
					continue
				}
				k := "nested"
				switch {
				case s.slice:
					k = "slice"
				case s.parent == t.parent && s.inVec:
					k = "two-elements"
				case s.parent == t.parent:
					k = "two-fields"
				}
				if have[k] < want {
					byClass[k] = append(byClass[k], pair{s, t})
				}
			}
		}
		var k string
		for _, kk := range classes { // the class that lacks most
			if len(byClass[kk]) > 0 && (k == "" || have[kk] < have[k]) {
				k = kk
			}
		}
		tag := k
		if k != "" {
			p := byClass[k][g.R.Intn(len(byClass[k]))]
			p.t.v.Set(p.s.v)
		} else if have["two-elements"] < want {
			// u, x, u: a vector of objects that gets one of its elements once more at the end
			var vecs []c02Slot
			for _, s := range slots {
				if !s.slice || s.v.Type() == tBytes {
					continue
				}
				if ek := s.v.Type().Elem().Kind(); ek == reflect.Ptr || ek == reflect.Interface {
					vecs = append(vecs, s)
				}
			}
			if len(vecs) == 0 {
				continue
			}
			s := vecs[g.R.Intn(len(vecs))]
			n := s.v.Len()
			nv := reflect.MakeSlice(s.v.Type(), n+1, n+1)
			reflect.Copy(nv, s.v)
			src := s.v.Index(g.R.Intn(n))
			if src.IsNil() {
				continue
			}
			nv.Index(n).Set(src)
			s.v.Set(nv)
			k, tag = "two-elements", "two-elements-appended"
		} else {
			continue
		}
		text := dumpDyn(obj)
		if !isCanonical(obj) || !c02Complete(obj) || len(text) > 20000 {
			continue
		}
		have[k]++
		emitted++
		g.Emit(fmt.Sprintf("c02.enc %08x %s alias", c.ID, text), "shared-object", "shared-object:"+tag)
		if have[k]%4 == 1 {
			g.Emit(fmt.Sprintf("c02.enc %08x %s distinct", c.ID, text), "shared-object-control")
		}
	}
	g.Extra["shared_object_operations"] = emitted
	g.Extra["shared_object_classes"] = have
}
