package main

// C06 — the exchange in other ENVIRONMENTS than a test naturally provides: how the network delivers the server's
// frames, and where the client's session file lives.
//
//   c06.env <tag> <delivery> <session> <store>[+<warnings>[+<first>]] <the 18 tokens of a c06.hs after its tag>
//
// <delivery>: how the conformant server's transport frames (4-byte length + packet) reach the client's socket
// (hsDeliveryOk / hsWriteFrame in x_hsserver.go). A TCP connection is a byte stream: a conformant server, a small MSS,
// a loaded sender or a proxy may deliver one frame in any number of pieces at any pace.
//     whole         one write per frame (what a test server naturally does)
//     cut<k>        the first k bytes, a pause, the rest         (k = 1..3: inside the length; 4: between length and
//                   packet; 5..: inside the packet)
//     tail<k>       all but the last k bytes, a pause, the rest  (tail1: the last byte late)
//     half          the two halves
//     each<k>       pieces of k bytes with a pause between them  (each1: one byte at a time)
//   optionally `@<ms>`: the pause in milliseconds (default 8; each<k>: 1).
// <session>: where the client keeps its session (c06Places):
//     stub              the recording storage of the other operations (Config.SessionStorage)
//   and Config.AuthKeyFile = a file, in different kinds of places:
//     tmp               in a fresh directory under os.TempDir()
//     otherdev          in a fresh directory on ANOTHER filesystem than os.TempDir() (/dev/shm, /run/shm, /run/user/<uid>,
//                       /var/tmp, $HOME, the working directory: the first whose device differs; a machine with one
//                       filesystem only degrades this to `tmp`)
//     deep              eight fresh directories down
//     rel / relsub      a bare file name / `sub/…` relative to the working directory, which is a fresh directory
//     tmpdir-missing    as tmp, and then TMPDIR names a directory that does not exist
//     tmpdir-file       … TMPDIR names a regular file
//     tmpdir-otherdev   … TMPDIR names a directory on another filesystem than the session file's
//     tmpdir-unset      … TMPDIR is not set
// The application has created the directory of the session file in every case; nothing else is promised to the
// library - not a usable temporary directory, not a particular working directory, not one filesystem.
// The result line is that of a c06.hs; `stored=` is what an INDEPENDENT reader (c06ReadSession: JSON, base64, 8 bytes
// little-endian) finds in the file afterwards. Oracle: the unchanged C06 oracle (completed; same key, key id, salt on
// both sides; exactly one stored session = the server's key / id / salt / address; the requests issued afterwards
// readable by the server), and for a file: the library's own loader reads the same session back from the same path.

import (
	"bytes"
	"crypto/rsa"
	"encoding/base64"
	"encoding/binary"
	"encoding/json"
	"fmt"
	"os"
	"path/filepath"
	"strings"
	"syscall"

	"github.com/xelaj/mtproto/internal/session"
)

var c06Places = []string{"stub", "tmp", "otherdev", "deep", "rel", "relsub", "tmpdir-missing", "tmpdir-file", "tmpdir-otherdev", "tmpdir-unset"}

// the deliveries generated in every run
var c06Deliveries = []string{"cut1", "cut2", "cut3", "cut4", "cut5", "cut12", "cut24", "cut25", "half", "tail1", "tail4", "tail21", "each1", "each3", "each7", "each64", "each512@3", "cut4@40"}

func c06PlaceOk(p string) bool {
	for _, x := range c06Places {
		if x == p {
			return true
		}
	}
	return false
}

// c06OtherDevice: a fresh directory on another filesystem than `than` ("" when the machine has none)
func c06OtherDevice(than string) string {
	dev := func(p string) (uint64, bool) {
		var st syscall.Stat_t
		if err := syscall.Stat(p, &st); err != nil {
			return 0, false
		}
		return uint64(st.Dev), true
	}
	base, ok := dev(than)
	if !ok {
		return ""
	}
	home, _ := os.UserHomeDir()
	cwd, _ := os.Getwd()
	for _, cand := range []string{"/dev/shm", "/run/shm", fmt.Sprintf("/run/user/%d", os.Getuid()), "/var/tmp", home, cwd, "/run", "/var/lib"} {
		if cand == "" {
			continue
		}
		if d, ok := dev(cand); ok && d != base {
			if dir, err := os.MkdirTemp(cand, "c06-sess-*"); err == nil {
				return dir
			}
		}
	}
	return ""
}

type c06Env struct {
	path    string   // Config.AuthKeyFile ("" = stub)
	abs     string   // where an independent reader finds the file
	restore []func() // undo the environment, last first
	note    string
}

func (e *c06Env) undo() {
	for i := len(e.restore) - 1; i >= 0; i-- {
		e.restore[i]()
	}
}

// c06MakeEnv: the environment of one exchange. Everything it creates lives in fresh directories that undo() removes.
func c06MakeEnv(place string) *c06Env {
	e := &c06Env{}
	if place == "stub" {
		return e
	}
	rm := func(d string) { e.restore = append(e.restore, func() { os.RemoveAll(d) }) }
	setenv := func(v string, unset bool) {
		old, had := os.LookupEnv("TMPDIR")
		if unset {
			os.Unsetenv("TMPDIR")
		} else {
			os.Setenv("TMPDIR", v)
		}
		e.restore = append(e.restore, func() {
			if had {
				os.Setenv("TMPDIR", old)
			} else {
				os.Unsetenv("TMPDIR")
			}
		})
	}
	dir, err := os.MkdirTemp("", "c06-sess-*")
	if err != nil {
		panic(err)
	}
	rm(dir)
	e.path = filepath.Join(dir, "session.json")
	switch place {
	case "tmp":
	case "otherdev":
		if d := c06OtherDevice(os.TempDir()); d != "" {
			rm(d)
			e.path = filepath.Join(d, "session.json")
		} else {
			e.note = "single filesystem"
		}
	case "deep":
		d := filepath.Join(dir, "a", "b", "c", "d", "e", "f", "g", "h")
		if err := os.MkdirAll(d, 0o700); err != nil {
			panic(err)
		}
		e.path = filepath.Join(d, "session.json")
	case "rel", "relsub":
		old, err := os.Getwd()
		if err != nil {
			panic(err)
		}
		if err := os.Chdir(dir); err != nil {
			panic(err)
		}
		e.restore = append(e.restore, func() { os.Chdir(old) })
		e.path = "session.json"
		if place == "relsub" {
			if err := os.Mkdir(filepath.Join(dir, "sub"), 0o700); err != nil {
				panic(err)
			}
			e.path = filepath.Join("sub", "session.json")
		}
		e.abs = filepath.Join(dir, e.path)
	case "tmpdir-missing":
		setenv(filepath.Join(dir, "no-such-directory"), false)
	case "tmpdir-file":
		f := filepath.Join(dir, "a-file")
		if err := os.WriteFile(f, []byte("x"), 0o600); err != nil {
			panic(err)
		}
		setenv(f, false)
	case "tmpdir-otherdev":
		if d := c06OtherDevice(dir); d != "" {
			rm(d)
			setenv(d, false)
		} else {
			e.note = "single filesystem"
		}
	case "tmpdir-unset":
		setenv("", true)
	}
	if e.abs == "" {
		e.abs = e.path
	}
	return e
}

// c06ReadSession: what an independent reader finds in a session file: {"key","hash","salt","hostname"}, the first three
// base64, the salt 8 bytes little-endian.
func c06ReadSession(path string) (*session.Session, string) {
	data, err := os.ReadFile(path)
	if err != nil {
		return nil, "no session file: " + c06EnvErr(err)
	}
	var f map[string]string
	if err := json.Unmarshal(data, &f); err != nil {
		return nil, fmt.Sprintf("the session file (%d bytes) is not a JSON object of strings", len(data))
	}
	key, e1 := base64.StdEncoding.DecodeString(f["key"])
	hash, e2 := base64.StdEncoding.DecodeString(f["hash"])
	salt, e3 := base64.StdEncoding.DecodeString(f["salt"])
	if e1 != nil || e2 != nil || e3 != nil || len(salt) != 8 {
		return nil, "the session file's key / hash / salt are not base64 of a key, an id and 8 bytes"
	}
	return &session.Session{Key: key, Hash: hash, Salt: int64(binary.LittleEndian.Uint64(salt)), Hostname: f["hostname"]}, ""
}

// c06EnvErr: the class of a file error without the (fresh, random) path in it
func c06EnvErr(err error) string {
	if pe, ok := err.(*os.PathError); ok {
		return pe.Op + ": " + pe.Err.Error()
	}
	return "error"
}

var c06EnvWhy []string // what the last c06.env found wrong with the session file (for the oracle)

// c06ParseEnv: a c06.env operation
func c06ParseEnv(op []string) (c *hsCase, ok bool) {
	if len(op) != 23 || op[0] != "c06.env" || !hsDeliveryOk(op[2]) || !c06PlaceOk(op[3]) || !c06CfgOk(op[4]) {
		return nil, false
	}
	st, _ := c06SplitCfg(op[4])
	if st == "fail" || (op[3] != "stub" && st != "notfound") {
		return nil, false // a file that is not there IS the not-found answer
	}
	return c06Parse(append([]string{"c06.hs", "x"}, op[5:]...))
}

func c06EnvOp(tag, delivery, place, cfg string, c *hsCase) string {
	return strings.Join(append([]string{"c06.env", tag, delivery, place, cfg}, strings.Fields(c.op("x"))[2:]...), " ")
}

// c06OneEnv: one exchange of the real client in that environment
func c06OneEnv(c *hsCase, delivery, place, cfg string, pub *rsa.PublicKey) (*hsRun, string) {
	c06EnvWhy = nil
	env := c06MakeEnv(place)
	defer env.undo()
	run, line := c06OnePlan(c, cfg, &hsPlan{D: &c.D, Pub: pub, Secrets: &c.S, Probe: true, Delivery: delivery, SessionFile: env.path}, func(run *hsRun) {
		if env.path == "" {
			return
		}
		// the recording storage was not in use: what is stored is what the file holds now
		s, why := c06ReadSession(env.abs)
		if s == nil {
			c06EnvWhy = append(c06EnvWhy, why)
			return
		}
		run.Stores = []session.Session{*s}
		// … and the library's own loader must read the same back from the same path
		back, err := session.NewFromFile(env.path).Load()
		switch {
		case err != nil:
			c06EnvWhy = append(c06EnvWhy, "the library's own loader cannot read the stored session back: "+c06EnvErr(err))
		case back == nil || !bytes.Equal(back.Key, s.Key) || !bytes.Equal(back.Hash, s.Hash) || back.Salt != s.Salt || back.Hostname != s.Hostname:
			c06EnvWhy = append(c06EnvWhy, "the library's own loader reads another session back than the file holds")
		}
		if fi, err := os.Stat(env.abs); err == nil && fi.Mode().Perm()&0o077 != 0 {
			c06EnvWhy = append(c06EnvWhy, fmt.Sprintf("the session file (it holds the auth key) has mode %o", fi.Mode().Perm()))
		}
	})
	return run, line
}

// c06JudgeEnv: the unchanged C06 oracle, and what was found wrong with the session file
func c06JudgeEnv(run *hsRun, delivery, place, cfg, clock string) []string {
	bad := append(c06JudgeRun(run, cfg, clock), c06EnvWhy...)
	if len(bad) > 0 {
		bad[0] = fmt.Sprintf("(the server's frames delivered `%s`, the client's session in `%s`) %s", delivery, place, bad[0])
	}
	return bad
}

// c06EnvGen: (f) every delivery with the recording storage, every place with whole frames, and a few of both drawn
func c06EnvGen(g *G, next func() *rsa.PrivateKey, groups []c06Group) {
	r := g.R
	mk := func(i int) *hsCase {
		c := hsRandomCase(r, next())
		c06InGroup(r, c, groups[i%len(groups)])
		return c
	}
	for i, d := range c06Deliveries {
		cfg := "notfound"
		if i%3 == 1 {
			cfg = "nil+" + hsWarnModes[i%len(hsWarnModes)]
		}
		g.Emit(c06EnvOp("env:delivery-"+d, d, "stub", cfg, mk(i)), "honest", "env", "delivery="+strings.SplitN(d, "@", 2)[0])
	}
	for i, p := range c06Places[1:] {
		g.Emit(c06EnvOp("env:session-"+p, "whole", p, "notfound", mk(i)), "honest", "env", "session="+p)
	}
	n := g.N(4, 120)
	for i := 0; i < n; i++ {
		d := c06Deliveries[r.Intn(len(c06Deliveries))]
		switch r.Intn(4) {
		case 0:
			d = fmt.Sprintf("cut%d", 1+r.Intn(90))
		case 1:
			d = fmt.Sprintf("each%d@%d", 1+r.Intn(200), 1+r.Intn(4))
		}
		p := c06Places[r.Intn(len(c06Places))]
		cfg := "notfound+" + hsWarnModes[r.Intn(len(hsWarnModes))] + "+" + c06RandomFirst(r)
		g.Emit(c06EnvOp("env:drawn", d, p, cfg, mk(i)), "honest", "env", "env:drawn")
	}
}
