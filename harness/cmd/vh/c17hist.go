package main

// C17 — the migration under what surrounds it: the session store of the client, and the HISTORY of configuration
// calls that made its data-centre table.
//
//	c17.hist <store> <calls> <code> <text>
//
// c17.req (c17mig.go) for a client whose session store is <store> and whose table was made by the calls of <calls>:
//
//	<store>   ok     a store kept in memory, Store succeeds
//	          fail   Store always returns an error (a load-only store: keys provisioned from elsewhere; a full disk)
//	          slow   Store takes 150 ms, then succeeds
//	          file   the file store of the library (Config.AuthKeyFile) in a directory of its own, holding the session
//	          gone   the same, the directory removed once the client has loaded its session (Store: directory not found)
//	<calls>   SetDCList calls in order, separated by "/": id:SYM,… (SYM ∈ A, B) or "-" (an empty argument); "C" is the
//	          place of CreateConnection among them (after the last call when absent)
//
// "The client reconnects to the address CONFIGURED for data centre X and repeats the request there": configured is
// what the calls made of the default list — a later call overrides an earlier one for the ids it names and leaves
// every other id alone —, and whether the session can be saved on the way is no part of the sentence: the caller gets
// the answer of the data centre the request was repeated at. Result lines as for c17.req.

import (
	"errors"
	"fmt"
	"os"
	"path/filepath"
	"strconv"
	"strings"
	"time"

	"github.com/xelaj/mtproto"
	"github.com/xelaj/mtproto/internal/session"
)

var c17HistStores = []string{"ok", "fail", "slow", "file", "gone"}

// c17HistParse: the calls of a history; a nil entry is the place of CreateConnection (at most one)
func c17HistParse(calls []string) ([][][2]string, bool) {
	var out [][][2]string
	conns := 0
	for _, c := range calls {
		switch c {
		case "C":
			conns++
			out = append(out, nil)
		case "-":
			out = append(out, [][2]string{})
		default:
			d, ok := c17ParseDcs(c)
			if !ok || len(d) == 0 {
				return nil, false
			}
			seen := map[string]bool{}
			for _, e := range d { // one call's argument is a map: an id once
				if seen[e[0]] {
					return nil, false
				}
				seen[e[0]] = true
			}
			out = append(out, d)
		}
	}
	return out, conns <= 1 && len(out) > 0
}

// c17HistWouldDialReal: never dial an address of the default list, also not on a tree that has forgotten some of the
// calls: a data centre of the default list is the target of a migration only when EVERY SetDCList call of the
// history re-addresses it (to peers of the harness).
func c17HistWouldDialReal(calls [][][2]string, text []byte) bool {
	name, n, num := specSplit(string(text))
	if !num || name != "PHONE_MIGRATE_X" {
		return false
	}
	if _, isDefault := c17Default[n]; !isDefault {
		return false
	}
	sets := 0
	for _, call := range calls {
		if call == nil {
			continue
		}
		sets++
		bound := false
		for _, d := range call {
			if id, _ := strconv.ParseInt(d[0], 10, 64); id == n {
				bound = true
			}
		}
		if !bound {
			return true
		}
	}
	return sets == 0
}

// c17FaultyStore: a SessionLoader that holds a ready session; Store fails or is slow
type c17FaultyStore struct {
	c17KeyedSession
	fail  bool
	delay time.Duration
}

func (s c17FaultyStore) Store(*session.Session) error {
	time.Sleep(s.delay)
	if s.fail {
		return errors.New("this session storage is read-only")
	}
	return nil
}

// c17HistStorage: the Config for a store token; `started` is called once NewMTProto has returned (the session is
// loaded), `cleanup` when the operation is over.
func c17HistStorage(store string, key []byte, host string) (cfg mtproto.Config, started, cleanup func(), ok bool) {
	nop := func() {}
	held := c17KeyedSession{key, host}
	cfg = mtproto.Config{ServerHost: host}
	switch store {
	case "ok":
		cfg.SessionStorage = held
		return cfg, nop, nop, true
	case "fail":
		cfg.SessionStorage = c17FaultyStore{c17KeyedSession: held, fail: true}
		return cfg, nop, nop, true
	case "slow":
		cfg.SessionStorage = c17FaultyStore{c17KeyedSession: held, delay: 150 * time.Millisecond}
		return cfg, nop, nop, true
	case "file", "gone":
		top, err := os.MkdirTemp("", "c17-hist-")
		if err != nil {
			return cfg, nop, nop, false
		}
		cleanup = func() { _ = os.RemoveAll(top) }
		dir := filepath.Join(top, "sessions")
		if err := os.Mkdir(dir, 0o700); err != nil {
			cleanup()
			return cfg, nop, nop, false
		}
		path := filepath.Join(dir, "session.json")
		s, _ := held.Load()
		if err := session.NewFromFile(path).Store(s); err != nil {
			cleanup()
			return cfg, nop, nop, false
		}
		cfg.AuthKeyFile = path
		started = nop
		if store == "gone" {
			started = func() { _ = os.RemoveAll(dir) }
		}
		return cfg, started, cleanup, true
	}
	return cfg, nop, nop, false
}

func c17HistStoreWords(store string) string {
	return map[string]string{
		"ok":   "a session store that works",
		"fail": "a session store whose Store returns an error (load-only / read-only storage)",
		"slow": "a session store whose Store takes 150 ms",
		"file": "the file store of the library (AuthKeyFile)",
		"gone": "the file store of the library, its directory removed after the session was loaded (Store fails: directory not found)",
	}[store]
}

func c17HistCallsWords(calls string) string {
	var w []string
	for _, c := range strings.Split(calls, "/") {
		switch c {
		case "C":
			w = append(w, "CreateConnection")
		case "-":
			w = append(w, "SetDCList({})")
		default:
			w = append(w, "SetDCList({"+c+"})")
		}
	}
	return strings.Join(w, "; ")
}

// c17HistGen: migrations under a faulty / slow / file session store, and after histories of SetDCList calls
// (several calls; disjoint, overlapping, overriding, repeated, empty arguments; before and after CreateConnection)
// to every id the history configures and to ids it does not.
func c17HistGen(g *G, code func() int32) {
	r := g.R
	itoa := strconv.Itoa
	notDefault := func(id int) int {
		for {
			if _, d := c17Default[int64(id)]; !d {
				return id
			}
			id += 1000
		}
	}
	sym := func() string { return string("AB"[r.Intn(2)]) }
	pmig := func(id int) string { return hx("PHONE_MIGRATE_" + itoa(id)) }
	pool := []int{notDefault(7), notDefault(8), notDefault(9), notDefault(0), notDefault(-1), notDefault(100), notDefault(2147483647), notDefault(12)}

	// --- the session store: every kind of store × a configured migration (303 and another code), an unconfigured
	// one, an error that is returned
	for _, st := range c17HistStores {
		id := pool[r.Intn(len(pool))]
		s := sym()
		g.Emit(fmt.Sprintf("c17.hist %s %d:%s 303 %s", st, id, s, pmig(id)), "hist-store:"+st, "hist-migrate")
		g.Emit(fmt.Sprintf("c17.hist %s %d:%s/C %d %s", st, id, s, code(), pmig(id)), "hist-store:"+st, "hist-migrate")
		g.Emit(fmt.Sprintf("c17.hist %s %d:%s %d %s", st, id, s, code(), pmig(notDefault(id+1))), "hist-store:"+st, "hist-unconfigured")
		g.Emit(fmt.Sprintf("c17.hist %s %d:%s %d %s", st, id, s, code(), hx("FLOOD_WAIT_"+itoa(r.Intn(100)))), "hist-store:"+st, "hist-returned")
	}
	// --- histories of configuration calls (fixed shapes first)
	a, b, c := pool[0], pool[1], pool[2]
	fixed := []struct {
		calls  string
		target int
		tag    string
	}{
		{fmt.Sprintf("%d:A,%d:B/%d:A", a, b, c), b, "hist-calls-disjoint"},    // only the FIRST call configured the target
		{fmt.Sprintf("%d:A,%d:B/%d:A", a, b, c), c, "hist-calls-disjoint"},    // only the second
		{fmt.Sprintf("%d:A/%d:B/%d:A", a, b, c), a, "hist-calls-disjoint"},    // three calls, the first
		{fmt.Sprintf("%d:A/%d:B/%d:A", a, b, c), b, "hist-calls-disjoint"},    // the middle one
		{fmt.Sprintf("%d:A/%d:B", a, a), a, "hist-calls-overriding"},          // re-addressed: the later call decides
		{fmt.Sprintf("%d:A,%d:A/%d:B", a, b, a), b, "hist-calls-overlapping"}, // overlapping: the id the later call does not name
		{fmt.Sprintf("%d:A,%d:A/%d:B", a, b, a), a, "hist-calls-overlapping"},
		{fmt.Sprintf("%d:B/-", a), a, "hist-calls-empty"}, // an empty argument forgets nothing
		{fmt.Sprintf("-/%d:B", a), a, "hist-calls-empty"},
		{fmt.Sprintf("%d:A/%d:A", a, a), a, "hist-calls-repeated"},
		{fmt.Sprintf("%d:A/C/%d:B", a, b), a, "hist-calls-after-connect"}, // configured before the connection, another call after it
		{fmt.Sprintf("%d:A/C/%d:B", a, b), b, "hist-calls-after-connect"}, // configured only after the connection was made
		{fmt.Sprintf("C/%d:A/%d:B", a, b), a, "hist-calls-after-connect"},
		{fmt.Sprintf("%d:A/%d:B", a, b), c, "hist-calls-unconfigured"}, // nobody configured the target
		{fmt.Sprintf("%d:A/%d:B/C", a, a), b, "hist-calls-unconfigured"},
	}
	for _, f := range fixed {
		g.Emit(fmt.Sprintf("c17.hist ok %s %d %s", f.calls, code(), pmig(f.target)), "hist-calls", f.tag)
	}
	// a data centre of the default list, re-addressed by every call (differently): the last call decides
	if len(c17F.DCs) > 0 {
		d := int(c17F.DCs[r.Intn(len(c17F.DCs))].ID)
		g.Emit(fmt.Sprintf("c17.hist ok %d:A/%d:B,%d:A %d %s", d, d, a, code(), pmig(d)), "hist-calls", "hist-calls-default-id")
		g.Emit(fmt.Sprintf("c17.hist ok %d:B,%d:B/%d:A %d %s", d, a, d, code(), pmig(a)), "hist-calls", "hist-calls-default-id")
	}
	// --- random histories
	for i, n := 0, g.N(40, 1500); i < n; i++ {
		ids := append([]int{}, pool...)
		for j := range ids { // a few ids of this history
			k := j + r.Intn(len(ids)-j)
			ids[j], ids[k] = ids[k], ids[j]
		}
		ids = ids[:2+r.Intn(3)]
		ncalls := 2 + r.Intn(3)
		var calls []string
		bound := map[int]bool{}
		for k := 0; k < ncalls; k++ {
			var parts []string
			for _, id := range ids {
				if r.Intn(2) == 0 {
					parts = append(parts, fmt.Sprintf("%d:%s", id, sym()))
					bound[id] = true
				}
			}
			if len(parts) == 0 {
				calls = append(calls, "-")
			} else {
				calls = append(calls, strings.Join(parts, ","))
			}
		}
		if r.Intn(2) == 0 { // where the connection is made
			at := r.Intn(len(calls) + 1)
			calls = append(calls[:at], append([]string{"C"}, calls[at:]...)...)
		}
		target := ids[r.Intn(len(ids))]
		tag := "hist-random-configured"
		if r.Intn(5) == 0 {
			target = notDefault(target + 1 + r.Intn(3))
		}
		if !bound[target] {
			tag = "hist-random-unconfigured"
		}
		st := "ok"
		if r.Intn(3) == 0 {
			st = c17HistStores[r.Intn(len(c17HistStores))]
		}
		text := pmig(target)
		if r.Intn(12) == 0 {
			text, tag = hx("USER_MIGRATE_"+itoa(target)), "hist-random-returned"
		}
		g.Emit(fmt.Sprintf("c17.hist %s %s %d %s", st, strings.Join(calls, "/"), code(), text), "hist-calls", tag, "hist-store:"+st)
	}
}
