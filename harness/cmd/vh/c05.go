package main

// C05 — AES-256-IGE and its padding wrappers. Real code exercised (internal/aes_ige): the package
// level doAES256IGEencrypt/doAES256IGEdecrypt, generateTempKeys and encryptMessageWithTempKeys through
// the verif hooks, and the public Encrypt, Decrypt, EncryptMessageWithTempKeys,
// DecryptMessageWithTempKeys.
//
// The oracle (c05Judge) shares no code with the repository or with the Lean model: its IGE is the
// two-line definition over crypto/aes, its key derivations are written from the MTProto documents
// over crypto/sha1, and a "conformant peer" is built from those.

import (
	"bytes"
	"crypto/aes"
	"crypto/sha1"
	"fmt"
	"math/big"
	"math/rand"
	"runtime"
	"strconv"
	"strings"
	"time"

	ige "github.com/xelaj/mtproto/internal/aes_ige"
)

// ---- independent reference ----------------------------------------------------------------------

// refIGE: c_i = E(p_i xor c_{i-1}) xor p_{i-1}  /  p_i = D(c_i xor p_{i-1}) xor c_{i-1};
// iv = c_0 ‖ p_0. Every block lives in its own fresh array.
func refIGE(key, iv, data []byte, decrypt bool) []byte {
	blk, err := aes.NewCipher(key)
	if err != nil {
		panic(err)
	}
	cPrev := append([]byte{}, iv[:16]...)
	pPrev := append([]byte{}, iv[16:32]...)
	out := make([]byte, 0, len(data))
	for i := 0; i+16 <= len(data); i += 16 {
		in := append([]byte{}, data[i:i+16]...)
		tmp := make([]byte, 16)
		res := make([]byte, 16)
		if !decrypt {
			for j := range tmp {
				tmp[j] = in[j] ^ cPrev[j]
			}
			blk.Encrypt(res, tmp)
			for j := range res {
				res[j] ^= pPrev[j]
			}
			cPrev, pPrev = res, in
		} else {
			for j := range tmp {
				tmp[j] = in[j] ^ pPrev[j]
			}
			blk.Decrypt(res, tmp)
			for j := range res {
				res[j] ^= cPrev[j]
			}
			cPrev, pPrev = in, res
		}
		out = append(out, res...)
	}
	return out
}

func sha1of(parts ...[]byte) []byte {
	h := sha1.New()
	for _, p := range parts {
		h.Write(p)
	}
	return h.Sum(nil)
}

func cat(parts ...[]byte) []byte {
	var out []byte
	for _, p := range parts {
		out = append(out, p...)
	}
	return out
}

// refTempKeys: core.telegram.org/mtproto/auth_key on the 32-byte new_nonce and 16-byte server_nonce.
func refTempKeys(newNonce, serverNonce []byte) (key, iv []byte) {
	ns := sha1of(newNonce, serverNonce)
	sn := sha1of(serverNonce, newNonce)
	nn := sha1of(newNonce, newNonce)
	return cat(ns, sn[0:12]), cat(sn[12:20], nn, newNonce[0:4])
}

// refKDF: MTProto 1.0 message key schedule; x = 0 client→server, 8 server→client.
func refKDF(msgKey, authKey []byte, x int) (key, iv []byte) {
	a := sha1of(msgKey, authKey[x:x+32])
	b := sha1of(authKey[32+x:48+x], msgKey, authKey[48+x:64+x])
	c := sha1of(authKey[64+x:96+x], msgKey)
	d := sha1of(msgKey, authKey[96+x:128+x])
	return cat(a[0:8], b[8:20], c[4:16]), cat(a[8:20], b[0:8], c[16:20], d[0:8])
}

// leftPad: the fixed-width big-endian form of an integer token (nil when it does not fit).
func leftPad(b []byte, w int) []byte {
	for len(b) > 0 && b[0] == 0 {
		b = b[1:]
	}
	if len(b) > w {
		return nil
	}
	return append(make([]byte, w-len(b)), b...)
}

// c05Bytes: the byte-string tokens of util.go (hex, "-", z<n>, p<n>) plus r<n>:<seed> — n bytes of the
// 64-bit linear congruential generator (Knuth's MMIX constants) started at seed, top byte of each state.
// Long inputs (hundreds of blocks) stay one short token on the operation line; Driver/C05.lean expands the
// token the same way.
func c05Bytes(s string) []byte {
	if strings.HasPrefix(s, "r") {
		parts := strings.SplitN(s[1:], ":", 2)
		if len(parts) != 2 {
			panic("bad r token: " + s)
		}
		n := atoi(parts[0])
		st, err := strconv.ParseUint(parts[1], 10, 64)
		if err != nil {
			panic("bad r token: " + s)
		}
		b := make([]byte, n)
		for i := range b {
			st = st*6364136223846793005 + 1442695040888963407
			b[i] = byte(st >> 56)
		}
		return b
	}
	return parseBytes(s)
}

// ---- running the real code ------------------------------------------------------------------------

const c05Site = "panic:"

// c05Catch runs f; a panic becomes "panic:<first repository frame>".
func c05Catch(f func() []byte) (res []byte, pan string) {
	defer func() {
		if r := recover(); r != nil {
			pan = c05Site + panicSite()
		}
	}()
	return f(), ""
}

func c05Err(err error) string {
	switch {
	case err == nil:
		return "-"
	case err == ige.ErrDataTooSmall || strings.Contains(err.Error(), ige.ErrDataTooSmall.Error()):
		return "toosmall"
	case err == ige.ErrDataNotDivisible || strings.Contains(err.Error(), ige.ErrDataNotDivisible.Error()):
		return "notdivisible"
	case strings.Contains(err.Error(), "auth key is too short"):
		return "shortKey"
	}
	return "other"
}

func c05Fill(n int) []byte { return bytes.Repeat([]byte{0xA5}, n) }

func c05Same(before, after []byte) string {
	if bytes.Equal(before, after) {
		return "same"
	}
	return "changed"
}

func c05Big(tok string) *big.Int { return new(big.Int).SetBytes(c05Bytes(tok)) }

func c05Outcome(b []byte, err error, pan string) string {
	if pan != "" {
		return pan
	}
	if err != nil {
		return "err:" + c05Err(err)
	}
	return "ok:" + showBytes(b)
}

// ---- caller-owned memory ----------------------------------------------------------------------------
//
// The property is about each call on its own ("for every key, IV and input"), whatever memory the
// caller keeps its arguments in. A caller may well keep ONE key buffer, ONE IV buffer, ONE data buffer and
// ONE pair of big.Int nonces for its whole life and refill them in place before every call; code that
// keeps a reference to such memory beyond the call (a cache keyed by the slice, a result that aliases an
// argument) is right for freshly allocated arguments and wrong for this caller. So every byte-string and
// integer argument of every operation lives in long-lived memory (c05Arena / c05Ints), and every
// operation is run twice on them: first with other contents of the same lengths (the complement of each
// argument — "the previous call"), then, refilled in place, with the operation's own arguments; only the
// second result is reported. After the call has returned the arguments are overwritten once more and the
// result must not move.

var c05Ints [2]*big.Int

// Where the byte-string arguments live: ONE long-lived array (c05Arena), every argument a window into it.
// A caller's message is rarely a slice of its own with nothing behind it: it is the first n bytes of a
// reused write buffer, a field of a packet serialised into an arena, one of several packets laid back to
// back — the slice handed to the library has SPARE CAPACITY, and the memory behind (and in front of) it
// is the caller's too. "The caller's buffers are never modified" covers that memory: a library that
// builds its padded copy by appending to the argument writes into it. So:
//   * every argument sits between guard zones filled with a known, never-zero pattern (for a share of the
//     operations the arguments are laid back to back instead, no guard between them: what is written
//     behind one argument lands in the next);
//   * the capacity of the slice handed over varies with the operation: to the end of the arena (half of
//     the operations), exactly its length, or its length plus 1..15 bytes;
//   * the whole arena is compared with its image from just before the call — after the call has returned,
//     and again after the forced collection — outside AND inside the arguments (output buffers excepted).
// The layout depends on the operation line only (c05Layout), so the decoy pass and the reported pass of
// one operation use the same memory, refilled in place.

var c05Arena []byte

type c05Region struct {
	off, n   int
	writable bool // an output buffer: the callee's to write
}

var c05Lay struct {
	used        int
	regions     []c05Region
	backToBack  bool
	capMode     int // 0, 1: to the end of the arena; 2: exactly len; 3: len + 1..15
	capExtra    int
	swap        bool   // c05.msgenc: the message in front of the key
	refuseFirst bool   // c05.tdec / c05.tenc: the call before (the decoy pass) is handed the complement of a good ciphertext — valid length, refused
	snap        []byte // image of the arena up to used + guard, taken by c05Arm just before the call
}

const c05Guard = 48

func c05Pattern(i int) byte { return 0x81 + byte(i%113) } // never zero

// c05Layout starts the layout of one operation's arguments; it is a function of the operation line alone.
func c05Layout(op []string) {
	line := strings.Join(op, " ")
	h := fnv32([]byte(line))
	if c05LayoutOf != "" { // c05.seqip: ONE layout for every member of the sequence (c05one.go)
		h = fnv32([]byte(c05LayoutOf))
	}
	est := 4096
	for _, t := range op[1:] {
		n := len(t) / 2
		if len(t) > 1 && strings.ContainsRune("rpz", rune(t[0])) {
			if k, err := strconv.Atoi(strings.SplitN(t[1:], ":", 2)[0]); err == nil {
				n = k
			}
		}
		est += 3*n + 4*c05Guard // every argument, an output buffer or ciphertext of its size, a re-placed copy
	}
	if len(c05Arena) < est {
		c05Arena = make([]byte, 2*est)
	}
	c05Lay.used, c05Lay.regions, c05Lay.snap = 0, c05Lay.regions[:0], nil
	c05Lay.backToBack = h%4 == 0
	c05Lay.capMode = int(h>>2) % 4
	c05Lay.capExtra = 1 + int(h>>4)%15
	c05Lay.swap = (h>>8)%2 == 1
	c05Lay.refuseFirst = (h>>9)%2 == 1
}

func c05PlaceAt(content []byte, decoy, writable bool) []byte {
	lay := &c05Lay
	need := c05Guard + len(content) + c05Guard
	if lay.used+need+16 > len(c05Arena) { // the estimate of c05Layout was too small: a buffer of its own
		b := make([]byte, len(content), 2*len(content)+64)
		copy(b, content)
		if decoy {
			c05Scribble(b)
		}
		return b
	}
	if !lay.backToBack || len(lay.regions) == 0 {
		for i := 0; i < c05Guard; i++ {
			c05Arena[lay.used+i] = c05Pattern(lay.used + i)
		}
		lay.used += c05Guard
	}
	off, n := lay.used, len(content)
	copy(c05Arena[off:off+n], content)
	lay.used += n
	// the guard / spare capacity behind the argument (overwritten by the next argument when back to back)
	for i := lay.used; i < lay.used+c05Guard; i++ {
		c05Arena[i] = c05Pattern(i)
	}
	lay.regions = append(lay.regions, c05Region{off, n, writable})
	var b []byte
	switch lay.capMode {
	case 2:
		b = c05Arena[off : off+n : off+n]
	case 3:
		b = c05Arena[off : off+n : off+n+lay.capExtra]
	default:
		b = c05Arena[off : off+n]
	}
	if decoy {
		c05Scribble(b)
	}
	return b
}

// c05Place copies content (complemented for the decoy pass) into the arena and returns its window.
func c05Place(_ int, content []byte, decoy bool) []byte { return c05PlaceAt(content, decoy, false) }

// c05Arm takes the image of the caller's memory; to be called when every argument is in place, just
// before the call.
func c05Arm() {
	end := c05Lay.used + c05Guard
	if end > len(c05Arena) {
		end = len(c05Arena)
	}
	c05Lay.snap = append(c05Lay.snap[:0], c05Arena[:end]...)
}

const (
	c05Outside = "caller-memory-changed-outside-arguments"
	c05Inside  = "caller-buffer-changed"
)

// c05Touched compares the caller's memory with its image: "" when nothing but output buffers changed
// (their new contents join the image), else whether the first changed byte lies inside an argument or
// in the memory around the arguments (guard zone / spare capacity), and where.
func c05Touched() (kind, where string) {
	snap := c05Lay.snap
	if snap == nil {
		return "", ""
	}
	for _, r := range c05Lay.regions {
		if r.writable {
			copy(snap[r.off:r.off+r.n], c05Arena[r.off:r.off+r.n])
		}
	}
	if bytes.Equal(snap, c05Arena[:len(snap)]) {
		return "", ""
	}
	i := 0
	for snap[i] == c05Arena[i] {
		i++
	}
	for k, r := range c05Lay.regions {
		if i >= r.off && i < r.off+r.n {
			return c05Inside, fmt.Sprintf("byte %d of argument %d (%d bytes)", i-r.off, k+1, r.n)
		}
	}
	for k, r := range c05Lay.regions {
		if i >= r.off+r.n && (k+1 == len(c05Lay.regions) || i < c05Lay.regions[k+1].off) {
			return c05Outside, fmt.Sprintf("%d bytes behind the end of argument %d (%d bytes, capacity %d)", i-(r.off+r.n)+1, k+1, r.n, c05CapOf(r))
		}
	}
	return c05Outside, "in front of the first argument"
}

func c05CapOf(r c05Region) int {
	switch c05Lay.capMode {
	case 2:
		return r.n
	case 3:
		return r.n + c05Lay.capExtra
	}
	return len(c05Arena) - r.off
}

var c05Where string // detail of the last c05Outside / c05Inside finding, for the run's notes

func c05Check() string {
	kind, where := c05Touched()
	if kind != "" {
		c05Where = where
	}
	return kind
}

// c05PlaceInt sets the long-lived big.Int i to the value of the token (its words are rewritten in place
// when they fit; SetBytes keeps the backing array).
func c05PlaceInt(i int, tok string, decoy bool) *big.Int {
	if c05Ints[i] == nil {
		c05Ints[i] = new(big.Int)
	}
	b := append([]byte{}, c05Bytes(tok)...)
	if decoy {
		c05Scribble(b)
	}
	return c05Ints[i].SetBytes(b)
}

func c05Scribble(bufs ...[]byte) {
	for _, b := range bufs {
		for j := range b {
			b[j] = ^b[j]
		}
	}
}

// c05Retained: the arguments are overwritten after the call; a result that changes with them is a
// reference into the caller's memory.
func c05Retained(results [][]byte, args [][]byte, ints ...*big.Int) bool {
	snap := make([][]byte, len(results))
	for i, r := range results {
		snap[i] = append([]byte{}, r...)
	}
	c05Scribble(args...)
	for _, n := range ints {
		n.SetBytes(bytes.Repeat([]byte{0x3c}, 40))
	}
	for i, r := range results {
		if !bytes.Equal(snap[i], r) {
			return true
		}
	}
	return false
}

// ---- later -----------------------------------------------------------------------------------------
//
// "The caller's buffers are never modified" has no time limit: code that keeps a reference to caller
// memory inside an object of its own can write through it when that object is collected (a finalizer, a
// pooled object that is cleaned on reuse), long after a call that returned the right result and left every
// buffer intact. So after an operation has returned and its buffers have been looked at, everything the
// call allocated is dropped, the collector runs twice and the finalizer goroutine is waited for; then
// every caller-owned buffer is looked at again.

//go:noinline
func c05Sentinel() chan struct{} {
	done := make(chan struct{})
	s := &struct {
		p *int
		b [64]byte
	}{}
	runtime.SetFinalizer(s, func(interface{}) { close(done) })
	return done
}

// c05Collect: two collections. The finalizer goroutine runs what one collection queued as one batch,
// strictly before the batch of the next collection: when the second sentinel's finalizer has run, every
// finalizer that the first collection queued has returned.
func c05Collect() {
	for i := 0; i < 2; i++ {
		done := c05Sentinel()
		runtime.GC()
		select {
		case <-done:
		case <-time.After(2 * time.Second):
		}
		runtime.Gosched()
	}
}

// c05Later reports whether any of the caller-owned buffers / integers differs after collection from what
// it held when the call had just returned.
func c05Later(bufs [][]byte, ints ...*big.Int) bool {
	if c05NoCollect { // c05.seqip: nothing between the calls of the sequence
		return false
	}
	snap := make([][]byte, 0, len(bufs)+len(ints))
	for _, b := range bufs {
		snap = append(snap, append([]byte{}, b...))
	}
	for _, n := range ints {
		snap = append(snap, n.Bytes())
	}
	c05Collect()
	if c05Check() != "" {
		return true
	}
	for i, b := range bufs {
		if !bytes.Equal(snap[i], b) {
			return true
		}
	}
	for i, n := range ints {
		if !bytes.Equal(snap[len(bufs)+i], n.Bytes()) {
			return true
		}
	}
	return false
}

const c05LateChange = "caller-buffer-changed-after-gc"

func c05Exec(op []string) string {
	if c05IsBatch(op) {
		return c05Batch(op)
	}
	if len(op) == 0 || c05Arity[op[0]] != len(op) {
		return "bad-op"
	}
	func() {
		defer func() { _ = recover() }()
		_ = c05Exec1(op, true)
	}()
	return c05Exec1(op, false)
}

func c05Exec1(op []string, decoy bool) string {
	c05Layout(op)
	arg := func(slot, i int) []byte { return c05Place(slot, c05Bytes(op[i]), decoy) }
	switch op[0] {
	case "c05.enc", "c05.dec":
		key, iv, data := arg(0, 1), arg(1, 2), arg(2, 3)
		out := c05PlaceAt(c05Fill(len(data)), false, true)
		var err error
		c05Arm()
		if op[0] == "c05.enc" {
			err = ige.VerifIGEEncrypt(data, out, key, iv)
		} else {
			err = ige.VerifIGEDecrypt(data, out, key, iv)
		}
		if w := c05Check(); w != "" {
			return w
		}
		line := fmt.Sprintf("err=%s out=%s in=%s", c05Err(err), showBytes(out), showBytes(data))
		if !decoy && c05Later([][]byte{key, iv, data, out}) {
			return c05LateChange
		}
		if c05Retained([][]byte{out}, [][]byte{key, iv, data}) {
			return "caller-buffer-retained"
		}
		return line
	case "c05.msgenc":
		var ak, msg []byte
		if c05Lay.swap { // the message in front of the key: back to back, the key is what lies behind the message
			msg = arg(1, 2)
			ak = arg(0, 1)
		} else {
			ak, msg = arg(0, 1), arg(1, 2)
		}
		ak0, msg0 := append([]byte{}, ak...), append([]byte{}, msg...)
		var err error
		c05Arm()
		res, pan := c05Catch(func() []byte {
			var r []byte
			r, err = ige.Encrypt(msg, ak)
			return r
		})
		if !bytes.Equal(ak, ak0) || !bytes.Equal(msg, msg0) {
			return "caller-buffer-changed"
		}
		if w := c05Check(); w != "" {
			return w
		}
		if !decoy && c05Later([][]byte{ak, msg, res}) {
			return c05LateChange
		}
		if c05Retained([][]byte{res}, [][]byte{ak, msg}) {
			return "caller-buffer-retained"
		}
		return c05Outcome(res, err, pan)
	case "c05.msgdec":
		ak, mk, ct := arg(0, 1), arg(1, 2), arg(2, 3)
		ak0, mk0, ct0 := append([]byte{}, ak...), append([]byte{}, mk...), append([]byte{}, ct...)
		var err error
		c05Arm()
		res, pan := c05Catch(func() []byte {
			var r []byte
			r, err = ige.Decrypt(ct, ak, mk)
			return r
		})
		if !bytes.Equal(ak, ak0) || !bytes.Equal(mk, mk0) || !bytes.Equal(ct, ct0) {
			return "caller-buffer-changed"
		}
		if w := c05Check(); w != "" {
			return w
		}
		if !decoy && c05Later([][]byte{ak, mk, ct, res}) {
			return c05LateChange
		}
		if c05Retained([][]byte{res}, [][]byte{ak, mk, ct}) {
			return "caller-buffer-retained"
		}
		return c05Outcome(res, err, pan)
	case "c05.mkey":
		msg := arg(0, 1)
		msg0 := append([]byte{}, msg...)
		c05Arm()
		res, pan := c05Catch(func() []byte { return ige.MessageKey(msg) })
		if !bytes.Equal(msg, msg0) {
			return "caller-buffer-changed"
		}
		if w := c05Check(); w != "" {
			return w
		}
		if !decoy && c05Later([][]byte{msg, res}) {
			return c05LateChange
		}
		if c05Retained([][]byte{res}, [][]byte{msg}) {
			return "caller-buffer-retained"
		}
		return c05Outcome(res, nil, pan)
	case "c05.kdf":
		if op[3] != "0" && op[3] != "1" {
			return "bad-op"
		}
		mk, ak := arg(0, 1), arg(1, 2)
		mk0, ak0 := append([]byte{}, mk...), append([]byte{}, ak...)
		var key, iv []byte
		c05Arm()
		_, pan := c05Catch(func() []byte { key, iv = ige.VerifGenerateAESIGE(mk, ak, op[3] == "1"); return nil })
		if pan != "" {
			return pan
		}
		if !bytes.Equal(mk, mk0) || !bytes.Equal(ak, ak0) {
			return "caller-buffer-changed"
		}
		if w := c05Check(); w != "" {
			return w
		}
		if !decoy && c05Later([][]byte{mk, ak, key, iv}) {
			return c05LateChange
		}
		if c05Retained([][]byte{key, iv}, [][]byte{mk, ak}) {
			return "caller-buffer-retained"
		}
		return fmt.Sprintf("key=%s iv=%s", showBytes(key), showBytes(iv))
	case "c05.tkeys":
		n, s := c05PlaceInt(0, op[1], decoy), c05PlaceInt(1, op[2], decoy)
		var key, iv []byte
		_, pan := c05Catch(func() []byte { key, iv = ige.VerifGenerateTempKeys(n, s); return nil })
		if pan != "" {
			return pan
		}
		if !decoy && c05Later([][]byte{key, iv}, n, s) {
			return c05LateChange
		}
		if c05Retained([][]byte{key, iv}, nil, n, s) {
			return "caller-buffer-retained"
		}
		return fmt.Sprintf("key=%s iv=%s", showBytes(key), showBytes(iv))
	case "c05.tenc":
		n, s := c05PlaceInt(0, op[1], decoy), c05PlaceInt(1, op[2], decoy)
		seed, _ := strconv.ParseInt(op[3], 10, 64)
		msg := arg(0, 5)
		msg0 := append([]byte{}, msg...)
		rand.Seed(seed) // the padding comes from dry.RandomBytes = global math/rand
		c05Arm()
		ct, pan := c05Catch(func() []byte { return ige.EncryptMessageWithTempKeys(msg, n, s) })
		if pan != "" {
			return pan
		}
		if !bytes.Equal(msg, msg0) {
			return "caller-buffer-changed"
		}
		if w := c05Check(); w != "" {
			return w
		}
		if !decoy && c05Later([][]byte{msg, ct}, n, s) {
			return c05LateChange
		}
		if c05Retained([][]byte{ct}, [][]byte{msg}) {
			return "caller-buffer-retained"
		}
		// the ciphertext travels: what is decrypted is a copy of it in the caller's (reused) receive buffer
		ctFull := hexD(ct) // in full: the oracle decrypts it
		// (for half of the operations the call before — the decoy pass — gets the complement instead: a ciphertext
		// of valid length that is no message and has to be refused; what that refusal leaves behind meets the
		// reported pass, no collection in between)
		ct = c05Place(1, ct, decoy && c05Lay.refuseFirst)
		ct0 := append([]byte{}, ct...)
		c05Arm()
		rt, pan := c05Catch(func() []byte { return ige.DecryptMessageWithTempKeys(ct, n, s) })
		if !bytes.Equal(ct, ct0) {
			return "caller-buffer-changed"
		}
		if w := c05Check(); w != "" {
			return w
		}
		if !decoy && c05Later([][]byte{ct, rt}, n, s) {
			return c05LateChange
		}
		if c05Retained([][]byte{rt}, [][]byte{ct}, n, s) {
			return "caller-buffer-retained"
		}
		return fmt.Sprintf("ct=%s rt=%s", ctFull, c05Outcome(rt, nil, pan))
	case "c05.tnopad":
		n, s, data := c05PlaceInt(0, op[1], decoy), c05PlaceInt(1, op[2], decoy), arg(0, 3)
		data0 := append([]byte{}, data...)
		c05Arm()
		ct, pan := c05Catch(func() []byte { return ige.VerifEncryptWithTempKeysNoPad(data, n, s) })
		if !bytes.Equal(data, data0) {
			return "caller-buffer-changed"
		}
		if w := c05Check(); w != "" {
			return w
		}
		if !decoy && c05Later([][]byte{data, ct}, n, s) {
			return c05LateChange
		}
		if c05Retained([][]byte{ct}, [][]byte{data}, n, s) {
			return "caller-buffer-retained"
		}
		return c05Outcome(ct, nil, pan)
	case "c05.tdec", "c05.tdecbad":
		if len(op) != c05Arity[op[0]] {
			return "bad-op"
		}
		nb, sb, pad, answer := arg(0, 1), arg(1, 2), arg(2, 3), arg(3, 4)
		if len(nb) != 32 || len(sb) != 16 || (20+len(answer)+len(pad))%16 != 0 {
			return "bad-op"
		}
		msg := c05Conformant(nb, sb, answer, pad)
		if op[0] == "c05.tdecbad" { // valid length, but not an answer: damaged, random, or made under other nonces
			if msg = c05Damaged(op[5], nb, sb, pad, answer); msg == nil {
				return "bad-op"
			}
		}
		// c05.tdec, half of the operations: the call before (the decoy pass) is handed the complement of the
		// message — valid length, refused — and the reported pass follows it with no collection in between
		ct := c05Place(4, msg, decoy && op[0] == "c05.tdec" && c05Lay.refuseFirst)
		ct0 := append([]byte{}, ct...)
		ctShown := showBytes(ct)
		if c05Ints[0] == nil || c05Ints[1] == nil {
			c05Ints[0], c05Ints[1] = new(big.Int), new(big.Int)
		}
		n, s := c05Ints[0].SetBytes(nb), c05Ints[1].SetBytes(sb)
		c05Arm()
		res, pan := c05Catch(func() []byte { return ige.DecryptMessageWithTempKeys(ct, n, s) })
		if !bytes.Equal(ct, ct0) {
			return "caller-buffer-changed"
		}
		if w := c05Check(); w != "" {
			return w
		}
		if !decoy && c05Later([][]byte{ct, res}, n, s) {
			return c05LateChange
		}
		if c05Retained([][]byte{res}, [][]byte{ct, nb, sb}, n, s) {
			return "caller-buffer-retained"
		}
		return fmt.Sprintf("ct=%s out=%s", ctShown, c05Outcome(res, nil, pan))
	case "c05.tdecraw":
		n, s, ct := c05PlaceInt(0, op[1], decoy), c05PlaceInt(1, op[2], decoy), arg(0, 3)
		c05Arm()
		res, pan := c05Catch(func() []byte { return ige.DecryptMessageWithTempKeys(ct, n, s) })
		if w := c05Check(); w != "" {
			return w
		}
		if !decoy && c05Later([][]byte{ct, res}, n, s) {
			return c05LateChange
		}
		if c05Retained([][]byte{res}, [][]byte{ct}, n, s) {
			return "caller-buffer-retained"
		}
		return c05Outcome(res, nil, pan)
	}
	return "bad-op"
}

// c05Conformant: encrypted_answer := AES256_ige_encrypt(SHA1(answer) + answer + (0-15 random bytes))
// under tmp_aes_key / tmp_aes_iv, all from the reference implementation.
func c05Conformant(newNonce, serverNonce, answer, pad []byte) []byte {
	key, iv := refTempKeys(newNonce, serverNonce)
	return refIGE(key, iv, cat(sha1of(answer), answer, pad), false)
}

// ---- the property oracle ---------------------------------------------------------------------------

func field(out, name string) string {
	for _, f := range strings.Fields(out) {
		if strings.HasPrefix(f, name+"=") {
			return f[len(name)+1:]
		}
	}
	return "<none>"
}

func c05Judge(op []string, out string) string {
	if c05IsBatch(op) {
		return c05JudgeBatch(op, out)
	}
	why := c05Judge1(op, out)
	if why != "" {
		why += " [every argument is a window into one long-lived caller array that held other contents (the complement) during the call before, see c05Exec / c05Layout]"
		if (op[0] == "c05.tdec" || op[0] == "c05.tenc") && c05Lay.refuseFirst {
			why += " [for this operation the call before handed DecryptMessageWithTempKeys the COMPLEMENT of a good ciphertext — valid length, no message, refused — and no collection ran between that call and this one]"
		}
	}
	return why
}

// c05Describe: where the last finding of c05Check lies and how the operation's arguments were laid out
// (the Judge runs right after the Exec of its operation).
func c05Describe() string {
	caps := []string{"capacity to the end of the array", "capacity to the end of the array", "capacity = length", fmt.Sprintf("capacity = length + %d", c05Lay.capExtra)}[c05Lay.capMode]
	lay := "guard zones between the arguments"
	if c05Lay.backToBack {
		lay = "arguments back to back"
	}
	return fmt.Sprintf("[first changed byte: %s; layout: %s, %s]", c05Where, lay, caps)
}

func c05Judge1(op []string, out string) string {
	if out == "caller-buffer-changed" {
		return "a caller's buffer was modified by the call " + c05Describe()
	}
	if out == c05Outside {
		return "the call wrote into the caller's memory AROUND its arguments (every argument is a window into one long-lived array, between guard zones of a known pattern or back to back with the next argument; its spare capacity is the caller's memory): " + c05Describe()
	}
	if out == c05LateChange {
		return "a caller's buffer, intact when the call returned, had changed after the garbage collector (and the finalizers it queued) had run: the code keeps a reference into caller-owned memory and writes through it later"
	}
	if out == "caller-buffer-retained" {
		return "the result changed when the caller overwrote its own argument buffers after the call had returned: the code hands out / keeps a reference into caller-owned memory"
	}
	switch op[0] {
	case "c05.enc", "c05.dec":
		key, iv, data := c05Bytes(op[1]), c05Bytes(op[2]), c05Bytes(op[3])
		if len(key) != 32 || len(iv) != 32 {
			return ""
		}
		if strings.HasPrefix(out, "panic:") {
			return "the cipher panicked: " + out
		}
		if field(out, "in") != showBytes(data) {
			return "the caller's input buffer was modified"
		}
		if len(data) == 0 || len(data)%16 != 0 {
			if e := field(out, "err"); e == "-" {
				return fmt.Sprintf("input of %d bytes (zero or not a multiple of 16) was not refused", len(data))
			}
			if field(out, "out") != showBytes(c05Fill(len(data))) {
				return "a refused call wrote to the output buffer"
			}
			return ""
		}
		dec := op[0] == "c05.dec"
		want := refIGE(key, iv, data, dec)
		if back := refIGE(key, iv, want, !dec); !bytes.Equal(back, data) {
			return "oracle self-check failed: reference IGE does not invert itself"
		}
		exp := fmt.Sprintf("err=- out=%s in=%s", showBytes(want), showBytes(data))
		if out != exp {
			return fmt.Sprintf("result differs from the IGE definition on %d blocks: want %s", len(data)/16, clip(exp))
		}
	case "c05.msgenc":
		ak, msg := c05Bytes(op[1]), c05Bytes(op[2])
		if len(ak) < 128 || len(msg) == 0 {
			return "" // an auth key is 256 bytes, a message is never empty: outside the property
		}
		if !strings.HasPrefix(out, "ok:") {
			return "Encrypt failed on a non-empty message: " + out
		}
		key, iv := refKDF(sha1of(msg)[4:20], ak, 0)
		padded := append(append([]byte{}, msg...), make([]byte, (16-len(msg)%16)%16)...)
		if want := "ok:" + showBytes(refIGE(key, iv, padded, false)); out != want {
			return fmt.Sprintf("Encrypt of %d bytes is not IGE of the message zero-padded to %d bytes: want %s", len(msg), len(padded), clip(want))
		}
	case "c05.msgdec":
		ak, mk, ct := c05Bytes(op[1]), c05Bytes(op[2]), c05Bytes(op[3])
		if len(ak) < 136 || len(mk) != 16 {
			return ""
		}
		if len(ct) == 0 || len(ct)%16 != 0 {
			if !strings.HasPrefix(out, "err:") {
				return fmt.Sprintf("Decrypt did not refuse %d bytes: %s", len(ct), out)
			}
			return ""
		}
		key, iv := refKDF(mk, ak, 8)
		if want := "ok:" + showBytes(refIGE(key, iv, ct, true)); out != want {
			return "Decrypt differs from IGE decryption under the message's key schedule: want " + clip(want)
		}
	case "c05.mkey":
		if want := "ok:" + showBytes(sha1of(c05Bytes(op[1]))[4:20]); out != want {
			return fmt.Sprintf("MessageKey of %d bytes is not SHA1(msg)[4:20]: want %s", len(c05Bytes(op[1])), want)
		}
	case "c05.kdf":
		mk, ak := c05Bytes(op[1]), c05Bytes(op[2])
		if out == "bad-op" || (op[3] != "0" && op[3] != "1") {
			return ""
		}
		x := 8 * atoi(op[3])
		if len(mk) != 16 || len(ak) < 128+x {
			return "" // not a message key / an auth key the schedule cannot work with
		}
		key, iv := refKDF(mk, ak, x)
		if want := fmt.Sprintf("key=%s iv=%s", showBytes(key), showBytes(iv)); out != want {
			return fmt.Sprintf("aes key/iv of the message (x=%d) differ from the MTProto 1.0 key schedule: want %s", x, want)
		}
	case "c05.tkeys":
		nb, sb := leftPad(c05Bytes(op[1]), 32), leftPad(c05Bytes(op[2]), 16)
		if nb == nil || sb == nil {
			return "" // not a 256-bit / 128-bit nonce
		}
		key, iv := refTempKeys(nb, sb)
		if want := fmt.Sprintf("key=%s iv=%s", showBytes(key), showBytes(iv)); out != want {
			return "temp key/iv differ from the MTProto definition on the fixed-width nonces: want " + want
		}
	case "c05.tenc":
		nb, sb := leftPad(c05Bytes(op[1]), 32), leftPad(c05Bytes(op[2]), 16)
		msg := c05Bytes(op[5])
		if nb == nil || sb == nil {
			return ""
		}
		if strings.HasPrefix(out, "panic:") {
			return "EncryptMessageWithTempKeys panicked: " + out
		}
		ct := c05Bytes(field(out, "ct"))
		key, iv := refTempKeys(nb, sb)
		if len(ct) == 0 || len(ct)%16 != 0 {
			return fmt.Sprintf("ciphertext of %d bytes", len(ct))
		}
		plain := refIGE(key, iv, ct, true)
		if len(plain) < 20+len(msg) || !bytes.Equal(plain[:20], sha1of(msg)) || !bytes.Equal(plain[20:20+len(msg)], msg) {
			return "what a conformant peer decrypts is not SHA1(msg) ‖ msg ‖ padding"
		}
		if p := len(plain) - 20 - len(msg); p > 15 {
			return fmt.Sprintf("%d bytes of padding for a %d-byte payload (MTProto: 0-15)", p, len(msg))
		}
		if want := "ok:" + showBytes(msg); field(out, "rt") != want {
			return fmt.Sprintf("the client cannot read back its own message of %d bytes: %s", len(msg), field(out, "rt"))
		}
	case "c05.tnopad":
		nb, sb := leftPad(c05Bytes(op[1]), 32), leftPad(c05Bytes(op[2]), 16)
		data := c05Bytes(op[3])
		if nb == nil || sb == nil {
			return ""
		}
		if len(data) == 0 || len(data)%16 != 0 {
			if strings.HasPrefix(out, "ok:") {
				return fmt.Sprintf("%d bytes were not refused", len(data))
			}
			return ""
		}
		key, iv := refTempKeys(nb, sb)
		if want := "ok:" + showBytes(refIGE(key, iv, data, false)); out != want {
			return "differs from IGE under the temp keys of the definition: want " + clip(want)
		}
	case "c05.tdecbad":
		return c05JudgeBad(op, out)
	case "c05.tdec":
		if out == "bad-op" {
			return ""
		}
		answer := c05Bytes(op[4])
		if want := "ok:" + showBytes(answer); field(out, "out") != want {
			return fmt.Sprintf("a conformant peer's answer of %d bytes with %d padding bytes is not recovered: %s",
				len(answer), len(c05Bytes(op[3])), field(out, "out"))
		}
	}
	return ""
}

// ---- generation -------------------------------------------------------------------------------------

func c05Tok(b []byte) string { return hexD(b) }

// c05Nonce: w random bytes whose first z bytes are zero and whose next byte is not.
func c05Nonce(r *Rand, w, z int) []byte {
	b := r.Bytes(w)
	for i := 0; i < z && i < w; i++ {
		b[i] = 0
	}
	if z < w && b[z] == 0 {
		b[z] = byte(1 + r.Intn(255))
	}
	return b
}

// c05Pad16: the first 16 bytes math/rand delivers after Seed(seed) — what dry.RandomBytes will return.
func c05Pad16(seed int64) []byte {
	rand.Seed(seed)
	p := make([]byte, 16)
	rand.Read(p)
	return p
}

func c05Gen(g *G) {
	r := g.R
	// (a) the cipher core: every block count 1..N, fresh key/IV each, encrypt and decrypt
	maxBlocks := g.N(64, 1024)
	for nb := 1; nb <= maxBlocks; nb++ {
		key, iv := r.Bytes(32), r.Bytes(32)
		data := r.Bytes(16 * nb)
		switch nb % 11 { // degenerate data: chaining mistakes that cancel on random data
		case 3:
			data = make([]byte, 16*nb)
		case 7:
			data = bytes.Repeat(r.Bytes(16), nb)
		}
		tag := "blocks<=2"
		if nb > 2 {
			tag = "blocks>=3"
		}
		g.Emit(fmt.Sprintf("c05.enc %s %s %s", c05Tok(key), c05Tok(iv), c05Tok(data)), "ige-enc", tag)
		ct := refIGE(key, iv, data, false)
		g.Emit(fmt.Sprintf("c05.dec %s %s %s", c05Tok(key), c05Tok(iv), c05Tok(ct)), "ige-dec", tag)
	}
	// (a') long inputs: block counts around every power of two up to 2048 and at multiples of them, plus a few
	// random large ones. Code that stages its input through a buffer of its own (a page, a pool chunk) is
	// right until the input is longer than that buffer, or exactly fills it twice. The data are tokens
	// (r<n>:<seed> pseudo-random, p<n> a pattern of period 251, z<n> zeros) so that the lines stay short.
	longBlocks := []int{96, 127, 128, 129, 192, 255, 256, 257, 384, 511, 512, 513, 767, 768, 769, 1023, 1024, 1025, 1536, 2047, 2048, 2049}
	for i := 0; i < g.N(4, 24); i++ {
		longBlocks = append(longBlocks, 258+r.Intn(4096-258))
	}
	if g.Thorough() {
		longBlocks = append(longBlocks, 4095, 4096, 4097, 8191, 8192, 8193)
	}
	for i, nb := range longBlocks {
		key, iv := r.Bytes(32), r.Bytes(32)
		tok := fmt.Sprintf("r%d:%d", 16*nb, r.U64())
		if i%5 == 4 {
			tok = fmt.Sprintf("p%d", 16*nb)
		}
		g.Emit(fmt.Sprintf("c05.enc %s %s %s", c05Tok(key), c05Tok(iv), tok), "ige-enc", "long-input", "blocks>=3")
		key, iv = r.Bytes(32), r.Bytes(32)
		g.Emit(fmt.Sprintf("c05.dec %s %s %s", c05Tok(key), c05Tok(iv), tok), "ige-dec", "long-input", "blocks>=3")
		if nb%128 == 1 { // one byte more or less than a long aligned length is still refused
			g.Emit(fmt.Sprintf("c05.enc %s %s r%d:%d", c05Tok(key), c05Tok(iv), 16*nb-17, r.U64()), "refused", "long-input")
			g.Emit(fmt.Sprintf("c05.dec %s %s r%d:%d", c05Tok(key), c05Tok(iv), 16*nb-15, r.U64()), "refused", "long-input")
		}
	}
	// special keys / IVs
	for _, nb := range []int{1, 2, 3, 5} {
		for _, kv := range [][2][]byte{{make([]byte, 32), make([]byte, 32)}, {r.Bytes(32), make([]byte, 32)},
			{bytes.Repeat([]byte{0xff}, 32), bytes.Repeat([]byte{0xff}, 32)}, {r.Bytes(32), cat(make([]byte, 16), r.Bytes(16))}} {
			data := r.Bytes(16 * nb)
			g.Emit(fmt.Sprintf("c05.enc %s %s %s", c05Tok(kv[0]), c05Tok(kv[1]), c05Tok(data)), "ige-enc", "special-iv")
			g.Emit(fmt.Sprintf("c05.dec %s %s %s", c05Tok(kv[0]), c05Tok(kv[1]), c05Tok(data)), "ige-dec", "special-iv")
		}
	}
	// refused lengths
	for _, l := range []int{0, 1, 8, 15, 17, 24, 31, 33, 40, 47, 63, 65, 72, 255, 257, 1023, 1025, 1032} {
		key, iv := r.Bytes(32), r.Bytes(32)
		g.Emit(fmt.Sprintf("c05.enc %s %s %s", c05Tok(key), c05Tok(iv), c05Tok(r.Bytes(l))), "refused")
		g.Emit(fmt.Sprintf("c05.dec %s %s %s", c05Tok(key), c05Tok(iv), c05Tok(r.Bytes(l))), "refused")
	}
	// (b) Encrypt / Decrypt: every residue of len mod 16 at several magnitudes
	var lens []int
	for _, base := range []int{0, 240, 1008, 4080} {
		for d := 0; d <= 33; d++ {
			lens = append(lens, base+d)
		}
	}
	if g.Thorough() {
		for _, base := range []int{16368, 65520} {
			for d := 0; d <= 17; d++ {
				lens = append(lens, base+d)
			}
		}
	}
	for _, l := range lens {
		ak := r.Bytes(256)
		msg := r.Bytes(l)
		g.Emit(fmt.Sprintf("c05.msgenc %s %s", c05Tok(ak), c05Tok(msg)), "msg-encrypt", fmt.Sprintf("len%%16=%d", l%16))
		// a server→client message of this (padded) size, built by the reference implementation
		padded := append(append([]byte{}, msg...), r.Bytes((16-l%16)%16)...)
		mk := sha1of(msg)[4:20]
		if len(padded) > 0 {
			key, iv := refKDF(mk, ak, 8)
			g.Emit(fmt.Sprintf("c05.msgdec %s %s %s", c05Tok(ak), c05Tok(mk), c05Tok(refIGE(key, iv, padded, false))), "msg-decrypt")
		}
		if l%16 != 0 || l == 0 {
			g.Emit(fmt.Sprintf("c05.msgdec %s %s %s", c05Tok(ak), c05Tok(mk), c05Tok(msg)), "msg-decrypt-refused")
		}
	}
	// long messages: lengths around the multiples of 4096 (and a few random ones); a server→client message is
	// any block-aligned ciphertext, the pattern token serves as one
	longLens := []int{2047, 2048, 2049, 8191, 8192, 8193, 12288, 16383, 16384, 16385, 20000, 32767, 32768, 32769}
	for i := 0; i < g.N(3, 16); i++ {
		longLens = append(longLens, 4097+r.Intn(61440))
	}
	for _, l := range longLens {
		ak := r.Bytes(256)
		g.Emit(fmt.Sprintf("c05.msgenc %s r%d:%d", c05Tok(ak), l, r.U64()), "msg-encrypt", "long-input", fmt.Sprintf("len%%16=%d", l%16))
		g.Emit(fmt.Sprintf("c05.msgdec %s %s r%d:%d", c05Tok(ak), c05Tok(r.Bytes(16)), (l+15)/16*16, r.U64()), "msg-decrypt", "long-input")
	}
	for _, kl := range []int{0, 127, 128, 135, 136} { // generateAESIGE's auth-key length guard
		g.Emit(fmt.Sprintf("c05.msgenc %s %s", c05Tok(r.Bytes(kl)), c05Tok(r.Bytes(20))), "short-authkey")
		g.Emit(fmt.Sprintf("c05.msgdec %s %s %s", c05Tok(r.Bytes(kl)), c05Tok(r.Bytes(16)), c05Tok(r.Bytes(32))), "short-authkey")
	}
	// (c) temp keys: nonces with 0, 1, 2 leading zero bytes (both), tiny and oversized values
	for rep := 0; rep < g.N(4, 40); rep++ {
		for zn := 0; zn <= 2; zn++ {
			for zs := 0; zs <= 2; zs++ {
				g.Emit(fmt.Sprintf("c05.tkeys %s %s", c05Tok(c05Nonce(r, 32, zn)), c05Tok(c05Nonce(r, 16, zs))),
					"tempkeys", fmt.Sprintf("zeros=%d/%d", zn, zs))
			}
		}
	}
	for _, z := range []int{3, 4, 8, 16, 28, 29, 30, 31, 32} {
		g.Emit(fmt.Sprintf("c05.tkeys %s %s", c05Tok(c05Nonce(r, 32, z)), c05Tok(c05Nonce(r, 16, 0))), "tempkeys-tiny")
	}
	for _, z := range []int{3, 8, 15, 16} {
		g.Emit(fmt.Sprintf("c05.tkeys %s %s", c05Tok(c05Nonce(r, 32, 0)), c05Tok(c05Nonce(r, 16, z))), "tempkeys-tiny")
	}
	g.Emit("c05.tkeys 311c85db234aa2640afc4a76a735cf5b1f0fd68bd17fa181e1229ad867cc024d a5cf4d33f4a11ea877ba4aa573907330", "tempkeys-fixture")
	g.Emit(fmt.Sprintf("c05.tkeys %s %s", c05Tok(r.Bytes(32)), c05Tok(c05Nonce(r, 32, 0))), "tempkeys-oversized") // as aes_test.go does
	g.Emit(fmt.Sprintf("c05.tkeys %s %s", c05Tok(c05Nonce(r, 33, 0)), c05Tok(r.Bytes(16))), "tempkeys-oversized")
	// (d) the client's own wrapper: every payload length (hence every residue of (20+len) mod 16)
	maxLen := 512
	nonce := func(i int) ([]byte, []byte) {
		zn, zs := 0, 0
		switch i % 7 {
		case 1:
			zn = 1
		case 2:
			zs = 1
		case 3:
			zn, zs = 2, 2
		case 4:
			zn, zs = 1, 2
		}
		return c05Nonce(r, 32, zn), c05Nonce(r, 16, zs)
	}
	reps := g.N(1, 6)
	for rep := 0; rep < reps; rep++ {
		for l := 0; l <= maxLen; l++ {
			nb, sb := nonce(l + rep)
			seed := int64(r.U64() >> 1)
			g.Emit(fmt.Sprintf("c05.tenc %s %s %d %s %s", c05Tok(nb), c05Tok(sb), seed, c05Tok(c05Pad16(seed)), c05Tok(r.Bytes(l))),
				"temp-wrap-own", fmt.Sprintf("(20+len)%%16=%d", (20+l)%16))
		}
	}
	for _, l := range []int{1000, 1020, 2028, 4096} {
		nb, sb := nonce(l)
		seed := int64(r.U64() >> 1)
		g.Emit(fmt.Sprintf("c05.tenc %s %s %d %s %s", c05Tok(nb), c05Tok(sb), seed, c05Tok(c05Pad16(seed)), c05Tok(r.Bytes(l))), "temp-wrap-own")
	}
	// long payloads for the key-exchange wrapper, both directions (20+len at and around multiples of 4096)
	for _, l := range []int{4076, 8171, 8172, 8173, 16364, 20000, 32748, 4097 + r.Intn(30000)} {
		nb, sb := nonce(l)
		seed := int64(r.U64() >> 1)
		g.Emit(fmt.Sprintf("c05.tenc %s %s %d %s r%d:%d", c05Tok(nb), c05Tok(sb), seed, c05Tok(c05Pad16(seed)), l, r.U64()), "temp-wrap-own", "long-input")
		nb, sb = nonce(l + 1)
		p := (16 - (20+l)%16) % 16
		g.Emit(fmt.Sprintf("c05.tdec %s %s %s r%d:%d", c05Tok(nb), c05Tok(sb), c05Tok(r.Bytes(p)), l, r.U64()), "temp-wrap-peer", "long-input", fmt.Sprintf("padding=%d", p))
	}
	// (e) a conformant peer's messages: every answer length, the one padding amount 0..15 that aligns it
	for rep := 0; rep < reps; rep++ {
		for l := 0; l <= maxLen; l++ {
			nb, sb := nonce(l + 3*rep)
			p := (16 - (20+l)%16) % 16
			g.Emit(fmt.Sprintf("c05.tdec %s %s %s %s", c05Tok(nb), c05Tok(sb), c05Tok(r.Bytes(p)), c05Tok(r.Bytes(l))),
				"temp-wrap-peer", fmt.Sprintf("padding=%d", p))
		}
	}
	for zn := 0; zn <= 2; zn++ { // every padding amount under every leading-zero combination
		for zs := 0; zs <= 2; zs++ {
			for p := 0; p <= 15; p++ {
				l := 12 + 16*r.Intn(30) + (16-p)%16
				g.Emit(fmt.Sprintf("c05.tdec %s %s %s %s", c05Tok(c05Nonce(r, 32, zn)), c05Tok(c05Nonce(r, 16, zs)), c05Tok(r.Bytes(p)), c05Tok(r.Bytes(l))),
					"temp-wrap-peer", fmt.Sprintf("padding=%d", p), fmt.Sprintf("zeros=%d/%d", zn, zs))
			}
		}
	}
	// the unpadded encryption hook and garbage for the decrypting side (model correspondence; the
	// panics on garbage belong to C07)
	for _, nblk := range []int{256, 511, 512, 513, 1024, 2048, 600 + r.Intn(3000)} {
		nb, sb := nonce(nblk)
		g.Emit(fmt.Sprintf("c05.tnopad %s %s r%d:%d", c05Tok(nb), c05Tok(sb), 16*nblk, r.U64()), "temp-nopad", "long-input")
	}
	for _, l := range []int{0, 8, 16, 32, 48, 50, 64, 320} {
		nb, sb := nonce(l)
		g.Emit(fmt.Sprintf("c05.tnopad %s %s %s", c05Tok(nb), c05Tok(sb), c05Tok(r.Bytes(l))), "temp-nopad")
		g.Emit(fmt.Sprintf("c05.tdecraw %s %s %s", c05Tok(nb), c05Tok(sb), c05Tok(r.Bytes(l))), "temp-garbage")
	}
	g.Emit("c05.tnopad f011280887c7bb01df0fc4e17830e0b91fbb8be4b2267cb985ae25f33b527253 f011280887c7bb01df0fc4e17830e0b91fbb8be4b2267cb985ae25f33b527253 "+
		"f78af98ef9d401e298f3eeec1c927312aeb6b4125103bc5cc44bcdf0a15e160d445066ff000000000000000000000000", "temp-nopad-fixture")
	c05GenBatches(g) // c05par.go: refused inputs of valid length, sequences without a collection, concurrent batches
	c05GenOneArg(g)  // c05one.go: sequences in which exactly one argument changes from call to call
}

func init() {
	register(&Prop{Name: "c05", Stateless: true, Gen: c05Gen, Exec: c05Exec, Judge: c05Judge})
}
