package main

// C08 — transport framing. Real code exercised: internal/mode (New, Detect, WriteMsg, ReadMsg),
// internal/transport (NewTransport over a real loopback TCP connection, ReadMsg), and the
// exact-count reader the TCP connection is built on (go-dry CancelableReader). c08.seq: operations of one
// process one after another (foreign streams detected, then NEW connections of each mode announce and write):
// what one connection received must not reach another.

import (
	"bytes"
	"context"
	"encoding/binary"
	"fmt"
	"io"
	"net"
	"strings"
	"sync"
	"time"

	dryio "github.com/xelaj/go-dry/ioutil"

	"github.com/xelaj/mtproto/internal/mode"
	"github.com/xelaj/mtproto/internal/mtproto/messages"
	"github.com/xelaj/mtproto/internal/transport"
)

// ---- connections -------------------------------------------------------------------------------

// recConn records what is written.
type recConn struct{ w []byte }

func (c *recConn) Write(b []byte) (int, error) { c.w = append(c.w, b...); return len(b), nil }
func (c *recConn) Read(b []byte) (int, error)  { return 0, io.EOF }

// segReader hands out at most one segment per Read, like a TCP socket delivering packets.
type segReader struct{ segs [][]byte }

func (s *segReader) Read(p []byte) (int, error) {
	for len(s.segs) > 0 && len(s.segs[0]) == 0 {
		s.segs = s.segs[1:]
	}
	if len(s.segs) == 0 {
		return 0, io.EOF
	}
	n := copy(p, s.segs[0])
	s.segs[0] = s.segs[0][n:]
	return n, nil
}

// exactConn is what transport's tcpConn is: the go-dry CancelableReader (io.ReadFull per request)
// on top of a stream that arrives in segments.
type exactConn struct {
	cr     *dryio.CancelableReader
	cancel context.CancelFunc
}

func newExactConn(segs [][]byte) *exactConn {
	ctx, cancel := context.WithCancel(context.Background())
	cp := make([][]byte, len(segs))
	for i := range segs {
		cp[i] = append([]byte{}, segs[i]...)
	}
	return &exactConn{cr: dryio.NewCancelableReader(ctx, &segReader{segs: cp}), cancel: cancel}
}
func (c *exactConn) Read(p []byte) (int, error)  { return c.cr.Read(p) }
func (c *exactConn) Write(p []byte) (int, error) { return len(p), nil }
func (c *exactConn) Close()                      { c.cancel() }

func classifyStreamErr(err error) string {
	if err == io.EOF {
		return "eof"
	}
	s := err.Error()
	switch {
	case strings.Contains(s, "unexpected EOF"):
		return "uerr"
	case err == mode.ErrModeNotSupported || strings.Contains(s, mode.ErrModeNotSupported.Error()):
		return "notsupported"
	case err == mode.ErrAmbiguousModeAnnounce || strings.Contains(s, mode.ErrAmbiguousModeAnnounce.Error()):
		return "ambiguous"
	case strings.HasSuffix(s, "EOF"):
		return "eof"
	}
	return "other(" + strings.ReplaceAll(s, " ", "_") + ")"
}

// ---- independent spec framer used by the oracle and to build TCP streams -------------------------

func specAnnounce(md string) []byte {
	if md == "a" {
		return []byte{0xef}
	}
	return []byte{0xee, 0xee, 0xee, 0xee}
}

func specFrame(md string, m []byte) []byte {
	if md == "a" {
		w := len(m) / 4
		if w < 127 {
			return append([]byte{byte(w)}, m...)
		}
		return append([]byte{0x7f, byte(w), byte(w >> 8), byte(w >> 16)}, m...)
	}
	h := make([]byte, 4)
	binary.LittleEndian.PutUint32(h, uint32(len(m)))
	return append(h, m...)
}

func specFits(md string, m []byte) bool {
	if md == "a" {
		return len(m)%4 == 0 && len(m)/4 < 1<<24
	}
	return uint64(len(m)) < 1<<32
}

func specUnenc(msgID uint64, body []byte) []byte {
	b := make([]byte, 20, 20+len(body))
	binary.LittleEndian.PutUint64(b[8:], msgID)
	binary.LittleEndian.PutUint32(b[16:], uint32(len(body)))
	return append(b, body...)
}

func variantOf(md string) mode.Variant {
	if md == "a" {
		return mode.Abridged
	}
	return mode.Intermediate
}

func modeName(m mode.Mode) string {
	v, err := mode.GetVariant(m)
	if err != nil {
		return "?"
	}
	if v == mode.Abridged {
		return "a"
	}
	return "i"
}

// ---- operations ---------------------------------------------------------------------------------

func c08Write(md string, msgs [][]byte) ([]byte, string) {
	rc := &recConn{}
	m, err := mode.New(variantOf(md), rc)
	if err != nil {
		return rc.w, "new:" + err.Error()
	}
	for _, msg := range msgs {
		if err := m.WriteMsg(msg); err != nil {
			if _, ok := err.(mode.ErrNotMultiple); ok {
				return rc.w, "notmultiple"
			}
			return rc.w, "other"
		}
	}
	return rc.w, "-"
}

func c08ReadSegs(segs [][]byte) string {
	c := newExactConn(segs)
	defer c.Close()
	m, err := mode.Detect(c)
	if err != nil {
		return "mode=err:" + classifyStreamErr(err)
	}
	// the receiver keeps every message exactly as ReadMsg returned it (no copy, no rendering) until the
	// stream has ended: a message that was delivered must still be that message when the next ones have
	// been read
	var held [][]byte
	for {
		msg, err := m.ReadMsg()
		if err != nil {
			return fmt.Sprintf("mode=%s msgs=%s end=%s", modeName(m), showHeld(held), classifyStreamErr(err))
		}
		held = append(held, msg)
	}
}

// showHeld renders messages that were held untouched until the end of their stream.
func showHeld(held [][]byte) string {
	out := make([]string, len(held))
	for i, m := range held {
		out[i] = showBytes(m)
	}
	return showList(out)
}

// c08DetectTCP: the peer's side of the property on the repository's own connection type: the stream
// (announcement + frames, as the real writer produced it) arrives over loopback TCP in the given
// segments; transport.NewTCP + mode.Detect + ReadMsg must deliver it whatever the segmentation.
func c08DetectTCP(segs [][]byte) string {
	ctx, cancel := context.WithCancel(context.Background())
	defer cancel()
	return c08DetectTCPWith(ctx, 10*time.Second, segs)
}

// c08DetectTCPWith: the same with the connection configured as the caller says (c08.cfg, c08cfg.go)
func c08DetectTCPWith(ctx context.Context, timeout time.Duration, segs [][]byte) string {
	done := make(chan struct{})
	go func() {
		defer close(done)
		conn, err := c08Listener.Accept()
		if err != nil {
			return
		}
		tc := conn.(*net.TCPConn)
		_ = tc.SetNoDelay(true)
		for i, s := range segs {
			if len(s) > 0 {
				_, _ = tc.Write(s)
			}
			if i+1 < len(segs) && len(segs) <= 64 {
				time.Sleep(300 * time.Microsecond)
			}
		}
		_ = tc.Close()
	}()
	conn, err := transport.NewTCP(transport.TCPConnConfig{Ctx: ctx, Host: c08Listener.Addr().String(), Timeout: timeout})
	if err != nil {
		return "dial-error:" + err.Error()
	}
	defer conn.Close()
	res := ""
	m, err := mode.Detect(conn)
	if err != nil {
		res = "mode=err:" + classifyStreamErr(err)
	} else {
		var held [][]byte // kept as returned until the stream has ended, see c08ReadSegs
		for res == "" {
			msg, err := m.ReadMsg()
			if err != nil {
				res = fmt.Sprintf("mode=%s msgs=%s end=%s", modeName(m), showHeld(held), classifyStreamErr(err))
			} else {
				held = append(held, msg)
			}
		}
	}
	<-done
	return res
}

type stubInformator struct{}

func (stubInformator) GetSessionID() int64  { return 1 }
func (stubInformator) GetSeqNo() int32      { return 0 }
func (stubInformator) GetServerSalt() int64 { return 0 }
func (stubInformator) GetAuthKey() []byte   { return make([]byte, 256) }

var c08Listener net.Listener

func c08Tcp(md string, splits string, items []string) string {
	stream := []byte{}
	for _, it := range items {
		parts := strings.SplitN(it, ":", 3)
		switch parts[0] {
		case "m":
			var mid uint64
			fmt.Sscan(parts[1], &mid)
			stream = append(stream, specFrame(md, specUnenc(mid, parseBytes(parts[2])))...)
		case "c":
			code := int32(atoi(parts[1]))
			b := make([]byte, 4)
			binary.LittleEndian.PutUint32(b, uint32(code))
			stream = append(stream, specFrame(md, b)...)
		case "r":
			stream = append(stream, parseBytes(parts[1])...)
		default:
			panic("bad item " + it)
		}
	}
	segs := splitAt(stream, parseSplits(splits, len(stream)))

	wrongAnn := "" // set by the peer before done is closed
	done := make(chan struct{})
	go func() {
		defer close(done)
		conn, err := c08Listener.Accept()
		if err != nil {
			return
		}
		tc := conn.(*net.TCPConn)
		_ = tc.SetNoDelay(true)
		// the client's announcement: what a new connection of this mode writes first
		ann := make([]byte, len(specAnnounce(md)))
		_, _ = io.ReadFull(tc, ann)
		if !bytes.Equal(ann, specAnnounce(md)) {
			wrongAnn = "announce=" + hexD(ann) + " "
		}
		for i, s := range segs {
			if len(s) > 0 {
				_, _ = tc.Write(s)
			}
			if i+1 < len(segs) && len(segs) <= 64 {
				time.Sleep(150 * time.Microsecond)
			}
		}
		_ = tc.Close()
	}()

	ctx, cancel := context.WithCancel(context.Background())
	defer cancel()
	t, err := transport.NewTransport(stubInformator{}, transport.TCPConnConfig{
		Ctx: ctx, Host: c08Listener.Addr().String(), Timeout: 10 * time.Second,
	}, variantOf(md))
	if err != nil {
		return "dial-error:" + err.Error()
	}
	defer t.Close()
	// what ReadMsg delivered is kept as delivered (the message objects themselves) and rendered only when the
	// stream has ended; out[i] == "" marks the place of heldMsgs' next entry
	var out []string
	var heldMsgs []messages.Common
	end := ""
	for end == "" {
		msg, err := t.ReadMsg()
		switch {
		case err == nil:
			out = append(out, "")
			heldMsgs = append(heldMsgs, msg)
		case err == io.EOF:
			end = "eof"
		default:
			if code, ok := err.(transport.ErrCode); ok {
				out = append(out, fmt.Sprintf("code:%d", int(code)))
				break
			}
			s := err.Error()
			switch {
			case strings.HasPrefix(s, "parsing message"):
				if strings.Contains(s, "Wrong bits") || strings.Contains(s, "wrong bits") {
					out = append(out, "bad:parity")
				} else if strings.Contains(s, "not equal defined size") {
					out = append(out, "bad:length")
				} else {
					out = append(out, "bad:other("+strings.ReplaceAll(s, " ", "_")+")")
				}
			default:
				end = classifyStreamErr(err)
			}
		}
	}
	<-done
	for i := range out {
		if out[i] == "" {
			msg := heldMsgs[0]
			heldMsgs = heldMsgs[1:]
			out[i] = fmt.Sprintf("msg:%d:%s", uint64(int64(msg.GetMsgID())), showBytes(msg.GetMsg()))
		}
	}
	// wrongAnn is empty when the connection announced its mode as the format says (the line is then the one
	// the model gives); otherwise it shows the bytes the peer received instead
	return fmt.Sprintf("%sitems=%s end=%s", wrongAnn, showList(out), end)
}

// ---- deadlines: one direction's timing must not reach the other direction ---------------------------
//
// c08.dl <md> <variant> <timeout_ms> <idle_ms> <down> <up>: the repository's own connection type
// (transport.NewTCP with a SHORT Timeout) under mode.New(md). The peer (this harness, other end of the
// loopback connection) sends the messages `down` framed by the spec framer; the client writes the messages
// `up` through mode.WriteMsg; what differs between the variants is WHEN:
//
//	widle  client reads `down` to end of stream, stays idle for idle_ms (> timeout), then writes `up`
//	wpend  client reads `down`, leaves one more ReadMsg pending in another goroutine (it runs into the read
//	       timeout: nothing arrives), stays idle, then writes `up`
//	wslow  as wpend, but `up` is written at once and is more than the socket buffers take while the peer does
//	       not drain for idle_ms: the writes are still blocked when the pending read's time is up
//	ridle  client writes `up` (peer drains), stays idle, then reads `down` to end of stream
//	rslow  client writes `up` in another goroutine, blocked as in wslow, and reads `down` after idle_ms,
//	       while that write is still blocked
//
// Result: "rx: <what the client read> | tx: <what the peer received>", both in the form of c08.rt, the
// messages held as delivered until both streams have ended; plus " fault=…" when a WriteMsg returned an error.
// Whatever the timing, the peer must receive exactly the frames written and the client exactly the frames sent.
func c08Deadline(md, variant string, timeoutMs, idleMs int, down, up [][]byte) string {
	timeout := time.Duration(timeoutMs) * time.Millisecond
	idle := time.Duration(idleMs) * time.Millisecond
	switch variant {
	case "widle", "wpend", "wslow", "ridle", "rslow":
	default:
		return "bad-op"
	}
	halfClose := variant == "widle" || variant == "ridle" || variant == "rslow" // the client reads `down` to end of stream
	slow := variant == "wslow" || variant == "rslow"

	var downStream []byte
	for _, m := range down {
		downStream = append(downStream, specFrame(md, m)...)
	}
	sent := make(chan struct{})     // the peer has handed `down` to the kernel
	writing := make(chan time.Time, 1) // the client is about to start its (slow) writes
	type peerRes struct {
		raw []byte
		err string
	}
	peerDone := make(chan peerRes, 1)
	go func() {
		var res peerRes
		defer func() { peerDone <- res }()
		conn, err := c08Listener.Accept()
		if err != nil {
			close(sent)
			res.err = "accept"
			return
		}
		tc := conn.(*net.TCPConn)
		defer tc.Close()
		_ = tc.SetNoDelay(true)
		_ = tc.SetDeadline(time.Now().Add(60 * time.Second)) // the harness's own end never waits for ever
		sendDown := func() {
			if len(downStream) > 0 {
				_, _ = tc.Write(downStream)
			}
			if halfClose {
				_ = tc.CloseWrite()
			}
		}
		if len(downStream) <= 32<<10 { // fits the socket buffers: in the kernel before the client's first Read
			sendDown()
			close(sent)
		} else {
			close(sent)
			sendDown()
		}
		if slow {
			if t0, ok := <-writing; ok {
				time.Sleep(time.Until(t0.Add(idle + idle/3)))
			}
		}
		res.raw, _ = io.ReadAll(tc)
	}()

	ctx, cancel := context.WithCancel(context.Background())
	defer cancel()
	conn, err := transport.NewTCP(transport.TCPConnConfig{Ctx: ctx, Host: c08Listener.Addr().String(), Timeout: timeout})
	if err != nil {
		close(writing)
		return "dial-error:" + err.Error()
	}
	m, err := mode.New(variantOf(md), conn)
	if err != nil {
		close(writing)
		conn.Close()
		return "new:" + err.Error()
	}
	<-sent

	endOf := func(err error) string {
		if err != io.EOF && strings.Contains(err.Error(), "i/o timeout") {
			return "timeout"
		}
		return classifyStreamErr(err)
	}
	var held [][]byte // as delivered, rendered when everything is over
	rxEnd := ""
	readDown := func() {
		if halfClose {
			for {
				msg, err := m.ReadMsg()
				if err != nil {
					rxEnd = endOf(err)
					return
				}
				held = append(held, msg)
			}
		}
		for range down {
			msg, err := m.ReadMsg()
			if err != nil {
				rxEnd = endOf(err)
				return
			}
			held = append(held, msg)
		}
	}
	fault := ""
	writeUp := func() {
		for i, msg := range up {
			if err := m.WriteMsg(msg); err != nil {
				fault = fmt.Sprintf("write#%d:%s", i, endOf(err))
				return
			}
		}
	}
	// one more ReadMsg with nothing to arrive: it ends with the read timeout (and must end nothing else)
	pendingRead := func() chan string {
		ch := make(chan string, 1)
		go func() {
			msg, err := m.ReadMsg()
			if err != nil {
				ch <- endOf(err)
			} else {
				ch <- "unexpected-message:" + showBytes(msg)
			}
		}()
		return ch
	}
	waitPending := func(ch chan string) {
		select {
		case rxEnd = <-ch:
		case <-time.After(timeout + 10*time.Second):
			rxEnd = "pending-read-did-not-end"
		}
	}

	switch variant {
	case "widle":
		close(writing)
		readDown()
		time.Sleep(idle)
		writeUp()
	case "wpend":
		close(writing)
		readDown()
		if rxEnd == "" {
			ch := pendingRead()
			time.Sleep(idle)
			writeUp()
			waitPending(ch)
		}
	case "wslow":
		readDown()
		if rxEnd == "" {
			ch := pendingRead()
			t0 := time.Now()
			writing <- t0
			writeUp()
			c08NoteBlocked(variant, time.Since(t0) >= idle)
			waitPending(ch)
		} else {
			close(writing)
		}
	case "ridle":
		close(writing)
		writeUp()
		time.Sleep(idle)
		readDown()
	case "rslow":
		wdone := make(chan struct{})
		t0 := time.Now()
		writing <- t0
		go func() {
			defer close(wdone)
			writeUp()
			c08NoteBlocked(variant, time.Since(t0) >= idle)
		}()
		time.Sleep(idle)
		readDown()
		<-wdone
	}
	conn.Close()
	pr := <-peerDone

	tx := "peer:" + pr.err
	if pr.err == "" {
		tx = c08ReadSegs([][]byte{pr.raw})
	}
	res := fmt.Sprintf("rx: mode=%s msgs=%s end=%s | tx: %s", md, showHeld(held), rxEnd, tx)
	if fault != "" {
		res += " fault=" + fault
	}
	return res
}

// c08NoteBlocked counts, for the evidence file, in how many slow-writer operations the writes really were
// still in progress when the idle time was over (it depends on the machine's socket buffer limits).
func c08NoteBlocked(variant string, blocked bool) {
	c08BlockedMu.Lock()
	defer c08BlockedMu.Unlock()
	k := "c08_" + variant + "_writes_blocked_past_idle"
	if !blocked {
		k = "c08_" + variant + "_writes_not_blocked"
	}
	n, _ := theG.Extra[k].(int)
	theG.Extra[k] = n + 1
}

var c08BlockedMu sync.Mutex

// c08WriteTCP: what c08Write does, over the repository's own TCP connection: mode.New on transport.NewTCP
// announces the mode and writes the messages; the result is the raw stream the peer received.
func c08WriteTCP(md string, msgs [][]byte) ([]byte, string) {
	type peerRes struct{ raw []byte }
	peerDone := make(chan peerRes, 1)
	go func() {
		var res peerRes
		defer func() { peerDone <- res }()
		conn, err := c08Listener.Accept()
		if err != nil {
			return
		}
		defer conn.Close()
		_ = conn.SetDeadline(time.Now().Add(60 * time.Second))
		res.raw, _ = io.ReadAll(conn)
	}()
	ctx, cancel := context.WithCancel(context.Background())
	defer cancel()
	conn, err := transport.NewTCP(transport.TCPConnConfig{Ctx: ctx, Host: c08Listener.Addr().String(), Timeout: 10 * time.Second})
	if err != nil {
		return nil, "dial-error"
	}
	e := "-"
	m, err := mode.New(variantOf(md), conn)
	if err != nil {
		e = "new:" + err.Error()
	} else {
		for _, msg := range msgs {
			if err := m.WriteMsg(msg); err != nil {
				if _, ok := err.(mode.ErrNotMultiple); ok {
					e = "notmultiple"
				} else {
					e = "other"
				}
				break
			}
		}
	}
	conn.Close()
	return (<-peerDone).raw, e
}

// c08.seq <step> <step> …: operations of ONE process one after another; what a connection does must not
// depend on what other connections of the process did or received before it. Steps:
//
//	d:<segments>     a stream (comma-separated segments, as c08.read) through mode.Detect + ReadMsg
//	w:<md>:<msgs>    a NEW connection of the mode (mode.New) writes the messages (as c08.write)
//	t:<md>:<msgs>    the same over the repository's TCP connection type; the bytes the loopback peer received
//
// The results are joined with " ; "; each step is judged as the single operation it is.
func c08SeqStep(t string) (op []string, ok bool) {
	p := strings.Split(t, ":")
	switch {
	case len(p) == 2 && p[0] == "d":
		return []string{"c08.read", p[1]}, c08TokListOK(p[1])
	case len(p) == 3 && (p[0] == "w" || p[0] == "t") && (p[1] == "a" || p[1] == "i"):
		return []string{"c08.write", p[1], p[2]}, c08TokListOK(p[2])
	}
	return nil, false
}

// c08TokListOK: a comma-separated list of byte-string tokens (hex, "-", z<n>, p<n>) as the line protocol defines.
func c08TokListOK(s string) bool {
	if s == "-" {
		return true
	}
	for _, t := range strings.Split(s, ",") {
		switch {
		case t == "-":
		case len(t) > 1 && (t[0] == 'z' || t[0] == 'p'):
			for _, c := range t[1:] {
				if c < '0' || c > '9' {
					return false
				}
			}
		default:
			if len(t) == 0 || len(t)%2 != 0 {
				return false
			}
			for _, c := range t {
				if !(c >= '0' && c <= '9' || c >= 'a' && c <= 'f' || c >= 'A' && c <= 'F') {
					return false
				}
			}
		}
	}
	return true
}

func c08Seq(steps []string) string {
	var ops [][]string
	for _, t := range steps {
		op, ok := c08SeqStep(t)
		if !ok {
			return "bad-op"
		}
		ops = append(ops, op)
	}
	var outs []string
	for i, op := range ops {
		var res string
		func() {
			defer func() {
				if r := recover(); r != nil {
					res = "panic:" + panicSite()
				}
			}()
			if steps[i][0] == 't' {
				b, e := c08WriteTCP(op[1], parseBytesList(op[2]))
				res = fmt.Sprintf("bytes=%s err=%s", showBytes(b), e)
			} else {
				res = c08Exec(op)
			}
		}()
		outs = append(outs, res)
	}
	return strings.Join(outs, " ; ")
}

func c08Exec(op []string) string {
	switch op[0] {
	case "c08.seq":
		if len(op) < 2 {
			return "bad-op"
		}
		return c08Seq(op[1:])
	case "c08.write":
		b, e := c08Write(op[1], parseBytesList(op[2]))
		return fmt.Sprintf("bytes=%s err=%s", showBytes(b), e)
	case "c08.rt":
		b, e := c08Write(op[1], parseBytesList(op[3]))
		if e != "-" {
			return "werr=" + e
		}
		return c08ReadSegs(splitAt(b, parseSplits(op[2], len(b))))
	case "c08.read":
		return c08ReadSegs(parseBytesList(op[1]))
	case "c08.det":
		b, e := c08Write(op[1], parseBytesList(op[3]))
		if e != "-" {
			return "werr=" + e
		}
		return c08DetectTCP(splitAt(b, parseSplits(op[2], len(b))))
	case "c08.cfg":
		return c08CfgExec(op)
	case "c08.tcp":
		return c08Tcp(op[1], op[2], op[3:])
	case "c08.dl":
		if len(op) != 7 {
			return "bad-op"
		}
		return c08Deadline(op[1], op[2], atoi(op[3]), atoi(op[4]), parseBytesList(op[5]), parseBytesList(op[6]))
	}
	return "bad-op"
}

// c08Judge: the property itself, stated on the real code's observable result.
func c08Judge(op []string, out string) string {
	if strings.HasPrefix(out, "panic:") {
		return "panic in framing code: " + out
	}
	switch op[0] {
	case "c08.write":
		md, msgs := op[1], parseBytesList(op[2])
		want := specAnnounce(md)
		werr := "-"
		for _, m := range msgs {
			if md == "a" && len(m)%4 != 0 {
				werr = "notmultiple"
				break
			}
			if !specFits(md, m) {
				return "" // outside what the format can carry
			}
			want = append(want, specFrame(md, m)...)
		}
		exp := fmt.Sprintf("bytes=%s err=%s", showBytes(want), werr)
		if out != exp {
			return "written bytes differ from the format: want " + clip(exp)
		}
	case "c08.read":
		return c08JudgeRead(bytes.Join(parseBytesList(op[1]), nil), out)
	case "c08.seq":
		outs := strings.Split(out, " ; ")
		if out == "bad-op" || len(outs) != len(op)-1 {
			return ""
		}
		var whys []string
		for i, t := range op[1:] {
			sop, ok := c08SeqStep(t)
			if !ok {
				return ""
			}
			if why := c08Judge(sop, outs[i]); why != "" && len(whys) < 3 {
				before := "the first step of the sequence"
				if i > 0 {
					before = "after " + clip(strings.Join(op[1:i+1], " ")) + " in the same process"
				}
				whys = append(whys, fmt.Sprintf("step %d of %d, %s (%s): %s; got %s", i+1, len(outs), t, before, why, clip(outs[i])))
			}
		}
		return strings.Join(whys, " || ")
	case "c08.cfg":
		return c08CfgJudge(op, out)
	case "c08.rt", "c08.det":
		md, msgs := op[1], parseBytesList(op[3])
		var shown []string
		for _, m := range msgs {
			if !specFits(md, m) {
				return ""
			}
			shown = append(shown, showBytes(m))
		}
		exp := fmt.Sprintf("mode=%s msgs=%s end=eof", md, showList(shown))
		if out != exp {
			return "messages read back differ from the messages written: want " + clip(exp)
		}
	case "c08.dl":
		if len(op) != 7 {
			return ""
		}
		md, variant := op[1], op[2]
		show := func(tok string) (string, bool) {
			var shown []string
			for _, m := range parseBytesList(tok) {
				if !specFits(md, m) || (md == "a" && len(m)%4 != 0) {
					return "", false
				}
				shown = append(shown, showBytes(m))
			}
			return showList(shown), true
		}
		down, ok1 := show(op[5])
		up, ok2 := show(op[6])
		if !ok1 || !ok2 {
			return ""
		}
		rxEnd := "eof"
		if variant == "wpend" || variant == "wslow" {
			rxEnd = "timeout" // the extra read with nothing to arrive ends with the read timeout, and only it
		}
		exp := fmt.Sprintf("rx: mode=%s msgs=%s end=%s | tx: mode=%s msgs=%s end=eof", md, down, rxEnd, md, up)
		if out != exp {
			return "over the repository's TCP connection (read timeout " + op[3] + " ms, idle " + op[4] + " ms) the frames received differ from the frames written — the timing of one direction reached the other: want " + clip(exp)
		}
	case "c08.tcp":
		var shown []string
		for _, it := range op[3:] {
			parts := strings.SplitN(it, ":", 3)
			switch parts[0] {
			case "m":
				var mid uint64
				fmt.Sscan(parts[1], &mid)
				if mid%4 != 1 && mid%4 != 3 {
					return ""
				}
				shown = append(shown, fmt.Sprintf("msg:%d:%s", mid, showBytes(parseBytes(parts[2]))))
			case "c":
				shown = append(shown, "code:"+parts[1])
			default:
				return "" // raw (malformed) stream: only the no-panic clause applies
			}
		}
		exp := fmt.Sprintf("items=%s end=eof", showList(shown))
		if out != exp {
			return "items delivered over TCP differ from the items sent: want " + clip(exp)
		}
	}
	return ""
}

// c08JudgeRead: a received stream by the format's own rules. The mode is recognised from the announcement —
// 0xef: Abridged, 0xee 0xee 0xee 0xee: Intermediate, anything else (a prefix of those, other bytes after a
// first 0xee, another first byte) is not an announcement of these modes; then every complete frame is
// delivered as the message it carries, in order, and the end of the stream is an end, not a message.
func c08JudgeRead(s []byte, out string) string {
	md, rest := "", []byte(nil)
	switch {
	case len(s) >= 1 && s[0] == 0xef:
		md, rest = "a", s[1:]
	case len(s) >= 4 && bytes.Equal(s[:4], []byte{0xee, 0xee, 0xee, 0xee}):
		md, rest = "i", s[4:]
	}
	if md == "" {
		if !strings.HasPrefix(out, "mode=err:") {
			head := s
			if len(head) > 4 {
				head = head[:4]
			}
			return "a stream that does not begin with a mode's announcement (it begins " + hexD(head) + ") was recognised as a mode"
		}
		return ""
	}
	// complete frames of the stream
	var shown []string
	state := "boundary"
	for len(rest) > 0 {
		var n, h int
		if md == "a" {
			switch b := rest[0]; {
			case b < 0x7f:
				n, h = 4*int(b), 1
			case b == 0x7f:
				if len(rest) < 4 {
					state = "truncated"
				} else {
					n, h = 4*(int(rest[1])|int(rest[2])<<8|int(rest[3])<<16), 4
				}
			default:
				state = "undefined" // a first length byte above 0x7f: the format described here does not define it
			}
		} else {
			if len(rest) < 4 {
				state = "truncated"
			} else {
				n, h = int(binary.LittleEndian.Uint32(rest)), 4
			}
		}
		if state != "boundary" {
			break
		}
		if len(rest)-h < n {
			state = "truncated"
			break
		}
		shown = append(shown, showBytes(rest[h:h+n]))
		rest = rest[h+n:]
	}
	pre := fmt.Sprintf("mode=%s msgs=", md)
	switch state {
	case "boundary":
		if exp := pre + showList(shown) + " end=eof"; out != exp {
			return "a stream of an announcement and whole frames is not delivered as its messages and an end of stream: want " + clip(exp)
		}
	case "truncated":
		i := strings.LastIndex(out, " end=")
		if i < 0 || out[:i] != pre+showList(shown) {
			return "a stream cut inside a frame: the whole frames before the cut are not what is delivered (the cut frame must end the stream, not become a message): want " + clip(pre+showList(shown)) + " end=<an end of stream>"
		}
	default:
		if !strings.HasPrefix(out, pre) {
			return "the mode is not recognised from the announcement: want " + pre + "…"
		}
		if len(shown) > 0 && !strings.HasPrefix(out, pre+showList(shown)) {
			return "the whole frames at the start of the stream are not delivered as their messages: want " + clip(pre+showList(shown)) + "…"
		}
	}
	return ""
}

// ---- generation ---------------------------------------------------------------------------------

func compositions(n int, f func(cuts []int)) {
	// every subset of cut positions 1..n-1
	for mask := 0; mask < 1<<uint(n-1); mask++ {
		var cuts []int
		for i := 0; i < n-1; i++ {
			if mask&(1<<uint(i)) != 0 {
				cuts = append(cuts, i+1)
			}
		}
		f(cuts)
	}
}

func cutsStr(c []int) string {
	if len(c) == 0 {
		return "-"
	}
	s := make([]string, len(c))
	for i, v := range c {
		s[i] = fmt.Sprint(v)
	}
	return strings.Join(s, ",")
}

func c08Gen(g *G) {
	r := g.R
	tok := func(n int) string { // a message token of n bytes
		if n == 0 {
			return "-"
		}
		if n > 64 {
			return fmt.Sprintf("p%d", n)
		}
		return hexD(r.Bytes(n))
	}
	// (a) write side: every length class around the 127-word switch, both modes
	lens := []int{}
	for l := 0; l <= 520; l += 4 {
		lens = append(lens, l)
	}
	lens = append(lens, 1020, 1024, 4096, 65532, 65536, 1<<20)
	if g.Thorough() {
		lens = append(lens, 1<<22, (1<<24)-4)
	}
	for _, md := range []string{"a", "i"} {
		for _, l := range lens {
			g.Emit(fmt.Sprintf("c08.write %s %s", md, tok(l)), "write", "mode="+md)
		}
		for _, l := range []int{1, 2, 3, 5, 7, 509, 510, 511, 513} {
			g.Emit(fmt.Sprintf("c08.write %s %s,%s", md, tok(4), tok(l)), "write-unaligned", "mode="+md)
		}
	}
	// (b) round trip through Detect/ReadMsg under every composition of short streams
	maxStream := 10
	if g.Thorough() {
		maxStream = 13
	}
	shortSets := [][]int{{0}, {4}, {0, 0}, {4, 0}, {0, 4}, {8}, {4, 4}, {}}
	for _, md := range []string{"a", "i"} {
		for _, set := range shortSets {
			total := len(specAnnounce(md))
			var toks []string
			for _, l := range set {
				total += len(specFrame(md, make([]byte, l)))
				toks = append(toks, tok(l))
			}
			if total > maxStream || total < 1 {
				continue
			}
			msgs := showList(toks)
			compositions(total, func(cuts []int) {
				g.Emit(fmt.Sprintf("c08.rt %s %s %s", md, cutsStr(cuts), msgs), "rt-exhaustive", "mode="+md)
			})
		}
	}
	// (b') the same through the repository's own TCP connection type (transport.NewTCP) and mode.Detect: every
	// composition of the first bytes (announcement and first header), the rest in one segment; one byte at a time
	headBytes := 6
	if g.Thorough() {
		headBytes = 9
	}
	for _, md := range []string{"a", "i"} {
		for _, set := range [][]int{{4, 0, 8}, {508, 512}} {
			var toks []string
			for _, l := range set {
				toks = append(toks, tok(l))
			}
			msgs := showList(toks)
			compositions(headBytes, func(cuts []int) {
				g.Emit(fmt.Sprintf("c08.det %s %s %s", md, cutsStr(append(append([]int{}, cuts...), headBytes)), msgs), "det-tcp-exhaustive-head", "mode="+md)
			})
			g.Emit(fmt.Sprintf("c08.det %s each %s", md, showList([]string{tok(4), tok(0), tok(8)})), "det-tcp-bytewise", "mode="+md)
		}
	}
	// long streams: random splits and one byte at a time
	nLong := g.N(120, 3000)
	for i := 0; i < nLong; i++ {
		md := []string{"a", "i"}[r.Intn(2)]
		k := 1 + r.Intn(5)
		var toks []string
		total := len(specAnnounce(md))
		for j := 0; j < k; j++ {
			l := 4 * r.Pick(0, 1, 2, 125, 126, 127, 128, 129, 130, 255, 256, 300, 1000)
			if r.Intn(40) == 0 {
				l = 4 * r.Pick(16384, 65536, 1<<18)
			}
			toks = append(toks, tok(l))
			total += len(specFrame(md, make([]byte, l)))
		}
		var splits string
		switch r.Intn(4) {
		case 0:
			splits = "-"
		case 1:
			if total <= 6000 {
				splits = "each"
			} else {
				splits = "-"
			}
		default:
			nc := 1 + r.Intn(12)
			cs := map[int]bool{}
			for c := 0; c < nc; c++ {
				// cuts cluster around frame boundaries and headers
				cs[1+r.Intn(total-1)] = true
			}
			for _, c := range []int{1, 2, 3, 4, 5, 6, 7, 8} {
				if r.Intn(3) == 0 && c < total {
					cs[c] = true
				}
			}
			var cl []int
			for c := range cs {
				cl = append(cl, c)
			}
			sortInts(cl)
			splits = cutsStr(cl)
		}
		g.Emit(fmt.Sprintf("c08.rt %s %s %s", md, splits, showList(toks)), "rt-long", "mode="+md)
	}
	// (b'') several short frames in one stream (1..64 bytes: acks, pongs, 4-byte transport error codes), next to
	// each other and interleaved with long and empty ones. Every read path keeps the messages as ReadMsg returned
	// them until the stream has ended, so a message that changes after delivery is seen.
	codeTok := func() string {
		b := make([]byte, 4)
		binary.LittleEndian.PutUint32(b, uint32(int32(r.Pick(-404, -429, -444, -403, 404, -1, 1, 0))))
		return hexD(b)
	}
	shortStream := func(md string) (toks []string, total int) {
		k := 2 + r.Intn(7)
		total = len(specAnnounce(md))
		for j := 0; j < k; j++ {
			var t string
			switch r.Intn(7) {
			case 0:
				t = tok(4 * r.Pick(17, 18, 32, 126, 127, 128, 250))
			case 1:
				t = tok(0)
			case 2:
				t = codeTok()
			default:
				if md == "i" && r.Intn(3) > 0 {
					t = tok(1 + r.Intn(64)) // the intermediate format carries any length
				} else {
					t = tok(4 * (1 + r.Intn(16)))
				}
			}
			toks = append(toks, t)
			total += len(specFrame(md, parseBytes(t)))
		}
		return
	}
	randCuts := func(total int) string {
		switch r.Intn(4) {
		case 0:
			return "-"
		case 1:
			if total <= 6000 {
				return "each"
			}
			return "-"
		}
		cs := map[int]bool{}
		for c := 0; c < 1+r.Intn(12); c++ {
			cs[1+r.Intn(total-1)] = true
		}
		var cl []int
		for c := range cs {
			cl = append(cl, c)
		}
		sortInts(cl)
		return cutsStr(cl)
	}
	nShort := g.N(80, 2000)
	for i := 0; i < nShort; i++ {
		md := []string{"a", "i"}[r.Intn(2)]
		toks, total := shortStream(md)
		g.Emit(fmt.Sprintf("c08.rt %s %s %s", md, randCuts(total), showList(toks)), "rt-short-frames", "mode="+md)
	}
	for i := 0; i < g.N(8, 200); i++ {
		md := []string{"a", "i"}[i%2]
		toks, total := shortStream(md)
		g.Emit(fmt.Sprintf("c08.det %s %s %s", md, randCuts(total), showList(toks)), "det-tcp-short-frames", "mode="+md)
	}
	// (c) malformed / truncated streams: every prefix of valid streams, wrong announcements
	for _, md := range []string{"a", "i"} {
		for _, set := range [][]int{{4, 0, 8}, {508, 4}} {
			stream := specAnnounce(md)
			for _, l := range set {
				stream = append(stream, specFrame(md, r.Bytes(l))...)
			}
			step := 1
			if len(stream) > 64 {
				step = 7
			}
			for cut := 0; cut <= len(stream); cut += step {
				pre := stream[:cut]
				if cut > 3 {
					k := 1 + r.Intn(cut-1)
					g.Emit(fmt.Sprintf("c08.read %s,%s", hexD(pre[:k]), hexD(pre[k:])), "read-truncated", "mode="+md)
				} else {
					g.Emit(fmt.Sprintf("c08.read %s", hexD(pre)), "read-truncated", "mode="+md)
				}
			}
		}
	}
	for _, h := range []string{"00", "ee", "eeee", "eeeeee", "eeeeeeef", "eeeeeeee", "ef", "dd000000", "7f", "ef7f", "ef7f0100", "ef7f010000", "ef7f01000001020304", "ef7f00000000", "ef00", "ef0001"} {
		g.Emit("c08.read "+h, "read-malformed")
	}
	// (d) real loopback TCP through transport.ReadMsg
	nTCP := g.N(60, 1500)
	codes := []string{"-404", "-429", "-444", "404", "0", "-1", "2147483647", "-2147483648", "-403"}
	for i := 0; i < nTCP; i++ {
		md := []string{"a", "i"}[r.Intn(2)]
		k := 1 + r.Intn(4)
		var items []string
		total := 0
		for j := 0; j < k; j++ {
			switch r.Intn(5) {
			case 0:
				c := codes[r.Intn(len(codes))]
				items = append(items, "c:"+c)
				total += 8
			default:
				l := 4 * r.Pick(0, 1, 2, 3, 120, 121, 122, 123, 124, 125, 200, 1000)
				if r.Intn(30) == 0 {
					l = 4 * r.Pick(65536, 1<<18)
				}
				mid := r.U64()&^3 | uint64(r.Pick(1, 3))
				if r.Intn(12) == 0 {
					mid = r.U64()&^3 | uint64(r.Pick(0, 2)) // wrong parity: refused, stream continues
				}
				items = append(items, fmt.Sprintf("m:%d:%s", mid, tok(l)))
				total += 24 + l
			}
		}
		if r.Intn(10) == 0 { // stream cut inside a frame
			items = append(items, "r:"+hexD(specFrame(md, r.Bytes(16))[:1+r.Intn(8)]))
			total += 4
		}
		var splits string
		switch r.Intn(3) {
		case 0:
			splits = "-"
		case 1:
			if total <= 48 {
				splits = "each"
			} else {
				splits = cutsStr([]int{1, 2, 3, 4, 5})
			}
		default:
			cs := map[int]bool{}
			for c := 0; c < 1+r.Intn(6); c++ {
				cs[1+r.Intn(total)] = true
			}
			var cl []int
			for c := range cs {
				cl = append(cl, c)
			}
			sortInts(cl)
			splits = cutsStr(cl)
		}
		g.Emit(fmt.Sprintf("c08.tcp %s %s %s", md, splits, strings.Join(items, " ")), "tcp", "mode="+md)
	}
	// several small items (messages of 20..64 bytes, error codes) in one stream, a long one now and then
	for i := 0; i < g.N(30, 600); i++ {
		md := []string{"a", "i"}[r.Intn(2)]
		k := 3 + r.Intn(6)
		var items []string
		total := 0
		for j := 0; j < k; j++ {
			switch r.Intn(6) {
			case 0:
				items = append(items, "c:"+codes[r.Intn(len(codes))])
				total += 8
			default:
				l := 4 * r.Intn(12)
				if r.Intn(8) == 0 {
					l = 4 * r.Pick(12, 13, 100, 126)
				}
				items = append(items, fmt.Sprintf("m:%d:%s", r.U64()&^3|uint64(r.Pick(1, 3)), tok(l)))
				total += 24 + l
			}
		}
		g.Emit(fmt.Sprintf("c08.tcp %s %s %s", md, randCuts(total), strings.Join(items, " ")), "tcp-short-items", "mode="+md)
	}
	// (e) deadlines: the repository's connection with a short read timeout; reads, idle time longer than the
	// timeout (with and without a read pending), then writes of several lengths — and the mirror image; writes
	// that stay blocked past the timeout because the peer drains late. Only the reads are bounded by Timeout.
	{
		const timeoutMs, idleMs = 200, 300
		several := func(md string) string {
			var toks []string
			for _, l := range []int{504, 508, 512, 0, 4} {
				toks = append(toks, tok(l))
			}
			for j := 0; j < 1+r.Intn(4); j++ {
				if md == "i" && r.Intn(2) == 0 {
					toks = append(toks, tok(1+r.Intn(700)))
				} else {
					toks = append(toks, tok(4*r.Pick(1, 2, 16, 17, 126, 127, 128, 1000, 16384)))
				}
			}
			for j := len(toks) - 1; j > 0; j-- { // shuffle
				k := r.Intn(j + 1)
				toks[j], toks[k] = toks[k], toks[j]
			}
			return showList(toks)
		}
		few := func(md string) string {
			var toks []string
			for j := 0; j < 1+r.Intn(3); j++ {
				toks = append(toks, tok(4*r.Pick(0, 1, 2, 5, 16, 127)))
			}
			return showList(toks)
		}
		big := func() string { // more than a loopback connection buffers when the peer does not read (tcp_wmem max + window)
			var toks []string
			for total := 0; total < 5<<20; {
				l := r.Pick(1<<20, 1<<20, 1<<19, 1<<18)
				toks = append(toks, tok(l))
				total += l
			}
			toks = append(toks, tok(508), tok(0), tok(4))
			return showList(toks)
		}
		emit := func(md, variant string) {
			var down, up string
			switch variant {
			case "widle", "wpend":
				down, up = few(md), several(md)
			case "wslow":
				down, up = few(md), big()
			case "ridle":
				down, up = several(md), few(md)
			case "rslow":
				down, up = several(md), big()
			}
			g.Emit(fmt.Sprintf("c08.dl %s %s %d %d %s %s", md, variant, timeoutMs, idleMs, down, up), "deadline-"+variant, "mode="+md)
		}
		mds := []string{"a", "i"}
		if r.Bool() {
			mds = []string{"i", "a"}
		}
		for rep := 0; rep < g.N(1, 4); rep++ {
			for _, md := range mds {
				for _, v := range []string{"widle", "wpend", "ridle"} {
					emit(md, v)
				}
			}
			emit(mds[0], "wslow")
			emit(mds[1], "rslow")
			if g.Thorough() {
				emit(mds[1], "wslow")
				emit(mds[0], "rslow")
			}
		}
	}
	// the error-code frame named by the property
	for _, md := range []string{"a", "i"} {
		g.Emit(fmt.Sprintf("c08.tcp %s - c:-404", md), "tcp-code", "mode="+md)
		g.Emit(fmt.Sprintf("c08.tcp %s each c:-404 m:5:01020304 c:-429", md), "tcp-code", "mode="+md)
	}
	c08GenHistory(g)
	c08GenCfg(g)
}

// c08GenHistory: (f) what one connection of the process received must not reach another. Streams whose first
// bytes share a prefix with an announcement without being one (0xee then other bytes, a cut announcement,
// 0xdd…, other first bytes; 0xef followed by bytes of the other announcement), alone (c08.read) and — c08.seq —
// before, between and after NEW connections of both modes writing their announcement and frames (mode.New on
// a recording connection and on the repository's TCP connection over loopback) and well-formed streams being
// detected and read: every step must come out as it does on its own.
func c08GenHistory(g *G) {
	r := g.R
	small := true // the fixed shapes: streams short enough to be printed byte by byte
	msgsFor := func(md string) string {
		var toks []string
		for j := 0; j < 1+r.Intn(3); j++ {
			l := 4 * r.Pick(0, 1, 2, 3, 16, 126, 127, 128)
			if md == "i" && r.Intn(3) == 0 {
				l = 1 + r.Intn(70)
			}
			if small {
				l = 4 * r.Intn(3)
				if md == "i" && r.Intn(3) == 0 {
					l = 1 + r.Intn(9)
				}
			}
			if l == 0 {
				toks = append(toks, "-")
			} else if l > 64 {
				toks = append(toks, fmt.Sprintf("p%d", l))
			} else {
				toks = append(toks, hexD(r.Bytes(l)))
			}
		}
		return showList(toks)
	}
	frames := func(md string) []byte { // a short well-formed body of a stream
		var b []byte
		for j := 0; j < r.Intn(3); j++ {
			b = append(b, specFrame(md, r.Bytes(4*r.Intn(5)))...)
		}
		return b
	}
	segs := func(stream []byte) string { // the stream as 1..3 segments, or one byte at a time when short
		if len(stream) == 0 {
			return "-"
		}
		if len(stream) <= 12 && r.Intn(4) == 0 {
			var t []string
			for _, b := range stream {
				t = append(t, hexD([]byte{b}))
			}
			return strings.Join(t, ",")
		}
		var cuts []int
		for k := r.Intn(3); k > 0 && len(stream) > 1; k-- {
			cuts = append(cuts, 1+r.Intn(min(len(stream)-1, 5)))
		}
		sortInts(cuts)
		var t []string
		for _, sg := range splitAt(stream, cuts) {
			t = append(t, hexD(sg))
		}
		return strings.Join(t, ",")
	}
	nearMiss := func() []byte {
		var h []byte
		switch r.Intn(10) {
		case 0, 1, 2: // 0xee, then three bytes that are not all 0xee
			h = []byte{0xee, 0xee, 0xee, 0xee}
			for k := 1 + r.Intn(3); k > 0; k-- {
				h[1+r.Intn(3)] = byte(r.Pick(0x00, 0xef, 0xdd, 0xed, 0x01, 0xff, 0x7f, 0x0e, r.Intn(0xee)))
			}
		case 3:
			h = append([]byte{0xee}, r.Bytes(3)...)
			if h[1] == 0xee && h[2] == 0xee && h[3] == 0xee {
				h[3] = 0
			}
		case 4: // an announcement cut short
			return []byte{0xee, 0xee, 0xee}[:r.Intn(4)]
		case 5: // the padded-intermediate announcement: not a mode of this client
			h = []byte{0xdd, 0xdd, 0xdd, 0xdd}[:r.Pick(1, 4)]
		case 6:
			h = []byte{0xee, 0xef, 0xef, 0xef}
		case 7:
			h = []byte{byte(r.Pick(0xed, 0xf0, 0x00, 0x7f, 0xfe, 0xe0, 0x0e)), 0xee, 0xee, 0xee}
		default:
			h = append([]byte{byte(r.Pick(0xee, 0xee, 0xdd, 0x00))}, r.Bytes(3)...)
			if h[0] == 0xee && h[1] == 0xee && h[2] == 0xee && h[3] == 0xee {
				h[1] = 1
			}
		}
		if r.Intn(2) == 0 {
			h = append(h, frames("i")...)
		}
		return h
	}
	valid := func() []byte {
		md := []string{"a", "i"}[r.Intn(2)]
		if r.Intn(6) == 0 { // 0xef followed by bytes of the other announcement: Abridged, whatever follows
			return []byte{0xef, 0xee, 0xee, 0xee}[:r.Pick(1, 2, 4)]
		}
		return append(specAnnounce(md), frames(md)...)
	}
	// sequences
	emit := func(steps []string, tags ...string) {
		g.Emit("c08.seq "+strings.Join(steps, " "), append(tags, "seq")...)
	}
	w := func(md string) string { return "w:" + md + ":" + msgsFor(md) }
	t := func(md string) string { return "t:" + md + ":" + msgsFor(md) }
	d := func(stream []byte) string { return "d:" + segs(stream) }
	for i := 0; i < g.N(16, 120); i++ {
		nm := nearMiss()
		emit([]string{w("i"), w("a"), d(nm), w("i"), w("a")}, "seq-new-connection-after-foreign-stream")
		emit([]string{d(nm), t("i"), t("a")}, "seq-new-connection-after-foreign-stream", "seq-loopback")
		emit([]string{d(nm), d(append(specAnnounce("i"), frames("i")...)), d(append(specAnnounce("a"), frames("a")...))}, "seq-detect-after-foreign-stream")
		emit([]string{t("i"), d(nm), d(nearMiss()), w("i"), d(valid()), t("i"), w("a")}, "seq-new-connection-after-foreign-stream", "seq-loopback")
	}
	small = false
	for i := 0; i < g.N(60, 1200); i++ {
		var steps []string
		for k := 2 + r.Intn(7); k > 0; k-- {
			switch c := r.Intn(10); {
			case c < 3:
				steps = append(steps, d(nearMiss()))
			case c < 5:
				steps = append(steps, d(valid()))
			case c < 8:
				steps = append(steps, w([]string{"a", "i", "i"}[r.Intn(3)]))
			default:
				steps = append(steps, t([]string{"a", "i", "i"}[r.Intn(3)]))
			}
		}
		emit(steps, "seq-random")
	}
	// a LONG message written (length bytes b2 / b3 of the Abridged long form non-zero, or an Intermediate prefix with
	// high bytes set) and, right behind it on the same goroutine, streams whose frames use the long form / prefixes whose
	// high bytes are zero: whatever a connection keeps of a length prefix (a pooled or shared prefix buffer — seeded change
	// C08-m18) must not reach the next frame, read or written, of this or of any other connection
	longFrame := func(md string, words int) string { // announcement, header, body as three segments (body as p<n>)
		var h []byte
		if md == "a" {
			h = []byte{0x7f, byte(words), byte(words >> 8), byte(words >> 16)}
			if words < 127 {
				h = []byte{byte(words)}
			}
		} else {
			n := 4 * words
			h = []byte{byte(n), byte(n >> 8), byte(n >> 16), byte(n >> 24)}
		}
		return "d:" + hexD(specAnnounce(md)) + "," + hexD(h) + fmt.Sprintf(",p%d", 4*words)
	}
	bigs := []int{1 << 18, 1<<18 + 4, 1 << 20, 3<<18 + 1020}
	if g.Tier == "thorough" {
		bigs = append(bigs, 1<<24-4, 1<<24)
	}
	for _, big := range bigs {
		for _, words := range []int{127, 128, 255, 256, 16384} {
			for _, md := range []string{"a", "i"} {
				emit([]string{fmt.Sprintf("w:%s:p%d", md, big), longFrame("a", words), fmt.Sprintf("w:a:p%d", 4*words),
					fmt.Sprintf("w:%s:p%d", md, big), longFrame("i", words), fmt.Sprintf("w:i:p%d", 4*words)}, "seq-long-then-long-form")
				emit([]string{fmt.Sprintf("t:%s:p%d", md, big), longFrame("a", words), fmt.Sprintf("t:a:p%d", 4*words), longFrame("a", 126)}, "seq-long-then-long-form", "seq-loopback")
				emit([]string{longFrame(md, big/4), longFrame("a", words), fmt.Sprintf("w:a:p%d", 4*words), longFrame("i", words)}, "seq-long-then-long-form")
			}
		}
	}
	// the same kinds of streams alone: the fixed table, then random ones
	for _, h := range []string{"ee000000", "eeeeee00", "eeee00ee", "ee00eeee", "eeefefef", "eedddddd", "ee0000", "ee00", "eeeeeeed",
		"ee00000004000000aabbccdd", "eeeeee0000000000", "dddddddd", "dddddddd04000000aabbccdd", "dd", "ed", "f0eeeeee", "efeeeeee", "efef", "efdddddd"} {
		g.Emit("c08.read "+h, "read-near-announcement")
		if len(h) >= 4 {
			g.Emit("c08.read "+h[:2]+","+h[2:], "read-near-announcement")
		}
	}
	for i := 0; i < g.N(40, 600); i++ {
		g.Emit("c08.read "+segs(nearMiss()), "read-near-announcement")
	}
}

func sortInts(a []int) {
	for i := 1; i < len(a); i++ {
		for j := i; j > 0 && a[j-1] > a[j]; j-- {
			a[j-1], a[j] = a[j], a[j-1]
		}
	}
}

func init() {
	register(&Prop{
		Stateless: true,
		Name: "c08",
		Gen:  c08Gen,
		Exec: c08Exec,
		Judge: c08Judge,
		Setup: func(g *G) {
			l, err := net.Listen("tcp", "127.0.0.1:0")
			if err != nil {
				panic(err)
			}
			c08Listener = l
		},
		Teardown: func() { c08Listener.Close() },
	})
}
