package main

// C08 — transport framing. Real code exercised: internal/mode (New, Detect, WriteMsg, ReadMsg),
// internal/transport (NewTransport over a real loopback TCP connection, ReadMsg), and the
// exact-count reader the TCP connection is built on (go-dry CancelableReader).

import (
	"context"
	"encoding/binary"
	"fmt"
	"io"
	"net"
	"strings"
	"time"

	dryio "github.com/xelaj/go-dry/ioutil"

	"github.com/xelaj/mtproto/internal/mode"
	"github.com/xelaj/mtproto/internal/transport"
)

// ---- connections -------------------------------------------------------------------------------

// recConn records what is written.
type recConn struct{ w []byte }

func (c *recConn) Write(b []byte) (int, error) { c.w = append(c.w, b...); return len(b), nil }
func (c *recConn) Read(b []byte) (int, error)  { return 0, io.EOF }

// segReader hands out at most one segment per Read, like a TCP socket delivering packets.
type segReader struct{ segs [][]byte }

func (s *segReader) Read(p []byte) (int, error) {
	for len(s.segs) > 0 && len(s.segs[0]) == 0 {
		s.segs = s.segs[1:]
	}
	if len(s.segs) == 0 {
		return 0, io.EOF
	}
	n := copy(p, s.segs[0])
	s.segs[0] = s.segs[0][n:]
	return n, nil
}

// exactConn is what transport's tcpConn is: the go-dry CancelableReader (io.ReadFull per request)
// on top of a stream that arrives in segments.
type exactConn struct {
	cr     *dryio.CancelableReader
	cancel context.CancelFunc
}

func newExactConn(segs [][]byte) *exactConn {
	ctx, cancel := context.WithCancel(context.Background())
	cp := make([][]byte, len(segs))
	for i := range segs {
		cp[i] = append([]byte{}, segs[i]...)
	}
	return &exactConn{cr: dryio.NewCancelableReader(ctx, &segReader{segs: cp}), cancel: cancel}
}
func (c *exactConn) Read(p []byte) (int, error)  { return c.cr.Read(p) }
func (c *exactConn) Write(p []byte) (int, error) { return len(p), nil }
func (c *exactConn) Close()                      { c.cancel() }

func classifyStreamErr(err error) string {
	if err == io.EOF {
		return "eof"
	}
	s := err.Error()
	switch {
	case strings.Contains(s, "unexpected EOF"):
		return "uerr"
	case err == mode.ErrModeNotSupported || strings.Contains(s, mode.ErrModeNotSupported.Error()):
		return "notsupported"
	case err == mode.ErrAmbiguousModeAnnounce || strings.Contains(s, mode.ErrAmbiguousModeAnnounce.Error()):
		return "ambiguous"
	case strings.HasSuffix(s, "EOF"):
		return "eof"
	}
	return "other(" + strings.ReplaceAll(s, " ", "_") + ")"
}

// ---- independent spec framer used by the oracle and to build TCP streams -------------------------

func specAnnounce(md string) []byte {
	if md == "a" {
		return []byte{0xef}
	}
	return []byte{0xee, 0xee, 0xee, 0xee}
}

func specFrame(md string, m []byte) []byte {
	if md == "a" {
		w := len(m) / 4
		if w < 127 {
			return append([]byte{byte(w)}, m...)
		}
		return append([]byte{0x7f, byte(w), byte(w >> 8), byte(w >> 16)}, m...)
	}
	h := make([]byte, 4)
	binary.LittleEndian.PutUint32(h, uint32(len(m)))
	return append(h, m...)
}

func specFits(md string, m []byte) bool {
	if md == "a" {
		return len(m)%4 == 0 && len(m)/4 < 1<<24
	}
	return uint64(len(m)) < 1<<32
}

func specUnenc(msgID uint64, body []byte) []byte {
	b := make([]byte, 20, 20+len(body))
	binary.LittleEndian.PutUint64(b[8:], msgID)
	binary.LittleEndian.PutUint32(b[16:], uint32(len(body)))
	return append(b, body...)
}

func variantOf(md string) mode.Variant {
	if md == "a" {
		return mode.Abridged
	}
	return mode.Intermediate
}

func modeName(m mode.Mode) string {
	v, err := mode.GetVariant(m)
	if err != nil {
		return "?"
	}
	if v == mode.Abridged {
		return "a"
	}
	return "i"
}

// ---- operations ---------------------------------------------------------------------------------

func c08Write(md string, msgs [][]byte) ([]byte, string) {
	rc := &recConn{}
	m, err := mode.New(variantOf(md), rc)
	if err != nil {
		return rc.w, "new:" + err.Error()
	}
	for _, msg := range msgs {
		if err := m.WriteMsg(msg); err != nil {
			if _, ok := err.(mode.ErrNotMultiple); ok {
				return rc.w, "notmultiple"
			}
			return rc.w, "other"
		}
	}
	return rc.w, "-"
}

func c08ReadSegs(segs [][]byte) string {
	c := newExactConn(segs)
	defer c.Close()
	m, err := mode.Detect(c)
	if err != nil {
		return "mode=err:" + classifyStreamErr(err)
	}
	var out []string
	for {
		msg, err := m.ReadMsg()
		if err != nil {
			return fmt.Sprintf("mode=%s msgs=%s end=%s", modeName(m), showList(out), classifyStreamErr(err))
		}
		out = append(out, showBytes(msg))
	}
}

// c08DetectTCP: the peer's side of the property on the repository's own connection type: the stream
// (announcement + frames, as the real writer produced it) arrives over loopback TCP in the given
// segments; transport.NewTCP + mode.Detect + ReadMsg must deliver it whatever the segmentation.
func c08DetectTCP(segs [][]byte) string {
	done := make(chan struct{})
	go func() {
		defer close(done)
		conn, err := c08Listener.Accept()
		if err != nil {
			return
		}
		tc := conn.(*net.TCPConn)
		_ = tc.SetNoDelay(true)
		for i, s := range segs {
			if len(s) > 0 {
				_, _ = tc.Write(s)
			}
			if i+1 < len(segs) && len(segs) <= 64 {
				time.Sleep(300 * time.Microsecond)
			}
		}
		_ = tc.Close()
	}()
	ctx, cancel := context.WithCancel(context.Background())
	defer cancel()
	conn, err := transport.NewTCP(transport.TCPConnConfig{Ctx: ctx, Host: c08Listener.Addr().String(), Timeout: 10 * time.Second})
	if err != nil {
		return "dial-error:" + err.Error()
	}
	defer conn.Close()
	res := ""
	m, err := mode.Detect(conn)
	if err != nil {
		res = "mode=err:" + classifyStreamErr(err)
	} else {
		var out []string
		for res == "" {
			msg, err := m.ReadMsg()
			if err != nil {
				res = fmt.Sprintf("mode=%s msgs=%s end=%s", modeName(m), showList(out), classifyStreamErr(err))
			} else {
				out = append(out, showBytes(msg))
			}
		}
	}
	<-done
	return res
}

type stubInformator struct{}

func (stubInformator) GetSessionID() int64  { return 1 }
func (stubInformator) GetSeqNo() int32      { return 0 }
func (stubInformator) GetServerSalt() int64 { return 0 }
func (stubInformator) GetAuthKey() []byte   { return make([]byte, 256) }

var c08Listener net.Listener

func c08Tcp(md string, splits string, items []string) string {
	stream := []byte{}
	for _, it := range items {
		parts := strings.SplitN(it, ":", 3)
		switch parts[0] {
		case "m":
			var mid uint64
			fmt.Sscan(parts[1], &mid)
			stream = append(stream, specFrame(md, specUnenc(mid, parseBytes(parts[2])))...)
		case "c":
			code := int32(atoi(parts[1]))
			b := make([]byte, 4)
			binary.LittleEndian.PutUint32(b, uint32(code))
			stream = append(stream, specFrame(md, b)...)
		case "r":
			stream = append(stream, parseBytes(parts[1])...)
		default:
			panic("bad item " + it)
		}
	}
	segs := splitAt(stream, parseSplits(splits, len(stream)))

	done := make(chan struct{})
	go func() {
		defer close(done)
		conn, err := c08Listener.Accept()
		if err != nil {
			return
		}
		tc := conn.(*net.TCPConn)
		_ = tc.SetNoDelay(true)
		// consume the client's announcement
		ann := make([]byte, len(specAnnounce(md)))
		_, _ = io.ReadFull(tc, ann)
		for i, s := range segs {
			if len(s) > 0 {
				_, _ = tc.Write(s)
			}
			if i+1 < len(segs) && len(segs) <= 64 {
				time.Sleep(150 * time.Microsecond)
			}
		}
		_ = tc.Close()
	}()

	ctx, cancel := context.WithCancel(context.Background())
	defer cancel()
	t, err := transport.NewTransport(stubInformator{}, transport.TCPConnConfig{
		Ctx: ctx, Host: c08Listener.Addr().String(), Timeout: 10 * time.Second,
	}, variantOf(md))
	if err != nil {
		return "dial-error:" + err.Error()
	}
	defer t.Close()
	var out []string
	end := ""
	for end == "" {
		msg, err := t.ReadMsg()
		switch {
		case err == nil:
			out = append(out, fmt.Sprintf("msg:%d:%s", uint64(int64(msg.GetMsgID())), showBytes(msg.GetMsg())))
		case err == io.EOF:
			end = "eof"
		default:
			if code, ok := err.(transport.ErrCode); ok {
				out = append(out, fmt.Sprintf("code:%d", int(code)))
				break
			}
			s := err.Error()
			switch {
			case strings.HasPrefix(s, "parsing message"):
				if strings.Contains(s, "Wrong bits") || strings.Contains(s, "wrong bits") {
					out = append(out, "bad:parity")
				} else if strings.Contains(s, "not equal defined size") {
					out = append(out, "bad:length")
				} else {
					out = append(out, "bad:other("+strings.ReplaceAll(s, " ", "_")+")")
				}
			default:
				end = classifyStreamErr(err)
			}
		}
	}
	<-done
	return fmt.Sprintf("items=%s end=%s", showList(out), end)
}

func c08Exec(op []string) string {
	switch op[0] {
	case "c08.write":
		b, e := c08Write(op[1], parseBytesList(op[2]))
		return fmt.Sprintf("bytes=%s err=%s", showBytes(b), e)
	case "c08.rt":
		b, e := c08Write(op[1], parseBytesList(op[3]))
		if e != "-" {
			return "werr=" + e
		}
		return c08ReadSegs(splitAt(b, parseSplits(op[2], len(b))))
	case "c08.read":
		return c08ReadSegs(parseBytesList(op[1]))
	case "c08.det":
		b, e := c08Write(op[1], parseBytesList(op[3]))
		if e != "-" {
			return "werr=" + e
		}
		return c08DetectTCP(splitAt(b, parseSplits(op[2], len(b))))
	case "c08.tcp":
		return c08Tcp(op[1], op[2], op[3:])
	}
	return "bad-op"
}

// c08Judge: the property itself, stated on the real code's observable result.
func c08Judge(op []string, out string) string {
	if strings.HasPrefix(out, "panic:") {
		return "panic in framing code: " + out
	}
	switch op[0] {
	case "c08.write":
		md, msgs := op[1], parseBytesList(op[2])
		want := specAnnounce(md)
		werr := "-"
		for _, m := range msgs {
			if md == "a" && len(m)%4 != 0 {
				werr = "notmultiple"
				break
			}
			if !specFits(md, m) {
				return "" // outside what the format can carry
			}
			want = append(want, specFrame(md, m)...)
		}
		exp := fmt.Sprintf("bytes=%s err=%s", showBytes(want), werr)
		if out != exp {
			return "written bytes differ from the format: want " + clip(exp)
		}
	case "c08.rt", "c08.det":
		md, msgs := op[1], parseBytesList(op[3])
		var shown []string
		for _, m := range msgs {
			if !specFits(md, m) {
				return ""
			}
			shown = append(shown, showBytes(m))
		}
		exp := fmt.Sprintf("mode=%s msgs=%s end=eof", md, showList(shown))
		if out != exp {
			return "messages read back differ from the messages written: want " + clip(exp)
		}
	case "c08.tcp":
		var shown []string
		for _, it := range op[3:] {
			parts := strings.SplitN(it, ":", 3)
			switch parts[0] {
			case "m":
				var mid uint64
				fmt.Sscan(parts[1], &mid)
				if mid%4 != 1 && mid%4 != 3 {
					return ""
				}
				shown = append(shown, fmt.Sprintf("msg:%d:%s", mid, showBytes(parseBytes(parts[2]))))
			case "c":
				shown = append(shown, "code:"+parts[1])
			default:
				return "" // raw (malformed) stream: only the no-panic clause applies
			}
		}
		exp := fmt.Sprintf("items=%s end=eof", showList(shown))
		if out != exp {
			return "items delivered over TCP differ from the items sent: want " + clip(exp)
		}
	}
	return ""
}

// ---- generation ---------------------------------------------------------------------------------

func compositions(n int, f func(cuts []int)) {
	// every subset of cut positions 1..n-1
	for mask := 0; mask < 1<<uint(n-1); mask++ {
		var cuts []int
		for i := 0; i < n-1; i++ {
			if mask&(1<<uint(i)) != 0 {
				cuts = append(cuts, i+1)
			}
		}
		f(cuts)
	}
}

func cutsStr(c []int) string {
	if len(c) == 0 {
		return "-"
	}
	s := make([]string, len(c))
	for i, v := range c {
		s[i] = fmt.Sprint(v)
	}
	return strings.Join(s, ",")
}

func c08Gen(g *G) {
	r := g.R
	tok := func(n int) string { // a message token of n bytes
		if n == 0 {
			return "-"
		}
		if n > 64 {
			return fmt.Sprintf("p%d", n)
		}
		return hexD(r.Bytes(n))
	}
	// (a) write side: every length class around the 127-word switch, both modes
	lens := []int{}
	for l := 0; l <= 520; l += 4 {
		lens = append(lens, l)
	}
	lens = append(lens, 1020, 1024, 4096, 65532, 65536, 1<<20)
	if g.Thorough() {
		lens = append(lens, 1<<22, (1<<24)-4)
	}
	for _, md := range []string{"a", "i"} {
		for _, l := range lens {
			g.Emit(fmt.Sprintf("c08.write %s %s", md, tok(l)), "write", "mode="+md)
		}
		for _, l := range []int{1, 2, 3, 5, 7, 509, 510, 511, 513} {
			g.Emit(fmt.Sprintf("c08.write %s %s,%s", md, tok(4), tok(l)), "write-unaligned", "mode="+md)
		}
	}
	// (b) round trip through Detect/ReadMsg under every composition of short streams
	maxStream := 10
	if g.Thorough() {
		maxStream = 13
	}
	shortSets := [][]int{{0}, {4}, {0, 0}, {4, 0}, {0, 4}, {8}, {4, 4}, {}}
	for _, md := range []string{"a", "i"} {
		for _, set := range shortSets {
			total := len(specAnnounce(md))
			var toks []string
			for _, l := range set {
				total += len(specFrame(md, make([]byte, l)))
				toks = append(toks, tok(l))
			}
			if total > maxStream || total < 1 {
				continue
			}
			msgs := showList(toks)
			compositions(total, func(cuts []int) {
				g.Emit(fmt.Sprintf("c08.rt %s %s %s", md, cutsStr(cuts), msgs), "rt-exhaustive", "mode="+md)
			})
		}
	}
	// (b') the same through the repository's own TCP connection type (transport.NewTCP) and mode.Detect: every
	// composition of the first bytes (announcement and first header), the rest in one segment; one byte at a time
	headBytes := 6
	if g.Thorough() {
		headBytes = 9
	}
	for _, md := range []string{"a", "i"} {
		for _, set := range [][]int{{4, 0, 8}, {508, 512}} {
			var toks []string
			for _, l := range set {
				toks = append(toks, tok(l))
			}
			msgs := showList(toks)
			compositions(headBytes, func(cuts []int) {
				g.Emit(fmt.Sprintf("c08.det %s %s %s", md, cutsStr(append(append([]int{}, cuts...), headBytes)), msgs), "det-tcp-exhaustive-head", "mode="+md)
			})
			g.Emit(fmt.Sprintf("c08.det %s each %s", md, showList([]string{tok(4), tok(0), tok(8)})), "det-tcp-bytewise", "mode="+md)
		}
	}
	// long streams: random splits and one byte at a time
	nLong := g.N(120, 3000)
	for i := 0; i < nLong; i++ {
		md := []string{"a", "i"}[r.Intn(2)]
		k := 1 + r.Intn(5)
		var toks []string
		total := len(specAnnounce(md))
		for j := 0; j < k; j++ {
			l := 4 * r.Pick(0, 1, 2, 125, 126, 127, 128, 129, 130, 255, 256, 300, 1000)
			if r.Intn(40) == 0 {
				l = 4 * r.Pick(16384, 65536, 1<<18)
			}
			toks = append(toks, tok(l))
			total += len(specFrame(md, make([]byte, l)))
		}
		var splits string
		switch r.Intn(4) {
		case 0:
			splits = "-"
		case 1:
			if total <= 6000 {
				splits = "each"
			} else {
				splits = "-"
			}
		default:
			nc := 1 + r.Intn(12)
			cs := map[int]bool{}
			for c := 0; c < nc; c++ {
				// cuts cluster around frame boundaries and headers
				cs[1+r.Intn(total-1)] = true
			}
			for _, c := range []int{1, 2, 3, 4, 5, 6, 7, 8} {
				if r.Intn(3) == 0 && c < total {
					cs[c] = true
				}
			}
			var cl []int
			for c := range cs {
				cl = append(cl, c)
			}
			sortInts(cl)
			splits = cutsStr(cl)
		}
		g.Emit(fmt.Sprintf("c08.rt %s %s %s", md, splits, showList(toks)), "rt-long", "mode="+md)
	}
	// (c) malformed / truncated streams: every prefix of valid streams, wrong announcements
	for _, md := range []string{"a", "i"} {
		for _, set := range [][]int{{4, 0, 8}, {508, 4}} {
			stream := specAnnounce(md)
			for _, l := range set {
				stream = append(stream, specFrame(md, r.Bytes(l))...)
			}
			step := 1
			if len(stream) > 64 {
				step = 7
			}
			for cut := 0; cut <= len(stream); cut += step {
				pre := stream[:cut]
				if cut > 3 {
					k := 1 + r.Intn(cut-1)
					g.Emit(fmt.Sprintf("c08.read %s,%s", hexD(pre[:k]), hexD(pre[k:])), "read-truncated", "mode="+md)
				} else {
					g.Emit(fmt.Sprintf("c08.read %s", hexD(pre)), "read-truncated", "mode="+md)
				}
			}
		}
	}
	for _, h := range []string{"00", "ee", "eeee", "eeeeee", "eeeeeeef", "eeeeeeee", "ef", "dd000000", "7f", "ef7f", "ef7f0100", "ef7f010000", "ef7f01000001020304", "ef7f00000000", "ef00", "ef0001"} {
		g.Emit("c08.read "+h, "read-malformed")
	}
	// (d) real loopback TCP through transport.ReadMsg
	nTCP := g.N(60, 1500)
	codes := []string{"-404", "-429", "-444", "404", "0", "-1", "2147483647", "-2147483648", "-403"}
	for i := 0; i < nTCP; i++ {
		md := []string{"a", "i"}[r.Intn(2)]
		k := 1 + r.Intn(4)
		var items []string
		total := 0
		for j := 0; j < k; j++ {
			switch r.Intn(5) {
			case 0:
				c := codes[r.Intn(len(codes))]
				items = append(items, "c:"+c)
				total += 8
			default:
				l := 4 * r.Pick(0, 1, 2, 3, 120, 121, 122, 123, 124, 125, 200, 1000)
				if r.Intn(30) == 0 {
					l = 4 * r.Pick(65536, 1<<18)
				}
				mid := r.U64()&^3 | uint64(r.Pick(1, 3))
				if r.Intn(12) == 0 {
					mid = r.U64()&^3 | uint64(r.Pick(0, 2)) // wrong parity: refused, stream continues
				}
				items = append(items, fmt.Sprintf("m:%d:%s", mid, tok(l)))
				total += 24 + l
			}
		}
		if r.Intn(10) == 0 { // stream cut inside a frame
			items = append(items, "r:"+hexD(specFrame(md, r.Bytes(16))[:1+r.Intn(8)]))
			total += 4
		}
		var splits string
		switch r.Intn(3) {
		case 0:
			splits = "-"
		case 1:
			if total <= 48 {
				splits = "each"
			} else {
				splits = cutsStr([]int{1, 2, 3, 4, 5})
			}
		default:
			cs := map[int]bool{}
			for c := 0; c < 1+r.Intn(6); c++ {
				cs[1+r.Intn(total)] = true
			}
			var cl []int
			for c := range cs {
				cl = append(cl, c)
			}
			sortInts(cl)
			splits = cutsStr(cl)
		}
		g.Emit(fmt.Sprintf("c08.tcp %s %s %s", md, splits, strings.Join(items, " ")), "tcp", "mode="+md)
	}
	// the error-code frame named by the property
	for _, md := range []string{"a", "i"} {
		g.Emit(fmt.Sprintf("c08.tcp %s - c:-404", md), "tcp-code", "mode="+md)
		g.Emit(fmt.Sprintf("c08.tcp %s each c:-404 m:5:01020304 c:-429", md), "tcp-code", "mode="+md)
	}
}

func sortInts(a []int) {
	for i := 1; i < len(a); i++ {
		for j := i; j > 0 && a[j-1] > a[j]; j-- {
			a[j-1], a[j] = a[j], a[j-1]
		}
	}
}

func init() {
	register(&Prop{
		Stateless: true,
		Name: "c08",
		Gen:  c08Gen,
		Exec: c08Exec,
		Judge: c08Judge,
		Setup: func(g *G) {
			l, err := net.Listen("tcp", "127.0.0.1:0")
			if err != nil {
				panic(err)
			}
			c08Listener = l
		},
		Teardown: func() { c08Listener.Close() },
	})
}
