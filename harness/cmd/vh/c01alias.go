package main

// C01, IDENTITY and ALIASING of Go values as opposed to their contents.
//
// C01 speaks of "every value" of every constructor. The text form of an operation (x_tlval.go) and the Lean
// model's `Val` are TREES: a value parsed from the text has a freshly allocated Go object at every position, and
// that is all `c01.rt` ever hands to the codec. A Go value is a graph: one *InputPeerChannel in FromPeer and
// ToPeer, one *InputUserObj at two positions of a vector, one object at two depths, the same pointer in a field of
// the pointer type and inside an interface field, one []byte in two parameters, two byte strings cut from one
// buffer (with the capacity of the first reaching over the second), one *tl.Int128 used twice, one
// &InputPeerSelf{} everywhere. The serialisation is a function of the tree such a value UNFOLDS to (an object that
// occurs twice is written twice); identity is not part of the value. And the other way round: what the codec
// returns is the caller's - the bytes of Marshal do not change when the argument is changed afterwards, a decoded
// value does not change when the input bytes are changed afterwards, and two decodings of the same bytes are
// equal and share nothing that can be changed.
//
//   c01.dag <id> <value> <plan>
//     value   the tree, in the text form of x_tlval.go
//     plan    how the Go value is built from the tree:
//       tree    every position its own object (the control)
//       hc      hash-consed: every pointer to a constructor (directly or inside an interface), every 128/256-bit
//               integer and every non-empty slice / byte string whose type and text equal those of an earlier
//               position (depth first, fields in order) IS the Go object of that earlier position
//       hcp     the same for pointers and big integers only (slices stay separate)
//       arena   every non-empty slice / byte string of one type is cut from ONE backing array, one after the
//               other, each with the capacity that reaches to the end of the array (over its neighbours and
//               over 8 spare slots that hold sentinels)
//       arena3  the same, each cut with its capacity limited to its length (s[a:b:b])
//       tnil    every nil at a mandatory interface position or interface-typed vector element is a TYPED nil
//               (a nil pointer of a constructor that implements the interface) - such a tree has no encoding,
//               neither has the Go value; result line `enc=<bytes|err|panic>` only
//
// Result line (every plan but tnil), all of it from the real code:
//   enc=<bytes of tl.Marshal(value)>            `enc=err` when the value AND its tree twin are refused
//   tree=same|diff|ok|err                       the twin (same text, parsed again, every position its own object)
//                                               marshalled: same bytes / other bytes / `enc=err tree=ok`: only the
//                                               twin is serialised / `tree=err`: only the twin is refused
//   arg=same|changed                            the argument (its text, and every arena up to its capacity incl. the
//                                               sentinels) after Marshal against copies taken before
//   again=same|diff                             a second Marshal of the same Go value
//   named=<value|err|panic> unknown=<...>       tl.Decode into the named type / tl.DecodeUnknownObject
//   inp=same|changed                            both decoded values after every byte of the input they were decoded
//                                               from was overwritten
//   twice=same|diff                             the same bytes decoded a second time (both ways)
//   indep=same|changed                          the second results after everything reachable from the first results
//                                               was overwritten in place (bytes, numbers, booleans, strings, big
//                                               integers, slice elements)
//   ret=same|changed                            the bytes Marshal returned after everything reachable from the
//                                               ARGUMENT was overwritten in place
// The Lean driver answers with the codec model on the tree (the model's values are trees: the unfolding) and
// `same` for every comparison.

import (
	"bytes"
	"fmt"
	"math"
	"math/big"
	"reflect"
	"strings"

	"github.com/xelaj/mtproto/internal/encoding/tl"
	"github.com/xelaj/mtproto/internal/mtproto/objects"

	"github.com/xelaj/mtproto/verifharness/internal/reg"
)

var c01DagPlans = map[string]bool{"tree": true, "hc": true, "hcp": true, "arena": true, "arena3": true, "tnil": true}

// c01IsObjPtr: a non-nil pointer to a struct of a registered constructor (not a big integer)
func c01IsObjPtr(p reflect.Value) bool {
	if p.Kind() != reflect.Ptr || p.IsNil() || p.Elem().Kind() != reflect.Struct || p.Type() == tInt128 || p.Type() == tInt256 {
		return false
	}
	_, ok := reg.CrcOf(p.Type())
	return ok
}

// c01Share hash-conses the value below root (a settable position) and says how many positions now hold the
// object of an earlier position.
func c01Share(root reflect.Value, slices bool) int {
	seen := map[string]reflect.Value{}
	shared := 0
	var walk func(v reflect.Value)
	fields := func(p reflect.Value) {
		if !c01IsObjPtr(p) {
			return
		}
		st := p.Elem()
		for i := 0; i < st.NumField(); i++ {
			if st.Field(i).CanSet() {
				walk(st.Field(i))
			}
		}
	}
	walk = func(v reflect.Value) {
		switch v.Kind() {
		case reflect.Interface, reflect.Ptr:
			if v.IsNil() {
				return
			}
			e := v
			if v.Kind() == reflect.Interface {
				e = v.Elem()
			}
			if e.Kind() != reflect.Ptr || e.IsNil() {
				return
			}
			key := e.Type().String() + "|" + dumpDyn(e)
			if first, ok := seen[key]; ok {
				if first.Pointer() != e.Pointer() || e.Elem().Type().Size() == 0 {
					shared++
				}
				v.Set(first)
				return
			}
			seen[key] = e
			fields(e)
		case reflect.Slice:
			if v.IsNil() || v.Len() == 0 {
				return
			}
			if slices {
				key := v.Type().String() + "|" + dumpVal(v)
				if first, ok := seen[key]; ok {
					v.Set(first)
					shared++
					return
				}
				seen[key] = v
			}
			if v.Type() != tBytes {
				for i := 0; i < v.Len(); i++ {
					walk(v.Index(i))
				}
			}
		}
	}
	walk(root)
	return shared
}

// c01Carve cuts every non-empty slice below root from one backing array per slice type (see plan arena) and
// returns the arrays, each as a slice over its whole capacity.
func c01Carve(root reflect.Value, overlap bool) []reflect.Value {
	const spare = 8
	total := map[reflect.Type]int{}
	var order []reflect.Type
	var count func(v reflect.Value)
	count = func(v reflect.Value) {
		switch v.Kind() {
		case reflect.Interface, reflect.Ptr:
			if v.IsNil() {
				return
			}
			e := v
			if v.Kind() == reflect.Interface {
				e = v.Elem()
			}
			if !c01IsObjPtr(e) {
				return
			}
			for i := 0; i < e.Elem().NumField(); i++ {
				count(e.Elem().Field(i))
			}
		case reflect.Slice:
			if v.IsNil() || v.Len() == 0 {
				return
			}
			if _, ok := total[v.Type()]; !ok {
				order = append(order, v.Type())
			}
			total[v.Type()] += v.Len()
			if v.Type() != tBytes {
				for i := 0; i < v.Len(); i++ {
					count(v.Index(i))
				}
			}
		}
	}
	count(root)
	arena := map[reflect.Type]reflect.Value{}
	off := map[reflect.Type]int{}
	var all []reflect.Value
	for _, t := range order {
		a := reflect.MakeSlice(t, total[t]+spare, total[t]+spare)
		if t == tBytes {
			b := a.Bytes()
			for i := total[t]; i < len(b); i++ {
				b[i] = 0xa5
			}
		}
		arena[t] = a
		all = append(all, a)
	}
	var cut func(v reflect.Value)
	cut = func(v reflect.Value) {
		switch v.Kind() {
		case reflect.Interface, reflect.Ptr:
			if v.IsNil() {
				return
			}
			e := v
			if v.Kind() == reflect.Interface {
				e = v.Elem()
			}
			if !c01IsObjPtr(e) {
				return
			}
			for i := 0; i < e.Elem().NumField(); i++ {
				if e.Elem().Field(i).CanSet() {
					cut(e.Elem().Field(i))
				}
			}
		case reflect.Slice:
			if v.IsNil() || v.Len() == 0 || !v.CanSet() {
				return
			}
			t, n := v.Type(), v.Len()
			a, o := arena[t], off[t]
			reflect.Copy(a.Slice(o, o+n), v)
			if overlap {
				v.Set(a.Slice(o, o+n))
			} else {
				v.Set(a.Slice3(o, o+n, o+n))
			}
			off[t] = o + n
			if t != tBytes {
				for i := 0; i < n; i++ {
					cut(v.Index(i))
				}
			}
		}
	}
	cut(root)
	return all
}

var c01NilOf = map[reflect.Type]reflect.Value{}

// c01TypedNil: a nil pointer of the first registered struct constructor that implements the interface type
func c01TypedNil(it reflect.Type) (reflect.Value, bool) {
	if v, ok := c01NilOf[it]; ok {
		return v, v.IsValid()
	}
	var out reflect.Value
	for _, c := range reg.All() {
		if c.Kind == "struct" && c.Type.Kind() == reflect.Ptr && c.Type.Implements(it) && c.Type != tContainer && c.Type != tGzip {
			out = reflect.Zero(c.Type)
			break
		}
	}
	c01NilOf[it] = out
	return out, out.IsValid()
}

// c01TypedNils puts typed nils into the nil interface positions that have to hold something (mandatory fields
// as the struct tags say, vector elements) and says how many.
func c01TypedNils(root reflect.Value) int {
	n := 0
	var walk func(v reflect.Value, mandatory bool)
	walk = func(v reflect.Value, mandatory bool) {
		switch v.Kind() {
		case reflect.Interface:
			if v.IsNil() {
				if mandatory && v.CanSet() {
					if z, ok := c01TypedNil(v.Type()); ok {
						v.Set(z)
						n++
					}
				}
				return
			}
			walk(v.Elem(), true)
		case reflect.Ptr:
			if !c01IsObjPtr(v) {
				return
			}
			id, _ := reg.CrcOf(v.Type())
			c := reg.ByID()[id]
			st := v.Elem()
			for i := 0; i < st.NumField(); i++ {
				m := true
				if c != nil && i < len(c.Fields) {
					m = !c.Fields[i].HasFlag && !c.Fields[i].Ignore
				}
				walk(st.Field(i), m)
			}
		case reflect.Slice:
			if v.Type() != tBytes {
				for i := 0; i < v.Len(); i++ {
					walk(v.Index(i), true)
				}
			}
		}
	}
	walk(root, true)
	return n
}

// c01Scribble overwrites in place everything that can be reached from v and changed: bytes of byte strings,
// numbers, booleans, strings, big integers, elements of slices, members of containers.
func c01Scribble(v reflect.Value) {
	seen := map[uintptr]bool{}
	var walk func(v reflect.Value)
	walk = func(v reflect.Value) {
		if v.Type() == tInt128 || v.Type() == tInt256 {
			if v.IsNil() {
				return
			}
			var n *big.Int
			if v.Type() == tInt128 {
				n = v.Interface().(*tl.Int128).Int
			} else {
				n = v.Interface().(*tl.Int256).Int
			}
			if n != nil {
				n.Add(n, big.NewInt(0x55)) // in place
			}
			return
		}
		if v.Type() == tContainer {
			if v.IsNil() {
				return
			}
			for _, m := range *(v.Interface().(*objects.MessageContainer)) {
				if m == nil {
					continue
				}
				if v.Elem().CanSet() {
					m.MsgID += 0x55
					m.SeqNo += 0x55
				}
				for i := range m.Msg {
					m.Msg[i] += 0x55
				}
			}
			return
		}
		switch v.Kind() {
		case reflect.Interface:
			if !v.IsNil() {
				walk(v.Elem())
			}
		case reflect.Ptr:
			if v.IsNil() || v.Elem().Kind() != reflect.Struct {
				return
			}
			if v.Elem().Type().Size() != 0 {
				if seen[v.Pointer()] {
					return
				}
				seen[v.Pointer()] = true
			}
			st := v.Elem()
			for i := 0; i < st.NumField(); i++ {
				walk(st.Field(i))
			}
		case reflect.Slice:
			if v.Type() == tBytes {
				b := v.Bytes()
				for i := range b {
					b[i] += 0x55
				}
				return
			}
			for i := 0; i < v.Len(); i++ {
				walk(v.Index(i))
			}
		case reflect.Int32, reflect.Int64:
			if v.CanSet() {
				v.SetInt(v.Int() + 0x55)
			}
		case reflect.Uint32:
			if v.CanSet() {
				v.SetUint(uint64(uint32(v.Uint()) + 0x55))
			}
		case reflect.Float64:
			if v.CanSet() {
				v.SetFloat(math.Float64frombits(math.Float64bits(v.Float()) + 0x55))
			}
		case reflect.Bool:
			if v.CanSet() {
				v.SetBool(!v.Bool())
			}
		case reflect.String:
			if v.CanSet() {
				v.SetString(v.String() + "U")
			}
		}
	}
	walk(v)
}

func c01DagExec(op []string) string {
	if len(op) != 4 || !c01DagPlans[op[3]] {
		return "bad-op"
	}
	var id uint32
	fmt.Sscanf(op[1], "%x", &id)
	c := reg.ByID()[id]
	if c == nil || c.Kind != "struct" || !strings.HasPrefix(op[2], "o"+op[1]+"(") {
		return "bad-op"
	}
	root := reflect.New(tObject).Elem()
	root.Set(parseTLValue(tObject, op[2]))
	var arenas []reflect.Value
	switch op[3] {
	case "hc":
		c01Share(root, true)
	case "hcp":
		c01Share(root, false)
	case "arena":
		arenas = c01Carve(root, true)
	case "arena3":
		arenas = c01Carve(root, false)
	case "tnil":
		c01TypedNils(root)
		x := root.Interface()
		return "enc=" + tlOutcome(func() (string, error) {
			b, err := tl.Marshal(x)
			return showBytes(b), err
		})
	}
	x := root.Interface()
	arenaText := func() string {
		var parts []string
		for _, a := range arenas {
			parts = append(parts, dumpVal(a))
		}
		return strings.Join(parts, "|")
	}
	argBefore, arenaBefore := dumpAny(x), arenaText()
	var enc []byte
	encS := tlOutcome(func() (string, error) {
		b, err := tl.Marshal(x)
		enc = b
		return showBytes(b), err
	})
	if encS == "panic" {
		return "enc=panic"
	}
	var twinEnc []byte
	twinS := tlOutcome(func() (string, error) {
		b, err := tl.Marshal(parseTLValue(tObject, op[2]).Interface())
		twinEnc = b
		return showBytes(b), err
	})
	switch {
	case encS == "err" && twinS == "err":
		return "enc=err"
	case encS == "err":
		return "enc=err tree=ok"
	case twinS == "err" || twinS == "panic":
		return "enc=" + encS + " tree=" + twinS
	}
	word := func(ok bool, good, bad string) string {
		if ok {
			return good
		}
		return bad
	}
	encCopy := append([]byte{}, enc...)
	tree := word(bytes.Equal(enc, twinEnc), "same", "diff")
	arg := word(dumpAny(x) == argBefore && arenaText() == arenaBefore, "same", "changed")
	enc2, err2 := tl.Marshal(x)
	again := word(err2 == nil && bytes.Equal(enc, enc2), "same", "diff")

	// the two ways of decoding, each from a buffer of its own
	type dec struct {
		val reflect.Value
		out string
	}
	decNamed := func(data []byte) dec {
		var d dec
		d.out = tlOutcome(func() (string, error) {
			res := reflect.New(c.Type.Elem())
			err := tl.Decode(data, res.Interface())
			d.val = res
			return dumpVal(res), err
		})
		return d
	}
	decUnknown := func(data []byte) dec {
		var d dec
		d.out = tlOutcome(func() (string, error) {
			o, err := tl.DecodeUnknownObject(data)
			if err != nil {
				return "", err
			}
			d.val = reflect.ValueOf(o)
			return dumpAny(o), nil
		})
		return d
	}
	redump := func(d dec) string {
		return tlOutcome(func() (string, error) {
			if d.val.Kind() == reflect.Slice {
				return dumpVal(d.val), nil
			}
			return dumpDyn(d.val), nil
		})
	}
	inp, twice, indep := "same", "same", "same"
	var outs [2]string
	for k, decode := range []func([]byte) dec{decNamed, decUnknown} {
		data := append([]byte{}, encCopy...)
		d1 := decode(data)
		outs[k] = d1.out
		if d1.out == "err" || d1.out == "panic" || !d1.val.IsValid() {
			continue
		}
		for i := range data {
			data[i] += 0x55
		}
		if redump(d1) != d1.out {
			inp = "changed"
		}
		d2 := decode(append([]byte{}, encCopy...))
		if d2.out != d1.out {
			twice = "diff"
			continue
		}
		c01Scribble(d1.val)
		if redump(d2) != d2.out {
			indep = "changed"
		}
	}
	// the caller goes on using its value: what Marshal returned is no longer its business
	c01Scribble(reflect.ValueOf(x))
	for _, a := range arenas {
		c01Scribble(a)
	}
	ret := word(bytes.Equal(enc, encCopy), "same", "changed")
	return fmt.Sprintf("enc=%s tree=%s arg=%s again=%s named=%s unknown=%s inp=%s twice=%s indep=%s ret=%s",
		encS, tree, arg, again, outs[0], outs[1], inp, twice, indep, ret)
}

// c01DagJudge: the law on the real code's results, independent of the Lean model: a value is serialised exactly
// like the tree it unfolds to (the twin), the round trip returns the tree, and what the codec returned does not
// change under the caller's hands.
func c01DagJudge(op []string, out string) string {
	if len(op) != 4 || out == "bad-op" {
		return ""
	}
	if op[3] == "tnil" || out == "enc=err" {
		return "" // no encoding either way (panics were reported by the caller)
	}
	how := map[string]string{
		"hc": "in which one object / slice occurs at several places", "hcp": "in which one object occurs at several places",
		"arena": "whose slices are cut from one backing array (capacities reaching over the neighbours)",
		"arena3": "whose slices are cut from one backing array", "tree": "built as a tree",
	}[op[3]]
	f := map[string]string{}
	for _, part := range strings.Fields(out) {
		if kv := strings.SplitN(part, "=", 2); len(kv) == 2 {
			f[kv[0]] = kv[1]
		}
	}
	switch {
	case f["enc"] == "err" && f["tree"] == "ok":
		return "tl.Marshal refuses a value " + how + " although the same value built from separate equal objects is serialised: there are no bytes to decode"
	case f["tree"] == "err" || f["tree"] == "panic":
		return "tl.Marshal serialises a value " + how + " although the same value built from separate equal objects is refused"
	case f["tree"] == "diff":
		return "a value " + how + " is serialised differently from the same value built from separate equal objects"
	}
	for _, k := range []struct{ key, good, why string }{
		{"tree", "same", ""},
		{"arg", "same", "tl.Marshal changed its argument (the value or the spare capacity of its slices)"},
		{"again", "same", "serialising the same value twice gave different bytes"},
		{"inp", "same", "a decoded value changed when the input bytes were overwritten after decoding: it is not the value that was encoded any more"},
		{"twice", "same", "decoding the same bytes twice gave different values"},
		{"indep", "same", "two decodings of the same bytes share state: overwriting one result changed the other"},
		{"ret", "same", "the bytes tl.Marshal returned changed when the caller changed the argument afterwards: decoding them no longer returns the value that was encoded"},
	} {
		if f[k.key] != k.good {
			if k.why == "" {
				return "malformed result: " + clip(out)
			}
			return k.why + " (value " + how + ")"
		}
	}
	v := parseTLValue(tObject, op[2])
	if !isCanonicalBy(v, c01SchemaFields) {
		return ""
	}
	want := eraseNil(op[2])
	for _, k := range []string{"named", "unknown"} {
		if eraseNil(f[k]) != want {
			return fmt.Sprintf("decoding (%s) the encoded value (%s) does not return the original: got %s", k, how, clip(f[k]))
		}
	}
	return ""
}

// ---- generation -------------------------------------------------------------------------------------

type c01Slot struct {
	v      reflect.Value // a settable position
	path   string        // positions from the root, e.g. /2/0/1
	parent string
	inVec  bool
	kind   string // obj | big | bytes | slice
}

// c01Dyn: the pointer a position of kind obj holds
func c01Dyn(v reflect.Value) reflect.Value {
	if v.Kind() == reflect.Interface {
		return v.Elem()
	}
	return v
}

func c01Slots(v reflect.Value, path, parent string, inVec bool, out *[]c01Slot) {
	add := func(kind string) {
		if v.CanSet() && path != "" {
			*out = append(*out, c01Slot{v: v, path: path, parent: parent, inVec: inVec, kind: kind})
		}
	}
	switch v.Kind() {
	case reflect.Interface, reflect.Ptr:
		if v.IsNil() {
			return
		}
		p := c01Dyn(v)
		if p.Kind() == reflect.Ptr && !p.IsNil() && (p.Type() == tInt128 || p.Type() == tInt256) {
			add("big")
			return
		}
		if !c01IsObjPtr(p) {
			return
		}
		add("obj")
		st := p.Elem()
		for i := 0; i < st.NumField(); i++ {
			if st.Field(i).CanSet() {
				c01Slots(st.Field(i), fmt.Sprintf("%s/%d", path, i), path, false, out)
			}
		}
	case reflect.Slice:
		if v.IsNil() || v.Len() == 0 {
			return
		}
		if v.Type() == tBytes {
			add("bytes")
			return
		}
		add("slice")
		for i := 0; i < v.Len(); i++ {
			c01Slots(v.Index(i), fmt.Sprintf("%s/%d", path, i), path, true, out)
		}
	}
}

// c01DagOps: values in which the content of one position is put into another position that can hold it - both
// then print the same text and `hc` makes them one Go object. Classes (each filled to the same count, constructors
// drawn at random): two fields of one object, two elements of one vector, positions at different depths, one
// pointer in a field of the pointer type AND inside an interface, a constructor without fields at two places, one
// 128/256-bit integer, one slice, one byte string at two places; values with at least two non-empty slices for
// the arena plans; values with a nil where an interface value has to be for the typed nils.
func c01DagOps(g *G, tg *tlGen) {
	saveCanon, saveBig := tg.alwaysCanon, tg.bigStrings
	tg.alwaysCanon, tg.bigStrings = true, false
	defer func() { tg.alwaysCanon, tg.bigStrings = saveCanon, saveBig }()
	var cs []*reg.Ctor
	all := reg.All()
	for i := range all {
		if all[i].Kind == "struct" && marshalable(&all[i]) {
			cs = append(cs, &all[i])
		}
	}
	if len(cs) == 0 {
		return
	}
	classes := []string{"two-fields", "two-elements", "nested", "pointer-and-interface", "fieldless", "big", "slice", "bytes", "arena", "typed-nil"}
	want := g.N(12, 150)
	have := map[string]int{}
	disjoint := func(a, b c01Slot) bool {
		return a.path != b.path && !strings.HasPrefix(a.path, b.path+"/") && !strings.HasPrefix(b.path, a.path+"/")
	}
	const maxText = 12000
	for tries := 0; tries < 40000; tries++ {
		done := true
		for _, k := range classes {
			done = done && have[k] >= want
		}
		if done {
			break
		}
		c := cs[g.R.Intn(len(cs))]
		obj := tg.object(c, g.R.Intn(tg.maxDepth))
		root := reflect.New(tObject).Elem()
		root.Set(obj)
		var slots []c01Slot
		c01Slots(root.Elem(), "", "", false, &slots)
		if len(slots) == 0 || len(slots) > 300 {
			continue
		}
		if !isCanonicalBy(obj, c01SchemaFields) {
			continue
		}
		text := dumpDyn(obj)
		if len(text) > maxText {
			continue
		}
		// values as they are: slices cut from one array
		nSlices := 0
		for _, s := range slots {
			if s.kind == "bytes" || s.kind == "slice" {
				nSlices++
			}
		}
		if nSlices >= 2 && have["arena"] < want {
			have["arena"]++
			g.Emit(fmt.Sprintf("c01.dag %08x %s arena", c.ID, text), "alias", "alias:arena")
			g.Emit(fmt.Sprintf("c01.dag %08x %s arena3", c.ID, text), "alias", "alias:arena3")
			continue
		}
		// a nil where an interface value has to be
		if have["typed-nil"] < want {
			var cand []c01Slot
			for _, s := range slots {
				if s.kind == "obj" && s.v.Kind() == reflect.Interface && (s.inVec || s.parent == "") {
					cand = append(cand, s)
				}
			}
			if len(cand) > 0 {
				s := cand[g.R.Intn(len(cand))]
				mandatory := s.inVec
				if !mandatory { // a field of the root object
					var fi int
					fmt.Sscanf(s.path, "/%d", &fi)
					mandatory = fi < len(c.Fields) && !c.Fields[fi].HasFlag && !c.Fields[fi].Ignore
				}
				if mandatory {
					s.v.Set(reflect.Zero(s.v.Type()))
					have["typed-nil"]++
					t2 := dumpDyn(obj)
					g.Emit(fmt.Sprintf("c01.dag %08x %s tnil", c.ID, t2), "alias", "alias:typed-nil")
					// control: the same value with a PLAIN nil. Only at a field: a plain nil interface ELEMENT of a vector
					// makes tl.Marshal panic (reflect: call of reflect.Value.Interface on zero Value) where a nil
					// field is refused with "value can't be nil" - a value outside WellTyped (DESIGN.md, readings of
					// C01: never called a violation), recorded as an observation in DESIGN.md 10.3
					if have["typed-nil"]%4 == 1 && !s.inVec {
						g.Emit(fmt.Sprintf("c01.dag %08x %s tree", c.ID, t2), "alias", "alias:nil-control")
					}
					continue
				}
			}
		}
		type pair struct{ s, t c01Slot }
		byClass := map[string][]pair{}
		texts := make([]string, len(slots))
		for i, s := range slots {
			texts[i] = dumpVal(s.v)
		}
		for si, s := range slots {
			for ti, t := range slots {
				if si == ti || !disjoint(s, t) || texts[si] == texts[ti] {
					continue
				}
				k := ""
				switch s.kind {
				case "obj":
					if t.kind != "obj" || !c01Dyn(s.v).Type().AssignableTo(t.v.Type()) {
						continue
					}
					switch {
					case c01Dyn(s.v).Elem().NumField() == 0:
						k = "fieldless"
					case s.v.Kind() != t.v.Kind():
						k = "pointer-and-interface"
					case s.parent == t.parent && s.inVec:
						k = "two-elements"
					case s.parent == t.parent:
						k = "two-fields"
					default:
						k = "nested"
					}
				default:
					if t.kind != s.kind || s.v.Type() != t.v.Type() {
						continue
					}
					k = s.kind
				}
				if have[k] < want {
					byClass[k] = append(byClass[k], pair{s, t})
				}
			}
		}
		k := ""
		for _, kk := range classes {
			if len(byClass[kk]) > 0 && (k == "" || have[kk] < have[k]) {
				k = kk
			}
		}
		if k == "" {
			continue
		}
		p := byClass[k][g.R.Intn(len(byClass[k]))]
		if p.s.kind == "obj" {
			p.t.v.Set(c01Dyn(p.s.v))
		} else {
			p.t.v.Set(p.s.v)
		}
		text = dumpDyn(obj)
		if !isCanonicalBy(obj, c01SchemaFields) || len(text) > maxText {
			continue
		}
		have[k]++
		g.Emit(fmt.Sprintf("c01.dag %08x %s hc", c.ID, text), "alias", "alias:"+k)
		switch have[k] % 4 {
		case 1:
			g.Emit(fmt.Sprintf("c01.dag %08x %s tree", c.ID, text), "alias", "alias:control")
		case 2:
			g.Emit(fmt.Sprintf("c01.dag %08x %s hcp", c.ID, text), "alias", "alias:pointers-only")
		case 3:
			g.Emit(fmt.Sprintf("c01.dag %08x %s arena", c.ID, text), "alias", "alias:arena")
		}
	}
	g.Extra["alias_classes"] = have
}
