package main

// C15, allocation clause: the tie between the model's COST SEMANTICS (lean/Mtv/TL/DecodeCost.lean; theorems
// cost_erasure, decode_alloc_linear, decode_alloc_linear_named in lean/Mtv/Props/C15Cost.lean) and what the real
// decoder allocates.
//
//   c15.cost u <bytes> <hints> <gz>     tl.DecodeUnknownObject(bytes, hints...)
//   c15.cost n <id> <bytes> <gz>        tl.Decode(bytes, new(T)) for the registered struct id
//
// Result line: `<result as c15.unk / c15.named> ## cost=<alloc units>,<gunzip calls>,<bytes gunzip produced>`.
// The result is the real decoder's (compared with the model's as for every operation); the three numbers are the
// model's: the Go side asks the Lean driver of this run (the executable built from the same sources as the
// theorems; one process, one line in, one line out) for the line of this very operation and takes the numbers from
// it. Judge: the bytes the real call allocated (runtime.MemStats.TotalAlloc around the decode alone - the dump of
// the result is not in it) are at most
//
//      c15CostK·alloc + c15CostZ·gzCalls + c15CostG·gzOut + c15CostSlack.
//
// With decode_alloc_linear (alloc + (F+2)·gzCalls ≤ (F+3)·(len + gzOut) + 2F + 2 for EVERY input) this makes the
// measured allocation of a decode linear in the input and in what its packed objects really inflate to - with the
// model's count of the call in between, so that a decoder that allocates where the model does not (a count taken
// on trust, a copy per level) breaks the relation on the input that shows it.
//
// The constants (bytes per unit), from the sizes of the Go values the units stand for (go1.2x, 64 bit):
//   K = 1024 per allocation unit. On the success path a unit is a copied byte (1 byte; NewDecoder's ioutil.ReadAll
//       grows its buffer from 512 bytes by doubling: at most 4 bytes allocated per byte read beyond the first 512,
//       which are in the slack), a struct field slot (at most 24 bytes, a slice header; `reflect.New` of the struct
//       and the second one decodeObject makes for FlagIndex are the two `structUnits`), or a vector element: the
//       `reflect.New` of it (<= 16 bytes for an interface or a pointer), the boxing of the decoded word into `any`
//       (8), `reflect.Append` doubling the slice (<= 3 x 24 amortised) and the reflect.Value conversions (<= 48) -
//       under 160 bytes. What needs the 1024 is the FAILURE path: every enclosing decodeObject / decodeValue /
//       decodeRegisteredObject wraps the error once or twice (pkg/errors: a withMessage, a withStack holding 32
//       program counters = 256 bytes + the formatted text, about 450 bytes each), and every such enclosing call has
//       charged at least 1 unit (its struct) on the way in: 2 x 450 < 1024.
//   Z = 96 KiB per gunzip call: compress/flate's decompressor (about 44 KiB with its 32 KiB window), gzip.Reader
//       with a bufio.Reader (4 KiB), and the 4 KiB chunk + first output buffer of GzipPacked.popMessageAsBytes.
//   G = 48 per byte gunzip produced beyond what `alloc` already counts for it: the output grows by append in 4 KiB
//       steps (doubling: <= 4 x), measured 25 (c15deep.go); the copy NewDecoder makes of it and everything decoded
//       from it are units of `alloc`.
//   slack = 64 KiB: the first 512-byte buffers of ioutil.ReadAll per decoder (at most 5 levels), the Decoder and
//       bytes.Reader values, an ErrRegisteredObjectNotFound with its dump, and the noise of measuring TotalAlloc
//       in a process with other goroutines (the harness's timer).
// The same numbers for every input.

import (
	"bufio"
	"fmt"
	"io"
	"os"
	"os/exec"
	"reflect"
	"runtime"
	"strings"

	"github.com/xelaj/mtproto/internal/encoding/tl"

	"github.com/xelaj/mtproto/verifharness/internal/reg"
)

const (
	c15CostK     = 1024
	c15CostZ     = 96 << 10
	c15CostG     = 48
	c15CostSlack = 64 << 10
	c15CostMark  = " ## cost="
)

var (
	c15CostAlloc   uint64
	c15CostMaxPerm uint64
	c15Drv         *exec.Cmd
	c15DrvIn       io.WriteCloser
	c15DrvOut      *bufio.Reader
	c15DrvErr      string
)

// c15DriverPath: the Lean driver of this run (checks/c15.py exports it; the default is where lake puts it)
func c15DriverPath() string {
	if p := os.Getenv("VERIF_C15_DRIVER"); p != "" {
		return p
	}
	return "/verif/lean/.lake/build/bin/drv-c15"
}

// c15ModelLine: what the Lean model answers to one operation line
func c15ModelLine(op []string) (string, bool) {
	if c15Drv == nil && c15DrvErr == "" {
		cmd := exec.Command(c15DriverPath())
		in, e1 := cmd.StdinPipe()
		out, e2 := cmd.StdoutPipe()
		if e1 != nil || e2 != nil {
			c15DrvErr = "pipes"
		} else if err := cmd.Start(); err != nil {
			c15DrvErr = "start"
		} else {
			c15Drv, c15DrvIn, c15DrvOut = cmd, in, bufio.NewReaderSize(out, 1<<20)
		}
	}
	if c15Drv == nil {
		return c15DrvErr, false
	}
	if _, err := io.WriteString(c15DrvIn, strings.Join(op, " ")+"\n"); err != nil {
		c15Drv, c15DrvErr = nil, "write"
		return c15DrvErr, false
	}
	line, err := c15DrvOut.ReadString('\n')
	if err != nil {
		c15Drv, c15DrvErr = nil, "read"
		return c15DrvErr, false
	}
	return strings.TrimRight(line, "\r\n"), true
}

func c15CostExec(op []string) string {
	var m0, m1 runtime.MemStats
	c15CostAlloc = 0
	var out string
	switch {
	case len(op) == 5 && op[1] == "u":
		bs, hints := parseBytes(op[2]), c15Hints(op[3])
		out = tlOutcome(func() (string, error) {
			runtime.ReadMemStats(&m0)
			o, err := tl.DecodeUnknownObject(bs, hints...)
			runtime.ReadMemStats(&m1)
			c15CostAlloc = m1.TotalAlloc - m0.TotalAlloc
			if err != nil {
				return "", err
			}
			return dumpAny(o), nil
		})
	case len(op) == 5 && op[1] == "n":
		var id uint32
		fmt.Sscanf(op[2], "%x", &id)
		c := reg.ByID()[id]
		if c == nil || c.Kind != "struct" {
			return "bad-op"
		}
		bs := parseBytes(op[3])
		out = tlOutcome(func() (string, error) {
			runtime.ReadMemStats(&m0)
			res := reflect.New(c.Type.Elem())
			err := tl.Decode(bs, res.Interface())
			runtime.ReadMemStats(&m1)
			c15CostAlloc = m1.TotalAlloc - m0.TotalAlloc
			return dumpVal(res), err
		})
	default:
		return "bad-op"
	}
	line, ok := c15ModelLine(op)
	if !ok {
		return out + c15CostMark + "no-model:" + line
	}
	i := strings.LastIndex(line, c15CostMark)
	if i < 0 {
		return out + c15CostMark + "no-model-cost"
	}
	return out + line[i:]
}

func c15CostJudge(op []string, out string) string {
	if strings.HasPrefix(out, "panic") {
		return "decoding panicked"
	}
	if strings.HasPrefix(out, "bad-op") {
		return ""
	}
	i := strings.LastIndex(out, c15CostMark)
	if i < 0 {
		return ""
	}
	var a, z, g uint64
	if n, _ := fmt.Sscanf(out[i+len(c15CostMark):], "%d,%d,%d", &a, &z, &g); n != 3 {
		return "" // the model's cost is not at hand: the line differs from the model's and is reported as such
	}
	bound := c15CostK*a + c15CostZ*z + c15CostG*g + c15CostSlack
	if p := c15CostAlloc * 1000 / bound; p > c15CostMaxPerm {
		c15CostMaxPerm = p
	}
	if lg := os.Getenv("VERIF_C15_COSTLOG"); lg != "" {
		// calibration aid: measured bytes and the model's three numbers, one line per operation
		if f, err := os.OpenFile(lg, os.O_APPEND|os.O_CREATE|os.O_WRONLY, 0o644); err == nil {
			fmt.Fprintf(f, "%d %d %d %d %d\n", c15CostAlloc, a, z, g, bound)
			f.Close()
		}
	}
	if c15CostAlloc > bound {
		return fmt.Sprintf("the decode allocated %d bytes; the model counts %d allocation units, %d gunzip calls, %d bytes produced by gunzip: bound %d*%d + %d*%d + %d*%d + %d = %d bytes",
			c15CostAlloc, a, z, g, c15CostK, a, c15CostZ, z, c15CostG, g, c15CostSlack, bound)
	}
	return ""
}
