package main

// C07 — key exchange aborts on any inconsistent server reply and persists nothing.
//
// One operation = one exchange of the REAL client with the replay server of x_hsserver.go, which
// answers the client's i-th request with the i-th prepared reply body:
//
//   c07.hs <tag> <nonce> <new_nonce> <b> <padseed> <pad16> <n> <e> <p> <q> <reply1> <reply2> <reply3>
//
// client draws as in C06; (n, e) the public key the client is configured with; p q: the factors of
// the pq of reply 1 (what SplitPQ returns — the factoring is a parameter of the Lean model; "- -"
// when that pq has no factorisation into two primes); the three reply bodies in full (hex).
// The generator builds the replies as a conformant server's answers (hsHonest) with ONE fault: a
// reply field corrupted (bit flip / fresh random / the other nonce / zero), no matching
// fingerprint, a bad SHA-1 prefix or length of the encrypted answer, a wrong new_nonce_hash1, an
// alternative constructor, an rpc_error. The replies are data of the operation, so a replay is exact.
// Further: an echoed nonce / server_nonce / new_nonce_hash1 that differs from the right value only in WHERE its zero
// bytes are (c07GenZeroMoves: 00||X echoed as X||00 and the like, at every reply field that echoes one), and
// fingerprint lists made of near misses of the client's key - same modulus other exponent, same exponent other
// modulus, the own fingerprint mangled (c07GenNearMisses) - for client keys with public exponents of 1 to 4 bytes.
//
// Several exchanges of one process in ONE operation:
//
//   c07.seq <tag> <keyobj> <k> { <the 12 tokens of a c07.hs after its tag> } x k
//
// <keyobj>: how the caller holds the public key it configures its clients with (hsKeyObj): a new object for
// every exchange (fresh), or ONE rsa.PublicKey object that is given the next key before each exchange (slot:
// struct assignment; setn: the modulus overwritten in place). Each exchange is judged on its own replies and the
// key the client was configured with AT THAT TIME: replies that offer only the fingerprint of the key the object
// held earlier are inconsistent. A consistent exchange inside a sequence must succeed and store the session the
// replies determine. Result: the results of the exchanges, " | " between them.
//
// A tag ending in `+after`: the SERVER keeps talking after the client gave the exchange up. A tag ending in `+req` /
// `+retry`: the CLIENT side of the aftermath - the application goes on using the object whose key exchange failed
// (hsPlan.After): it issues a request through MakeRequest (+req), or calls CreateConnection a second time - the replay
// server plays its script again on the new connection, which cannot fit the fresh nonce - and then issues a request
// (+retry). The calls run on goroutines of their own (they may block or fail); the server answers nothing any more
// and logs, for a bounded time, every frame the client writes: none may be an encrypted message (auth_key_id != 0) -
// no exchange has confirmed a key -, nothing may be stored, the client may not be in encrypted mode. The result line
// is that of the exchange (the frames up to the return of CreateConnection); what comes later is the oracle's.
//
// Judge: hsJudgeReplies decides from the protocol description whether the reply sequence is
// consistent; if not, the client must have returned an error (no panic, no hang, no success), stored
// no session, left `encrypted` off and sent no encrypted frame.

import (
	"bytes"
	"crypto/rsa"
	"encoding/binary"
	"fmt"
	"math/big"
	"math/bits"
	"strconv"
	"strings"
)

var (
	c07Last []*hsRun // the runs of the last operation, one per exchange
)

type c07Case struct {
	D     hsDraws
	Pad16 []byte
	Pub   rsa.PublicKey
	P, Q  string
	R     [][]byte
}

func c07Op(tag string, d *hsDraws, pub *rsa.PublicKey, p, q string, r [3][]byte) string {
	return strings.Join([]string{"c07.hs", tag,
		hexD(d.Nonce), hexD(d.NewNonce), hexD(d.B), strconv.FormatInt(d.PadSeed, 10), hexD(hsPad16(d.PadSeed)),
		hexD(pub.N.Bytes()), strconv.Itoa(pub.E), p, q, hexD(r[0]), hexD(r[1]), hexD(r[2])}, " ")
}

func c07Parse(op []string) (c *c07Case, ok bool) {
	if len(op) != 14 || op[0] != "c07.hs" {
		return nil, false
	}
	defer func() {
		if recover() != nil {
			c, ok = nil, false
		}
	}()
	c = &c07Case{}
	c.D.Nonce, c.D.NewNonce, c.D.B = parseBytes(op[2]), parseBytes(op[3]), parseBytes(op[4])
	ps, err := strconv.ParseInt(op[5], 10, 64)
	if err != nil {
		return nil, false
	}
	c.D.PadSeed = ps
	c.Pad16 = parseBytes(op[6])
	c.Pub = rsa.PublicKey{N: new(big.Int).SetBytes(parseBytes(op[7])), E: atoi(op[8])}
	c.P, c.Q = op[9], op[10]
	c.R = [][]byte{parseBytes(op[11]), parseBytes(op[12]), parseBytes(op[13])}
	ok = len(c.D.Nonce) == 16 && len(c.D.NewNonce) == 32 && len(c.D.B) == 256 && len(c.Pad16) == 16 &&
		c.Pub.N.BitLen() == 2048 && bytes.Equal(c.Pad16, hsPad16(c.D.PadSeed))
	return c, ok
}

// ---- factoring of a (possibly corrupted) pq, for the hint -------------------------------------------

func c07MulMod(a, b, m uint64) uint64 {
	hi, lo := bits.Mul64(a, b)
	_, r := bits.Div64(hi%m, lo, m)
	return r
}

func c07IsPrime(n uint64) bool { return new(big.Int).SetUint64(n).ProbablyPrime(0) }

func c07Gcd(a, b uint64) uint64 {
	for b != 0 {
		a, b = b, a%b
	}
	return a
}

// c07Factor2: n = p*q with p <= q both prime.
func c07Factor2(n uint64) (p, q uint64, ok bool) {
	if n < 4 || c07IsPrime(n) {
		return 0, 0, false
	}
	f := uint64(0)
	for d := uint64(2); d < 5000 && f == 0; d++ {
		if n%d == 0 {
			f = d
		}
	}
	for c := uint64(1); f == 0 && c < 64; c++ {
		x, y, g := uint64(2), uint64(2), uint64(1)
		for g == 1 {
			x = (c07MulMod(x, x, n) + c) % n
			y = (c07MulMod(y, y, n) + c) % n
			y = (c07MulMod(y, y, n) + c) % n
			d := x - y
			if y > x {
				d = y - x
			}
			g = c07Gcd(d, n)
		}
		if g != n {
			f = g
		}
	}
	if f == 0 {
		return 0, 0, false
	}
	p, q = f, n/f
	if p > q {
		p, q = q, p
	}
	return p, q, c07IsPrime(p) && c07IsPrime(q)
}

func c07Hint(pq []byte) (string, string) {
	if len(pq) > 8 {
		return "-", "-"
	}
	n := new(big.Int).SetBytes(pq).Uint64()
	p, q, ok := c07Factor2(n)
	if !ok || p == q {
		return "-", "-"
	}
	return strconv.FormatUint(p, 10), strconv.FormatUint(q, 10)
}

// ---- faults ---------------------------------------------------------------------------------------

// c07Corrupt: one of the four corruptions of a fixed-width field; other = "the other nonce".
func c07Corrupt(r *Rand, kind string, v, other []byte) []byte {
	out := append([]byte{}, v...)
	switch kind {
	case "flip":
		i := r.Intn(len(v) * 8)
		out[i/8] ^= 1 << uint(i%8)
	case "flipfirst":
		out[0] ^= 0x80
	case "fliplast":
		out[len(out)-1] ^= 1
	case "random":
		for {
			out = r.Bytes(len(v))
			if !bytes.Equal(out, v) {
				break
			}
		}
	case "other":
		out = make([]byte, len(v))
		copy(out, other)
	case "zero":
		out = make([]byte, len(v))
	}
	return out
}

var c07Kinds = []string{"flip", "random", "other", "zero"}

type c07Base struct {
	c  *hsCase
	h  hsHonestOut
	gB *big.Int
}

func c07NewBase(r *Rand, key *rsa.PrivateKey) *c07Base {
	return c07NewBaseWith(r, key, nil)
}

// c07NewBaseWith: the same, the draws / secrets adjusted by prep before the conformant replies are computed
func c07NewBaseWith(r *Rand, key *rsa.PrivateKey, prep func(c *hsCase)) *c07Base {
	c := hsRandomCase(r, key)
	c.S.LaterFps = nil
	if prep != nil {
		prep(c)
	}
	gB := new(big.Int).Exp(big.NewInt(int64(c.S.G)), new(big.Int).SetBytes(c.D.B), c.S.DhPrime)
	return &c07Base{c: c, gB: gB, h: hsHonest(&c.S, c.D.Nonce, c.D.NewNonce, gB)}
}

// ---- values that differ only in WHERE their zero bytes are ------------------------------------------------
//
// A nonce is a 128-bit string. Code that handles it as a number (big.Int) and goes back to bytes loses the leading
// zero bytes; code that then restores the width on the wrong side, or compares what is left, takes 00||X for X||00.
// c07ZeroMoves: the right value has `lead` zero bytes in front and `trail` at the end (non-zero next to them); the
// echoed value is the right one rotated by `shift` bytes (negative: to the left) - a rotation that moves zero bytes
// only, so both have the same non-zero bytes in the same order, and they are different 128-bit strings.
var c07ZeroMoves = []struct {
	name        string
	lead, trail int
	shift       int
}{
	{"lead1-left1", 1, 0, -1},
	{"lead2-left2", 2, 0, -2},
	{"lead2-left1", 2, 0, -1},
	{"lead3-left3", 3, 0, -3},
	{"trail1-right1", 0, 1, 1},
	{"trail2-right2", 0, 2, 2},
	{"lead1trail1-left1", 1, 1, -1},
	{"lead1trail1-right1", 1, 1, 1},
}

// c07ZeroShape: n bytes with exactly lead leading and trail trailing zero bytes
func c07ZeroShape(r *Rand, n, lead, trail int) []byte {
	b := r.Bytes(n)
	for i := 0; i < lead; i++ {
		b[i] = 0
	}
	for i := 0; i < trail; i++ {
		b[n-1-i] = 0
	}
	if b[lead] == 0 {
		b[lead] = byte(1 + r.Intn(255))
	}
	if b[n-1-trail] == 0 {
		b[n-1-trail] = byte(1 + r.Intn(255))
	}
	return b
}

// c07Rotate: v rotated by k bytes (k < 0: to the left)
func c07Rotate(v []byte, k int) []byte {
	n := len(v)
	out := make([]byte, n)
	for i := range v {
		out[((i+k)%n+n)%n] = v[i]
	}
	return out
}

// c07ForceHash: the server's DH secret counted upwards until new_nonce_hash1 has the shape (lead, trail <= 1)
func c07ForceHash(c *hsCase, lead, trail int) bool {
	P := c.S.DhPrime
	gB := new(big.Int).Exp(big.NewInt(int64(c.S.G)), new(big.Int).SetBytes(c.D.B), P)
	x := new(big.Int).Exp(gB, c.S.A, P)
	for i := 0; i < 1<<20; i++ {
		h := hsNonceHash(c.D.NewNonce, 1, hsFixed(x, 256))
		if (h[0] == 0) == (lead > 0) && (h[15] == 0) == (trail > 0) && h[1] != 0 && h[14] != 0 {
			return true
		}
		c.S.A.Add(c.S.A, big.NewInt(1))
		x.Mul(x, gB).Mod(x, P)
	}
	return false
}

// c07GenZeroMoves: every reply field that echoes a nonce (the seven nonce / server_nonce checks) and the hash of the
// last reply, echoed with its zero bytes moved. The server chooses server_nonce; the client's nonce is a draw of the
// operation (the harness delivers the client's randomness), so both can be given the shape.
func c07GenZeroMoves(g *G, r *Rand) {
	intB := func(x *big.Int, s *hsSecrets) []byte { return hsIntBytes(x, s.Minimal) }
	for _, mv := range c07ZeroMoves {
		mv := mv
		onNonce := func() *c07Base {
			return c07NewBaseWith(r, c07NextKey(), func(c *hsCase) { c.D.Nonce = c07ZeroShape(r, 16, mv.lead, mv.trail) })
		}
		onServerNonce := func() *c07Base {
			return c07NewBaseWith(r, c07NextKey(), func(c *hsCase) { c.S.ServerNonce = c07ZeroShape(r, 16, mv.lead, mv.trail) })
		}
		kind := ":zeros-" + mv.name
		rot := func(v []byte) []byte { return c07Rotate(v, mv.shift) }

		b := onNonce()
		s, d := &b.c.S, &b.c.D
		rr := b.h.R
		rr[0] = hsResPQ(rot(d.Nonce), s.ServerNonce, s.pqBytes(), append(append([]uint64{}, s.ExtraFps...), b.h.Fingerprint))
		b.emit(g, "resPQ.nonce"+kind, rr, "resPQ", "field:nonce", "zero-bytes-moved")

		b = onNonce()
		s, d = &b.c.S, &b.c.D
		rr = b.h.R
		rr[1] = hsDHOk(rot(d.Nonce), s.ServerNonce, b.h.EncAnswer)
		b.emit(g, "dhOk.nonce"+kind, rr, "dhOk", "field:nonce", "zero-bytes-moved")

		b = onServerNonce()
		s, d = &b.c.S, &b.c.D
		rr = b.h.R
		rr[1] = hsDHOk(d.Nonce, rot(s.ServerNonce), b.h.EncAnswer)
		b.emit(g, "dhOk.server_nonce"+kind, rr, "dhOk", "field:server_nonce", "zero-bytes-moved")

		b = onNonce()
		s, d = &b.c.S, &b.c.D
		rr = b.h.R
		rr[1] = b.rewrap(hsInnerData(rot(d.Nonce), s.ServerNonce, s.G, intB(s.DhPrime, s), intB(s.gA(), s), s.ServerTime))
		b.emit(g, "inner.nonce"+kind, rr, "inner", "field:nonce", "zero-bytes-moved")

		b = onServerNonce()
		s, d = &b.c.S, &b.c.D
		rr = b.h.R
		rr[1] = b.rewrap(hsInnerData(d.Nonce, rot(s.ServerNonce), s.G, intB(s.DhPrime, s), intB(s.gA(), s), s.ServerTime))
		b.emit(g, "inner.server_nonce"+kind, rr, "inner", "field:server_nonce", "zero-bytes-moved")

		b = onNonce()
		s, d = &b.c.S, &b.c.D
		rr = b.h.R
		rr[2] = hsTriple(hsIDDHGenOk, rot(d.Nonce), s.ServerNonce, b.h.NonceHash1)
		b.emit(g, "dhGen.nonce"+kind, rr, "dhGen", "field:nonce", "zero-bytes-moved")

		b = onServerNonce()
		s, d = &b.c.S, &b.c.D
		rr = b.h.R
		rr[2] = hsTriple(hsIDDHGenOk, d.Nonce, rot(s.ServerNonce), b.h.NonceHash1)
		b.emit(g, "dhGen.server_nonce"+kind, rr, "dhGen", "field:server_nonce", "zero-bytes-moved")

		if mv.lead+mv.trail == 1 {
			forced := true
			b = c07NewBaseWith(r, c07NextKey(), func(c *hsCase) { forced = c07ForceHash(c, mv.lead, mv.trail) })
			if !forced {
				g.Extra["hash-shape-not-forced:"+mv.name] = true
				continue
			}
			s, d = &b.c.S, &b.c.D
			rr = b.h.R
			rr[2] = hsTriple(hsIDDHGenOk, d.Nonce, s.ServerNonce, rot(b.h.NonceHash1))
			b.emit(g, "dhGen.new_nonce_hash1"+kind, rr, "dhGen", "field:new_nonce_hash1", "zero-bytes-moved")
		}
	}
}

// ---- near misses of the client's key in the fingerprint list ------------------------------------------------

// c07OtherExponents: public exponents other than e: the usual ones, the neighbours of e, e with its bytes shifted
func c07OtherExponents(e int) []int {
	var out []int
	seen := map[int]bool{e: true}
	for _, x := range []int{3, 5, 17, 257, 65537, 65539, e + 2, e - 2, e ^ 1<<16, e << 8, e >> 8, e | 1<<24, e & 0xffff} {
		if x > 1 && !seen[x] {
			seen[x] = true
			out = append(out, x)
		}
	}
	return out
}

// c07NearMisses: three fingerprint lists, none of which holds the fingerprint of `key`: the keys with the same modulus
// and another exponent; the other moduli of the pool with this key's exponent; this key's fingerprint mangled (bytes
// reversed, sign bit flipped, negated, one half only, shifted by a byte, off by one)
func c07NearMisses(key *rsa.PrivateKey) map[string][]uint64 {
	own := hsFingerprint(&key.PublicKey)
	m := map[string][]uint64{}
	for _, e := range c07OtherExponents(key.E) {
		m["same-modulus-other-exponent"] = append(m["same-modulus-other-exponent"], hsFingerprint(&rsa.PublicKey{N: key.N, E: e}))
	}
	for _, k := range c07Pool {
		if k.N.Cmp(key.N) != 0 {
			m["same-exponent-other-modulus"] = append(m["same-exponent-other-modulus"], hsFingerprint(&rsa.PublicKey{N: k.N, E: key.E}))
		}
	}
	for _, f := range []uint64{bits.ReverseBytes64(own), own ^ 1<<63, -own, own & 0xffffffff, own >> 32, own << 32, own << 8, own >> 8, own + 1, own - 1, ^own, bits.RotateLeft64(own, 32)} {
		if f != own {
			m["own-fingerprint-mangled"] = append(m["own-fingerprint-mangled"], f)
		}
	}
	return m
}

var c07NearMissKinds = []string{"same-modulus-other-exponent", "same-exponent-other-modulus", "own-fingerprint-mangled"}

// c07GenNearMisses: for EVERY key of the pool as the client's key (65537 and the other exponents), resPQ offering each
// of the three lists: the client's key is not among them, the exchange has to be given up.
func c07GenNearMisses(g *G, r *Rand) {
	for _, key := range c07Pool {
		nm := c07NearMisses(key)
		for _, kind := range c07NearMissKinds {
			b := c07NewBase(r, key)
			fps := append([]uint64{}, nm[kind]...)
			for i := len(fps) - 1; i > 0; i-- {
				j := r.Intn(i + 1)
				fps[i], fps[j] = fps[j], fps[i]
			}
			b.emit(g, "resPQ.fingerprint:"+kind, b.offering(fps...), "resPQ", "field:fingerprints", "near-miss", fmt.Sprintf("near-miss:exponent-bytes=%d", len(big.NewInt(int64(key.E)).Bytes())))
		}
	}
}

func (b *c07Base) emit(g *G, tag string, r [3][]byte, tags ...string) {
	rd := &hsR{b: r[0]}
	p, q := "-", "-"
	if rd.u32() == hsIDResPQ {
		rd.take(32)
		pq := rd.str()
		if !rd.bad {
			p, q = c07Hint(pq)
		}
	}
	line := c07Op(tag, &b.c.D, &b.c.S.Key.PublicKey, p, q, r)
	g.Emit(line, tags...)
	consistent, rare := false, 12
	for _, t := range tags {
		consistent = consistent || t == "consistent"
		if t == "zero-bytes-moved" || t == "near-miss" {
			rare = 60 // (each client-side aftermath waits a second for frames; these classes are large)
		}
	}
	// ... and the clients of the c07.gone operations (the server hangs up after the exchange) are drawn from these
	c07GoneRemember(b, tag, consistent, line)
	if !consistent {
		// the same fault, and the APPLICATION goes on with the object: for every class of fault (the part of the tag
		// before the colon: the reply and field, hence the step at which the exchange is abandoned) the first
		// occurrence of the run is followed by a request, the second by a retry and a request; later ones now and then
		cls := strings.SplitN(tag, ":", 2)[0]
		n := c07AfterCount[cls]
		c07AfterCount[cls]++
		mode := ""
		switch {
		case n == 0:
			mode = "req"
		case n == 1:
			mode = "retry"
		case g.R.Intn(rare) == 0:
			mode = []string{"req", "retry"}[g.R.Intn(2)]
		}
		if mode != "" {
			g.Emit(c07Op(tag+"+"+mode, &b.c.D, &b.c.S.Key.PublicKey, p, q, r), append(append([]string{}, tags...), "client-aftermath", "client-aftermath:"+mode)...)
		}
	}
	if tag != "none" && g.R.Intn(10) == 0 {
		// the same fault, and the server keeps talking after the client gave the exchange up (unencrypted
		// new_session_created and bad_server_salt): still nothing may be stored
		g.Emit(c07Op(tag+"+after", &b.c.D, &b.c.S.Key.PublicKey, p, q, r), append(append([]string{}, tags...), "aftermath")...)
	}
	// ... and what those frames do LATER: the first three faults of every class of a run are also run with the store and
	// the client looked at 1.6 s after the frames (seed C07-m18: the reading routine offers a frame of the exchange for a
	// second, then treats it like any other message - the unconfirmed key is saved a second after the error was returned)
	if cls := strings.SplitN(tag, ":", 2)[0]; tag != "none" && !consistent && c07LateCount[cls] < 1 && len(c07LateCount) < g.N(6, 40) {
		c07LateCount[cls]++
		g.Emit(c07Op(tag+"+afterlate", &b.c.D, &b.c.S.Key.PublicKey, p, q, r), append(append([]string{}, tags...), "aftermath", "aftermath-late")...)
	}
}

// rewrap: reply 2 with the given inner data (correct SHA-1, correct keys).
func (b *c07Base) rewrap(answer []byte) []byte {
	s := &b.c.S
	return hsDHOk(b.c.D.Nonce, s.ServerNonce, hsWrapAnswer(answer, hsSha1(answer), s.Pad, b.c.D.NewNonce, s.ServerNonce))
}

// c07SeqOp: several exchanges as one operation.
func c07SeqOp(tag, keyobj string, steps []string) string {
	parts := []string{"c07.seq", tag, keyobj, strconv.Itoa(len(steps))}
	for _, st := range steps {
		parts = append(parts, strings.Join(strings.Fields(st)[2:], " "))
	}
	return strings.Join(parts, " ")
}

// step: the c07.hs line of base b answered with the replies r
func (b *c07Base) step(r [3][]byte) string {
	rd := &hsR{b: r[0]}
	p, q := "-", "-"
	if rd.u32() == hsIDResPQ {
		rd.take(32)
		pq := rd.str()
		if !rd.bad {
			p, q = c07Hint(pq)
		}
	}
	return c07Op("x", &b.c.D, &b.c.S.Key.PublicKey, p, q, r)
}

// offering: the honest replies of b, its resPQ listing exactly the fingerprints fps
func (b *c07Base) offering(fps ...uint64) [3][]byte {
	rr := b.h.R
	rr[0] = hsResPQ(b.c.D.Nonce, b.c.S.ServerNonce, b.c.S.pqBytes(), fps)
	return rr
}

// c07AfterCount: per class of fault, how many operations of this run were generated so far
var c07AfterCount = map[string]int{}

// c07LateCount: per class of fault, how many +afterlate operations were generated
var c07LateCount = map[string]int{}

// c07Pool: the server keys of this run, used in turn (consecutive exchanges never use the same key)
var (
	c07Pool []*rsa.PrivateKey
	c07Turn int
)

func c07NextKey() *rsa.PrivateKey {
	c07Turn++
	return c07Pool[c07Turn%len(c07Pool)]
}

// c07GenSequences: the caller keeps the server key in one object and gives it another key between exchanges
// (another DC, a rotated key, a loop over the keys of a key file). What the client looks for in resPQ must be the
// fingerprint of the key it is configured with NOW.
func c07GenSequences(g *G, r *Rand) {
	fp := func(k *rsa.PrivateKey) uint64 { return hsFingerprint(&k.PublicKey) }
	for koIdx, ko := range hsKeyObjModes {
		kA, kB := c07NextKey(), c07NextKey()
		// honest with A; then configured with B, the server offers only A's fingerprint (refuse); then offers B's (accept)
		a, b1, b2 := c07NewBase(r, kA), c07NewBase(r, kB), c07NewBase(r, kB)
		g.Emit(c07SeqOp("seq:earlier-key-offered", ko, []string{a.step(a.h.R), b1.step(b1.offering(fp(kA))), b2.step(b2.h.R)}), "sequence", "sequence:keyobj="+ko, "field:fingerprints")
		// the mirror: the current key's fingerprint is offered (alone, after the earlier one, before it): accept
		kA, kB = c07NextKey(), c07NextKey()
		a, b1, b2 = c07NewBase(r, kA), c07NewBase(r, kB), c07NewBase(r, kB)
		b3 := c07NewBase(r, kB)
		g.Emit(c07SeqOp("seq:current-key-offered", ko, []string{a.step(a.h.R), b1.step(b1.offering(fp(kB))), b2.step(b2.offering(fp(kA), fp(kB))), b3.step(b3.offering(fp(kB), fp(kA)))}), "sequence", "sequence:keyobj="+ko, "consistent")
		// A, B, and A again: after the object went back to the first key, B's fingerprint alone is refused, A's accepted
		kA, kB = c07NextKey(), c07NextKey()
		a, b1 = c07NewBase(r, kA), c07NewBase(r, kB)
		a2, a3 := c07NewBase(r, kA), c07NewBase(r, kA)
		g.Emit(c07SeqOp("seq:back-to-the-first-key", ko, []string{a.step(a.h.R), b1.step(b1.h.R), a2.step(a2.offering(fp(kB))), a3.step(a3.offering(r.U64(), fp(kA)))}), "sequence", "sequence:keyobj="+ko, "field:fingerprints")
		// a client key with another public exponent than 65537: offered the fingerprints of the keys that differ from
		// it in the exponent only (refuse), then its own among them (accept), then its own alone (accept)
		{
			var kE *rsa.PrivateKey
			for i := range c07Pool {
				if k := c07Pool[(koIdx+c07Turn+i)%len(c07Pool)]; k.E != 65537 {
					kE = k
					break
				}
			}
			if kE != nil {
				near := c07NearMisses(kE)["same-modulus-other-exponent"]
				mid := len(near) / 2
				with := append(append(append([]uint64{}, near[:mid]...), fp(kE)), near[mid:]...)
				e1, e2, e3 := c07NewBase(r, kE), c07NewBase(r, kE), c07NewBase(r, kE)
				g.Emit(c07SeqOp("seq:other-exponent-near-misses", ko, []string{e1.step(e1.offering(near...)), e2.step(e2.offering(with...)), e3.step(e3.offering(fp(kE)))}), "sequence", "sequence:keyobj="+ko, "field:fingerprints", "near-miss")
			}
		}
		// the first exchange is abandoned (a fault late in it: the fingerprint has been looked for by then), the
		// next one with another key is offered the abandoned exchange's key
		kA, kB = c07NextKey(), c07NextKey()
		a, b1, b2 = c07NewBase(r, kA), c07NewBase(r, kB), c07NewBase(r, kB)
		rr := a.h.R
		rr[2] = hsTriple(hsIDDHGenOk, a.c.D.Nonce, a.c.S.ServerNonce, c07Corrupt(r, "flip", a.h.NonceHash1, nil))
		g.Emit(c07SeqOp("seq:after-an-abandoned-exchange", ko, []string{a.step(rr), b1.step(b1.offering(fp(kA), r.U64())), b2.step(b2.h.R)}), "sequence", "sequence:keyobj="+ko, "field:fingerprints")
	}
}

func c07Gen(g *G) {
	r := g.R
	// ... followed by keys with other public exponents than 65537, one per byte length of the exponent (hsKeyPoolExp)
	c07Pool = hsKeyPoolExp(r, g.N(3, 4), g.Thorough())
	c07AfterCount = map[string]int{}
	c07GonePool, c07GoneHonest = nil, nil
	key := c07Pool[0]
	c07GenSequences(g, r)
	rounds := g.N(2, 32)
	for round := 0; round < rounds; round++ {
		c07GenRound(g, r, key, round)
		c07GenZeroMoves(g, r)
		if round < 2 || round%4 == 3 {
			c07GenNearMisses(g, r)
		}
		if g.Thorough() && round%4 == 3 {
			c07GenSequences(g, r)
		}
	}
	// (6) replies the TL layer cannot decode, last: before pending_fixes/C07-undecodable-reply-error such
	// a reply ends the whole process (the receive loop's check(err)), and with it this run
	for round := 0; round < rounds; round++ {
		for i := 0; i < 3; i++ {
			for _, kind := range []string{"unknown-id", "truncated", "empty", "vector", "idflip", "trailing-cut"} {
				b := c07NewBase(r, c07NextKey())
				rr := b.h.R
				switch kind {
				case "unknown-id":
					rr[i] = append([]byte{0xef, 0xbe, 0xad, 0xde}, r.Bytes(32)...)
				case "truncated":
					rr[i] = rr[i][:4+r.Intn(len(rr[i])-8)]
				case "empty":
					rr[i] = []byte{}
				case "vector":
					rr[i] = []byte{0x15, 0xc4, 0xb5, 0x1c, 1, 0, 0, 0, 7, 0, 0, 0}
				case "idflip":
					rr[i] = append([]byte{}, rr[i]...)
					rr[i][r.Intn(4)] ^= 1 << uint(r.Intn(8))
				case "trailing-cut":
					rr[i] = rr[i][:len(rr[i])-1]
				}
				b.emit(g, fmt.Sprintf("garbage%d:%s", i+1, kind), rr, "garbage")
			}
		}
	}
	// (7) the server hangs up after the client has given the exchange up (c07gone.go)
	c07GenGone(g, r)
}

func c07GenRound(g *G, r *Rand, key *rsa.PrivateKey, round int) {
	// the keys of the pool in turn: consecutive exchanges of this process use different server keys
	nb := func() *c07Base { return c07NewBase(r, c07NextKey()) }
	intB := func(x *big.Int, s *hsSecrets) []byte { return hsIntBytes(x, s.Minimal) }

	// (0) no fault: the consistent sequence is accepted
	if round == 0 {
		b := nb()
		b.emit(g, "none", b.h.R, "consistent")
	}

	// (1) resPQ fields
	for _, kind := range c07Kinds {
		b := nb()
		s, d := &b.c.S, &b.c.D
		fps := append(append([]uint64{}, s.ExtraFps...), b.h.Fingerprint)
		rr := b.h.R
		rr[0] = hsResPQ(c07Corrupt(r, kind, d.Nonce, s.ServerNonce), s.ServerNonce, s.pqBytes(), fps)
		b.emit(g, "resPQ.nonce:"+kind, rr, "resPQ", "field:nonce")

		b = nb()
		s, d = &b.c.S, &b.c.D
		fps = append(append([]uint64{}, s.ExtraFps...), b.h.Fingerprint)
		rr = b.h.R
		rr[0] = hsResPQ(d.Nonce, c07Corrupt(r, kind, s.ServerNonce, d.Nonce), s.pqBytes(), fps)
		b.emit(g, "resPQ.server_nonce:"+kind, rr, "resPQ", "field:server_nonce")

		// fingerprints: the right one corrupted
		b = nb()
		s, d = &b.c.S, &b.c.D
		var fb [8]byte
		binary.LittleEndian.PutUint64(fb[:], b.h.Fingerprint)
		var ob [8]byte
		copy(ob[:], d.Nonce)
		bad := binary.LittleEndian.Uint64(c07Corrupt(r, kind, fb[:], ob[:]))
		rr = b.h.R
		rr[0] = hsResPQ(d.Nonce, s.ServerNonce, s.pqBytes(), append(append([]uint64{}, s.ExtraFps...), bad))
		b.emit(g, "resPQ.fingerprint:"+kind, rr, "resPQ", "field:fingerprints")
	}
	{
		// no fingerprint at all; only foreign ones; the right one byte-swapped
		b := nb()
		rr := b.h.R
		rr[0] = hsResPQ(b.c.D.Nonce, b.c.S.ServerNonce, b.c.S.pqBytes(), nil)
		b.emit(g, "resPQ.fingerprint:none", rr, "resPQ", "field:fingerprints")
		b = nb()
		rr = b.h.R
		rr[0] = hsResPQ(b.c.D.Nonce, b.c.S.ServerNonce, b.c.S.pqBytes(), []uint64{r.U64(), r.U64(), r.U64()})
		b.emit(g, "resPQ.fingerprint:foreign", rr, "resPQ", "field:fingerprints")
		b = nb()
		rr = b.h.R
		rr[0] = hsResPQ(b.c.D.Nonce, b.c.S.ServerNonce, b.c.S.pqBytes(), []uint64{bits.ReverseBytes64(b.h.Fingerprint)})
		b.emit(g, "resPQ.fingerprint:byteswapped", rr, "resPQ", "field:fingerprints")
	}
	// pq: another product of two primes (bit flip that lands on one / fresh): nothing the client can
	// detect; the sequence stays consistent
	{
		b := nb()
		s := &b.c.S
		pq := new(big.Int).SetBytes(s.pqBytes()).Uint64()
		for i := 0; i < 64; i++ {
			cand := pq ^ (1 << uint(r.Intn(62)))
			if p, q, ok := c07Factor2(cand); ok && p != q {
				rr := b.h.R
				rr[0] = hsResPQ(b.c.D.Nonce, s.ServerNonce, new(big.Int).SetUint64(cand).Bytes(), append(append([]uint64{}, s.ExtraFps...), b.h.Fingerprint))
				b.emit(g, "resPQ.pq:flip", rr, "resPQ", "field:pq", "consistent")
				break
			}
		}
		b = nb()
		s = &b.c.S
		p2, q2 := hsPrime32(r, 20), hsPrime32(r, 24)
		rr := b.h.R
		rr[0] = hsResPQ(b.c.D.Nonce, s.ServerNonce, new(big.Int).SetUint64(p2*q2).Bytes(), append(append([]uint64{}, s.ExtraFps...), b.h.Fingerprint))
		b.emit(g, "resPQ.pq:random", rr, "resPQ", "field:pq", "consistent")
	}

	// pq outside what the description allows: zero, one, a prime. (A square, a product of three primes
	// or a 20-byte composite are accepted by the client — SplitPQ returns some factor pair — and are
	// not generated: which pair it returns is not determined.)
	for _, kind := range []string{"zero", "one", "prime"} {
		b := nb()
		s := &b.c.S
		var pq []byte
		switch kind {
		case "zero":
			pq = make([]byte, len(s.pqBytes()))
		case "one":
			pq = []byte{1}
		case "prime":
			pq = new(big.Int).SetUint64(hsPrime32(r, 32)<<31 | 1).Bytes()
			for !new(big.Int).SetBytes(pq).ProbablyPrime(20) {
				pq = new(big.Int).Add(new(big.Int).SetBytes(pq), big.NewInt(2)).Bytes()
			}
		case "square":
			p := hsPrime32(r, 24)
			pq = new(big.Int).SetUint64(p * p).Bytes()
		case "three-primes":
			pq = new(big.Int).SetUint64(hsPrime32(r, 16) * hsPrime32(r, 20) * hsPrime32(r, 24)).Bytes()
		case "long":
			pq = new(big.Int).Mul(new(big.Int).SetUint64(hsPrime32(r, 20)), new(big.Int).SetBytes(hsForce(r, 12, 0))).Bytes()
		}
		rr := b.h.R
		rr[0] = hsResPQ(b.c.D.Nonce, s.ServerNonce, pq, append(append([]uint64{}, s.ExtraFps...), b.h.Fingerprint))
		b.emit(g, "resPQ.pq:"+kind, rr, "resPQ", "field:pq", "degenerate")
	}

	// (2) server_DH_params_ok fields
	for _, kind := range c07Kinds {
		b := nb()
		s, d := &b.c.S, &b.c.D
		rr := b.h.R
		rr[1] = hsDHOk(c07Corrupt(r, kind, d.Nonce, s.ServerNonce), s.ServerNonce, b.h.EncAnswer)
		b.emit(g, "dhOk.nonce:"+kind, rr, "dhOk", "field:nonce")
		b = nb()
		s, d = &b.c.S, &b.c.D
		rr = b.h.R
		rr[1] = hsDHOk(d.Nonce, c07Corrupt(r, kind, s.ServerNonce, d.Nonce), b.h.EncAnswer)
		b.emit(g, "dhOk.server_nonce:"+kind, rr, "dhOk", "field:server_nonce")
	}
	for _, kind := range []string{"flip", "flipfirst", "fliplast", "random", "zero"} {
		b := nb()
		rr := b.h.R
		rr[1] = hsDHOk(b.c.D.Nonce, b.c.S.ServerNonce, c07Corrupt(r, kind, b.h.EncAnswer, nil))
		b.emit(g, "dhOk.encrypted_answer:"+kind, rr, "dhOk", "field:encrypted_answer")
	}
	for _, ln := range []string{"empty", "cut1", "cut16", "len16", "len32", "plus1", "plus16"} {
		b := nb()
		e := b.h.EncAnswer
		switch ln {
		case "empty":
			e = nil
		case "cut1":
			e = e[:len(e)-1]
		case "cut16":
			e = e[:len(e)-16]
		case "len16":
			e = e[:16]
		case "len32":
			e = e[:32]
		case "plus1":
			e = append(append([]byte{}, e...), 0)
		case "plus16":
			e = append(append([]byte{}, e...), r.Bytes(16)...)
		}
		rr := b.h.R
		rr[1] = hsDHOk(b.c.D.Nonce, b.c.S.ServerNonce, e)
		b.emit(g, "dhOk.encrypted_answer:"+ln, rr, "dhOk", "field:encrypted_answer", "length")
	}
	for _, kind := range []string{"flip", "flipfirst", "fliplast", "random", "zero"} {
		// bad SHA-1 prefix: the answer is encrypted correctly under the right keys, its hash is wrong
		b := nb()
		s := &b.c.S
		h := c07Corrupt(r, kind, hsSha1(b.h.Answer), nil)
		rr := b.h.R
		rr[1] = hsDHOk(b.c.D.Nonce, s.ServerNonce, hsWrapAnswer(b.h.Answer, h, s.Pad, b.c.D.NewNonce, s.ServerNonce))
		b.emit(g, "dhOk.sha1:"+kind, rr, "dhOk", "sha1")
	}
	{
		// encrypted under keys from another new_nonce (what a server without the RSA key can do)
		b := nb()
		s := &b.c.S
		rr := b.h.R
		rr[1] = hsDHOk(b.c.D.Nonce, s.ServerNonce, hsWrapAnswer(b.h.Answer, hsSha1(b.h.Answer), s.Pad, r.Bytes(32), s.ServerNonce))
		b.emit(g, "dhOk.wrongkeys", rr, "dhOk", "sha1")
	}

	// (3) server_DH_inner_data fields, re-wrapped with a correct SHA-1
	for _, kind := range c07Kinds {
		b := nb()
		s, d := &b.c.S, &b.c.D
		rr := b.h.R
		rr[1] = b.rewrap(hsInnerData(c07Corrupt(r, kind, d.Nonce, s.ServerNonce), s.ServerNonce, s.G, intB(s.DhPrime, s), intB(s.gA(), s), s.ServerTime))
		b.emit(g, "inner.nonce:"+kind, rr, "inner", "field:nonce")
		b = nb()
		s, d = &b.c.S, &b.c.D
		rr = b.h.R
		rr[1] = b.rewrap(hsInnerData(d.Nonce, c07Corrupt(r, kind, s.ServerNonce, d.Nonce), s.G, intB(s.DhPrime, s), intB(s.gA(), s), s.ServerTime))
		b.emit(g, "inner.server_nonce:"+kind, rr, "inner", "field:server_nonce")
	}
	for _, kind := range []string{"flip", "random", "zero"} {
		b := nb()
		s, d := &b.c.S, &b.c.D
		var gb [4]byte
		binary.LittleEndian.PutUint32(gb[:], uint32(s.G))
		g2 := int32(binary.LittleEndian.Uint32(c07Corrupt(r, kind, gb[:], nil)))
		rr := b.h.R
		rr[1] = b.rewrap(hsInnerData(d.Nonce, s.ServerNonce, g2, intB(s.DhPrime, s), intB(s.gA(), s), s.ServerTime))
		b.emit(g, "inner.g:"+kind, rr, "inner", "field:g")

		b = nb()
		s, d = &b.c.S, &b.c.D
		rr = b.h.R
		rr[1] = b.rewrap(hsInnerData(d.Nonce, s.ServerNonce, s.G, intB(s.DhPrime, s), c07Corrupt(r, kind, hsFixed(s.gA(), 256), nil), s.ServerTime))
		b.emit(g, "inner.g_a:"+kind, rr, "inner", "field:g_a")

		b = nb()
		s, d = &b.c.S, &b.c.D
		rr = b.h.R
		rr[1] = b.rewrap(hsInnerData(d.Nonce, s.ServerNonce, s.G, c07Corrupt(r, kind, hsFixed(s.DhPrime, 256), nil), intB(s.gA(), s), s.ServerTime))
		b.emit(g, "inner.dh_prime:"+kind, rr, "inner", "field:dh_prime")

		b = nb()
		s, d = &b.c.S, &b.c.D
		var tb [4]byte
		binary.LittleEndian.PutUint32(tb[:], uint32(s.ServerTime))
		t2 := int32(binary.LittleEndian.Uint32(c07Corrupt(r, kind, tb[:], nil)))
		rr = b.h.R
		rr[1] = b.rewrap(hsInnerData(d.Nonce, s.ServerNonce, s.G, intB(s.DhPrime, s), intB(s.gA(), s), t2))
		b.emit(g, "inner.server_time:"+kind, rr, "inner", "field:server_time", "consistent")
	}
	{
		// another constructor inside a correctly wrapped answer
		b := nb()
		rr := b.h.R
		rr[1] = b.rewrap(hsTriple(hsIDDHGenOk, b.c.D.Nonce, b.c.S.ServerNonce, b.h.NonceHash1))
		b.emit(g, "inner.kind:dh_gen_ok", rr, "inner", "kind")
		b = nb()
		rr = b.h.R
		rr[1] = b.rewrap(hsResPQ(b.c.D.Nonce, b.c.S.ServerNonce, b.c.S.pqBytes(), []uint64{b.h.Fingerprint}))
		b.emit(g, "inner.kind:resPQ", rr, "inner", "kind")
	}

	// (4) dh_gen_ok fields
	for _, kind := range c07Kinds {
		b := nb()
		s, d := &b.c.S, &b.c.D
		rr := b.h.R
		rr[2] = hsTriple(hsIDDHGenOk, c07Corrupt(r, kind, d.Nonce, s.ServerNonce), s.ServerNonce, b.h.NonceHash1)
		b.emit(g, "dhGen.nonce:"+kind, rr, "dhGen", "field:nonce")
		b = nb()
		s, d = &b.c.S, &b.c.D
		rr = b.h.R
		rr[2] = hsTriple(hsIDDHGenOk, d.Nonce, c07Corrupt(r, kind, s.ServerNonce, d.Nonce), b.h.NonceHash1)
		b.emit(g, "dhGen.server_nonce:"+kind, rr, "dhGen", "field:server_nonce")
		b = nb()
		s, d = &b.c.S, &b.c.D
		rr = b.h.R
		rr[2] = hsTriple(hsIDDHGenOk, d.Nonce, s.ServerNonce, c07Corrupt(r, kind, b.h.NonceHash1, hsNonceHash(d.NewNonce, 2, b.h.AuthKey)))
		b.emit(g, "dhGen.new_nonce_hash1:"+kind, rr, "dhGen", "field:new_nonce_hash1")
	}
	for _, kind := range []string{"flipfirst", "fliplast"} {
		b := nb()
		rr := b.h.R
		rr[2] = hsTriple(hsIDDHGenOk, b.c.D.Nonce, b.c.S.ServerNonce, c07Corrupt(r, kind, b.h.NonceHash1, nil))
		b.emit(g, "dhGen.new_nonce_hash1:"+kind, rr, "dhGen", "field:new_nonce_hash1")
	}

	// (5) alternative constructors and rpc_error at each step
	{
		b := nb()
		s, d := &b.c.S, &b.c.D
		rr := b.h.R
		rr[1] = hsTriple(hsIDDHFail, d.Nonce, s.ServerNonce, hsSha1(d.NewNonce)[4:20])
		b.emit(g, "kind2:server_DH_params_fail", rr, "kind")
		b = nb()
		s, d = &b.c.S, &b.c.D
		rr = b.h.R
		rr[2] = hsTriple(hsIDDHGenRetry, d.Nonce, s.ServerNonce, hsNonceHash(d.NewNonce, 2, b.h.AuthKey))
		b.emit(g, "kind3:dh_gen_retry", rr, "kind")
		b = nb()
		s, d = &b.c.S, &b.c.D
		rr = b.h.R
		rr[2] = hsTriple(hsIDDHGenFail, d.Nonce, s.ServerNonce, hsNonceHash(d.NewNonce, 3, b.h.AuthKey))
		b.emit(g, "kind3:dh_gen_fail", rr, "kind")
		// a dh_gen_retry / dh_gen_fail that carries the hash a dh_gen_ok would carry
		b = nb()
		s, d = &b.c.S, &b.c.D
		rr = b.h.R
		rr[2] = hsTriple(hsIDDHGenRetry, d.Nonce, s.ServerNonce, b.h.NonceHash1)
		b.emit(g, "kind3:dh_gen_retry-hash1", rr, "kind")
		// replies of the exchange in the wrong place
		b = nb()
		rr = b.h.R
		rr[0] = b.h.R[2]
		b.emit(g, "kind1:dh_gen_ok", rr, "kind")
		b = nb()
		rr = b.h.R
		rr[0] = b.h.R[1]
		b.emit(g, "kind1:server_DH_params_ok", rr, "kind")
		b = nb()
		rr = b.h.R
		rr[1] = b.h.R[0]
		b.emit(g, "kind2:resPQ", rr, "kind")
		b = nb()
		rr = b.h.R
		rr[1] = b.h.R[2]
		b.emit(g, "kind2:dh_gen_ok", rr, "kind")
		b = nb()
		rr = b.h.R
		rr[2] = b.h.R[0]
		b.emit(g, "kind3:resPQ", rr, "kind")
		b = nb()
		rr = b.h.R
		rr[2] = b.h.R[1]
		b.emit(g, "kind3:server_DH_params_ok", rr, "kind")
		for i := 0; i < 3; i++ {
			b = nb()
			rr = b.h.R
			rr[i] = hsRpcError(400, "AUTH_KEY_INVALID")
			b.emit(g, fmt.Sprintf("kind%d:rpc_error", i+1), rr, "kind", "rpc_error")
			// the rpc_errors the client HANDLES instead of returning when they answer an ordinary request (D34: a migration
			// started from inside the exchange waited for the lock its own CreateConnection holds - for ever)
			for _, e := range []struct {
				code int32
				text string
			}{{303, "PHONE_MIGRATE_2"}, {303, "PHONE_MIGRATE_5"}, {303, "NETWORK_MIGRATE_1"}, {303, "PHONE_MIGRATE_77"}, {303, "PHONE_MIGRATE_X"}, {420, "FLOOD_WAIT_3"}} {
				b = nb()
				rr = b.h.R
				rr[i] = hsRpcError(e.code, e.text)
				b.emit(g, fmt.Sprintf("kind%d:rpc_error:%s", i+1, e.text), rr, "kind", "rpc_error", "rpc_error-handled")
			}
			// the pseudo-objects of the TL layer: null, boolTrue
			b = nb()
			rr = b.h.R
			rr[i] = []byte{0xcc, 0x0b, 0x73, 0x56}
			b.emit(g, fmt.Sprintf("kind%d:null", i+1), rr, "kind", "pseudo")
			b = nb()
			rr = b.h.R
			rr[i] = []byte{0xb5, 0x75, 0x72, 0x99}
			b.emit(g, fmt.Sprintf("kind%d:boolTrue", i+1), rr, "kind", "pseudo")
		}
	}
}

// c07ParseSeq: the exchanges of a c07.seq operation.
func c07ParseSeq(op []string) (keyobj string, steps []*c07Case, ok bool) {
	if len(op) < 4 || op[0] != "c07.seq" {
		return "", nil, false
	}
	k, err := strconv.Atoi(op[3])
	if err != nil || k < 1 || len(op) != 4+12*k {
		return "", nil, false
	}
	keyobj = op[2]
	if keyobj != "fresh" && keyobj != "slot" && keyobj != "setn" {
		return "", nil, false
	}
	for i := 0; i < k; i++ {
		c, ok := c07Parse(append([]string{"c07.hs", "x"}, op[4+12*i:4+12*(i+1)]...))
		if !ok {
			return "", nil, false
		}
		steps = append(steps, c)
	}
	return keyobj, steps, true
}

func c07Exec(op []string) string {
	c07Last = nil
	if len(op) > 0 && op[0] == "c07.gone" {
		return c07GoneExec(op)
	}
	if len(op) > 0 && op[0] == "c07.seq" {
		keyobj, steps, ok := c07ParseSeq(op)
		if !ok {
			return "bad-op"
		}
		ko := &hsKeyObj{Mode: keyobj}
		var lines []string
		for _, c := range steps {
			run := hsExchange(&c.D, ko.next(&c.Pub), nil, c.R, false)
			c07Last = append(c07Last, run)
			lines = append(lines, hsResultLine(run))
		}
		return strings.Join(lines, " | ")
	}
	c, ok := c07Parse(op)
	if !ok {
		return "bad-op"
	}
	// a tag ending in "+after": the server keeps talking after the client abandoned the exchange
	hsAftermath = strings.HasSuffix(op[1], "+after") || strings.HasSuffix(op[1], "+afterlate")
	hsAftermathLate = strings.HasSuffix(op[1], "+afterlate")
	if hsAftermathLate {
		// The extra frame goes out right behind the LAST reply the client takes before it gives the exchange up, so that
		// the exchange itself ends exactly as without it: a first pass without any aftermath counts the client's requests
		// (a fault in reply 1 may only be noticed at reply 2: resPQ.server_nonce)
		hsAftermath, hsAftermathLate = false, false
		dry := hsExchangePlan(&hsPlan{StoreMode: "notfound", D: &c.D, Pub: &c.Pub, Replies: c.R})
		hsAftermath, hsAftermathLate = true, true
		if n := c07Plain(dry); n >= 1 && n <= 3 && (strings.HasPrefix(dry.Outcome, "err:")) {
			hsBurstBehind = n
		}
	}
	// "+req" / "+retry": the application keeps using the object after the exchange was abandoned
	after := ""
	for _, m := range []string{"req", "retry"} {
		if strings.HasSuffix(op[1], "+"+m) {
			after = m
		}
	}
	run := hsExchangePlan(&hsPlan{StoreMode: "notfound", D: &c.D, Pub: &c.Pub, Replies: c.R, After: after})
	hsAftermath = false
	hsAftermathLate = false
	hsBurstBehind = 0
	c07Last = []*hsRun{run}
	return hsResultLine(run)
}

func c07Judge(op []string, out string) string {
	if out == "bad-op" {
		return ""
	}
	runs := c07Last
	if op[0] == "c07.gone" {
		return c07GoneJudge(op, out)
	}
	if op[0] == "c07.seq" {
		keyobj, steps, ok := c07ParseSeq(op)
		if !ok || len(runs) != len(steps) {
			return "no run recorded"
		}
		var bad []string
		for i, c := range steps {
			for _, b := range c07JudgeRun(c, runs[i], true) {
				bad = append(bad, fmt.Sprintf("exchange %d of %d in this process (client configured with key %s…, public exponent %d, fingerprint %016x, key object %s): %s",
					i+1, len(steps), hexD(c.Pub.N.Bytes()[:4]), c.Pub.E, hsFingerprint(&c.Pub), keyobj, b))
			}
		}
		return strings.Join(bad, "; ")
	}
	c, ok := c07Parse(op)
	if len(runs) != 1 || !ok {
		return "no run recorded"
	}
	return strings.Join(c07JudgeRun(c, runs[0], false), "; ")
}

// c07JudgeRun: one exchange against its own replies. mustAccept: a consistent reply sequence has to be accepted
// (asked of the exchanges of a sequence, whose consistent members are a conformant server's replies).
func c07JudgeRun(c *c07Case, run *hsRun, mustAccept bool) []string {
	v := hsJudgeReplies(&c.D, &c.Pub, c.R)
	var bad []string
	add := func(f string, a ...interface{}) { bad = append(bad, fmt.Sprintf(f, a...)) }
	if v.Consistent {
		if mustAccept {
			if run.Outcome != "ok" {
				add("the replies are a consistent answer sequence for this client and its key, but the exchange ended with %s (%s)", run.Outcome, run.ErrText)
			} else if len(run.Stores) != 1 || !bytes.Equal(run.Stores[0].Key, v.AuthKey) || run.Stores[0].Salt != v.Salt || !bytes.Equal(run.AuthKey, v.AuthKey) {
				add("consistent replies accepted, but the client holds / stored another key or salt than they determine: holds %s, stored %s", showBytes(run.AuthKey), hsShowStores(run.Stores, run.Addr))
			}
		}
		return bad
	}
	if !strings.HasPrefix(run.Outcome, "err:") {
		add("inconsistent replies (%s) but the exchange ended with %s, not with an error", v.Why, run.Outcome)
	}
	if len(run.Stores) != 0 {
		add("inconsistent replies (%s) but a session was stored: %s", v.Why, hsShowStores(run.Stores, run.Addr))
	}
	if run.Enc {
		add("inconsistent replies (%s) but the client is in encrypted mode", v.Why)
	}
	if n := len(run.Srv.Enc); n != 0 && (len(run.After) == 0 || n <= run.EncEarly) {
		add("inconsistent replies (%s) but the client sent %d encrypted frame(s)", v.Why, n)
	} else if n > run.EncEarly {
		add("inconsistent replies (%s), the exchange ended with %s; the application then went on with the same object (%s) and the client wrote %d ENCRYPTED message(s) (the first: auth_key_id %s, %d bytes) although no exchange has confirmed a key (%d encrypted before CreateConnection returned)",
			v.Why, run.Outcome, strings.Join(run.After, ", "), n-run.EncEarly, hexD(run.Srv.Enc[run.EncEarly][:8]), len(run.Srv.Enc[run.EncEarly]), run.EncEarly)
	}
	for _, a := range run.After {
		if strings.HasPrefix(a, "retry:") && !strings.HasPrefix(a, "retry:err:") {
			add("inconsistent replies (%s); the second CreateConnection on the same object, answered with the same replies (they cannot fit its fresh nonce), ended with %s, not with an error", v.Why, strings.TrimPrefix(a, "retry:"))
		}
	}
	if run.EncLate && !run.Enc {
		add("inconsistent replies (%s) and the client is in encrypted mode after the application went on with the object (%s)", v.Why, strings.Join(run.After, ", "))
	}
	return bad
}

func init() {
	register(&Prop{
		Name:  "c07",
		Gen:   c07Gen,
		Exec:  c07Exec,
		Judge: c07Judge,
	})
}

// c07Plain: how many unencrypted requests the server of that run received
func c07Plain(r *hsRun) int {
	if r == nil || r.Srv == nil {
		return 0
	}
	return len(r.Srv.Plain)
}
