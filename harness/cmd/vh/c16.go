package main

// C16 — no server message kills the client or stops its receive loop: hostile and odd histories (unknown
// and unexpected constructors, results for unknown or answered requests, notifications, empty containers,
// truncated bodies, connection close at any point), each followed by a probe request that must complete.

import (
	"fmt"
	"os"
	"os/exec"
	"path/filepath"
	"strings"
)

func c16Gen(g *G) {
	r := g.R
	hostile := []string{"p", "k", "u", "x", "t", "e", "b", "q12345", "q0", "n77", "B0", "zt", "zc", "N2(x)", "N5(u)", "N6(p)", "N3(q12345)",
		"tr4", "tr5", "tr8", "tr11", "tr12", "tr13", "tr16", "tr19", "tr20", "0"}
	g.Emit("c16.run o g0;w1;b;q12345;x;t;e;u;a0", "each-kind")
	g.Emit("c16.run o,o g0;w1;close;g1;w2;a1;a0", "close-then-probe")
	// notifications naming a message the client wrote that is not a request (its own msgs_ack): a real
	// server rejects those too when the salt rotates; late and repeated deliveries
	g.Emit("c16.run o,o g0;w1;u;W;rk0/2000;a0;j;g1;w2;a1", "notification-names-an-ack")
	g.Emit("c16.run o,o g0;w1;u;W;Bk0;a0;j;g1;w2;a1", "notification-names-an-ack")
	g.Emit("c16.run o,o u;W;c(rk0/2000,Bk0);x;W;rk1/2001;g1;w1;a1", "notification-names-an-ack")
	g.Emit("c16.run o,o h;u;W;=;^x;=;g1;w1;a1", "late-and-repeated")
	// compressed messages whose framing is fine and whose stream is damaged; containers inside containers, deep,
	// repeatedly, with the answer itself nested
	g.Emit("c16.run o,o g0;w1;zt;zc;c(zt,p);a0;j;g1;w2;a1", "damaged-gzip")
	// the application (or a PHONE_MIGRATE answer) reconnects from its own goroutine while the receive goroutine
	// is between two reads of the connection; later requests complete
	g.Emit("c16.run o,o g0;w1;a0;j;yR*:3000:1;p;s500;X;g1;w2;a1", "reconnect-from-another-goroutine")
	g.Emit("c16.run o,o,o g0;w1;a0;j;X;g1;w2;a1;j;yR*:2000:2;p;s300;X;X;g2;w3;a2", "reconnect-from-another-goroutine")
	// frames of more than 2^20 bytes (a long msgs_ack, a big unknown object): the stream stays in step and the
	// probe completes; the probe's answer arrives before its caller waits for it
	g.Emit("c16.run o,o kb;g1;w1;a1", "frame-beyond-2^20")
	g.Emit("c16.run o,o g0;w1;ub;kb;a0;j;g1;w2;c(kb,a1)", "frame-beyond-2^20")
	g.Emit("c16.run o,o x;b;ycq:2500:1;g1;w1;a1", "yield-caller-held-after-send")
	g.Emit("c16.run o,o t;ycq:1500:2;g0+1;w2;c(u,a1);a0", "yield-caller-held-after-send")
	// an rpc_result cut at every length (the client looks into it before decoding it)
	g.Emit("c16.run o,o tr4;tr5;tr6;tr7;tr8;tr9;tr10;tr11;tr12;g1;w1;c(tr8,tr13,a1)", "truncated-rpc-result")
	g.Emit("c16.run o,o N5(u);N6(x);N7(p);N5(n88);g1;w1;c(p,a1)", "nested-containers")
	g.Emit("c16.run o,o N6(u);g1;w1;N4(a1)", "nested-containers")
	g.Emit("c16.run o,o,o g0+1+2;w3;N9(p);N2(c(a1,u));N4(a2);N2(c(u,N1(a0)))", "nested-containers")
	// one message of thousands of nested containers (every accepted level would hold a copy of the levels below
	// it: memory quadratic in the depth) must cost next to nothing and must not delay the probe
	g.Emit("c16.run o,o N3000(p);N20000(u);g1;w1;a1", "nested-containers-deep")
	if g.Thorough() {
		g.Emit("c16.run o,o N100000(x);N400000(p);g1;w1;c(p,a1)", "nested-containers-deep")
	}
	// well-formed service messages whose enumerated field carries a value outside the specification's list:
	// bad_msg_notification with every error_code 0..255 for a message the client does not know (in containers of
	// 64), with negative and large codes, for a pending request, for one of the client's own acknowledgements;
	// bad_server_salt with other codes than 48
	for lo := 0; lo < 256; lo += 64 {
		var in []string
		for c := lo; c < lo+64; c++ {
			in = append(in, fmt.Sprintf("b/%d", c))
		}
		g.Emit("c16.run o,o c("+strings.Join(in, ",")+");g1;w1;a1", "notification-code-outside-the-list")
	}
	g.Emit("c16.run o,o b/-1;b/-2147483648;b/2147483647;b/65;b/256;b/4294967295;b/1000000;g1;w1;a1", "notification-code-outside-the-list")
	g.Emit("c16.run o,o,o g0;w1;B0/100;j;u;W;Bk0/255;g2;w2;B2/-1;j;g1;w3;a1", "notification-code-outside-the-list")
	g.Emit("c16.run o,o g0;w1;r0/2000/0;w2;r0/2001/255;w3;r0/2002/-7;w4;a0;j;u;W;rk0/2003/99;g1;w5;a1", "notification-code-outside-the-list")
	// a probe that has encoded its request and waits for the write lock (a write is in progress) while the
	// receive loop acknowledges ordinary content-related messages, with every goroutine of the client on one
	// processor (P1) and on all: the probe's request reaches the server as encoded and the probe completes
	g.Emit("c16.run o,o P1;ywq:3000:1;g0;s400;g1;s400;u;w2;a0;a1", "encoded-request-waits-for-write-lock")
	g.Emit("c16.run o,o P1;g0;w1;ywk:3000:1;n77;s400;g1;s400;x;w2;a1;a0", "encoded-request-waits-for-write-lock")
	g.Emit("c16.run o,o ywq:3000:1;g0;s400;g1;s400;c(u,x,n78);w2;a1;a0", "encoded-request-waits-for-write-lock")
	// every service message a server may legitimately send that is a REQUEST to the client or an informational
	// message (service messages about messages: msgs_state_req, msg_resend_req, msg_resend_ans_req, msgs_state_info,
	// msgs_all_info, msg_detailed_info, msg_new_detailed_info; answers of service requests: future_salts,
	// destroy_session_ok/none, rpc_answer_*; a ping) — well-formed, with empty and non-empty id lists, alone, with a
	// request pending, in a container, gzip_packed, as content-related and as not content-related message — each
	// followed by ordinary traffic (a probe) that must still be served
	svc := []string{"Msr1", "Msr0", "Msr3", "Msr64", "Mrr1", "Mrr0", "Mrr2", "Mra1", "Mra0", "Msi1", "Msi0", "Msi5", "Mai2", "Mai0", "Mdi", "Mni",
		"Mfs1", "Mfs0", "Mfs3", "Mdo", "Mdn", "Mau", "Mar", "Mad", "Mpi"}
	for _, m := range svc {
		g.Emit("c16.run o,o "+m+";g1;w1;a1", "service-request-or-information")
	}
	for i := 0; i < len(svc); i += 5 {
		grp := svc[i:min(i+5, len(svc))]
		var flipped, packed []string
		for _, m := range grp {
			flipped = append(flipped, m+"~")
			packed = append(packed, "z("+m+")")
		}
		g.Emit("c16.run o,o g0;w1;"+strings.Join(grp, ";")+";a0;j;g1;w2;a1", "service-request-or-information")
		g.Emit("c16.run o,o c("+strings.Join(grp, ",")+",p);g1;w1;c("+strings.Join(flipped, ",")+",a1)", "service-request-or-information")
		g.Emit("c16.run o,o "+strings.Join(packed, ";")+";g1;w1;z(c("+strings.Join(grp, ",")+"));a1", "service-request-or-information")
	}
	// service messages whose 32-bit count / length fields carry values a decoder may read as signed: the container
	// count, the byte length of a container member, the vector counts of msgs_ack, msgs_state_req, msg_resend_req,
	// msgs_all_info and future_salts at 2^31-1, 2^31, 2^32-1 (and their neighbours), with nothing, one and two
	// elements behind them; alone, inside a container, gzip_packed, nested
	edge := []string{"2147483647", "2147483648", "4294967295", "2147483649", "4294967294", "2147483646", "1021", "65536"}
	for _, kind := range []string{"mc", "vk", "vs", "vr", "va", "vf"} {
		var bare, one, two []string
		for _, c := range edge {
			bare, one, two = append(bare, kind+c), append(one, kind+c+"+1"), append(two, kind+c+"+2")
		}
		g.Emit("c16.run o,o "+strings.Join(bare[:3], ";")+";g1;w1;a1", "count-read-as-signed")
		g.Emit("c16.run o,o "+strings.Join(one[:3], ";")+";g1;w1;a1", "count-read-as-signed")
		g.Emit("c16.run o,o g0;w1;"+strings.Join(bare[3:], ";")+";"+strings.Join(two[:3], ";")+";a0;j;g1;w2;a1", "count-read-as-signed")
		g.Emit("c16.run o,o c("+strings.Join(one, ",")+",p);z("+bare[1]+");z("+one[2]+");N2("+bare[2]+");g1;w1;c("+two[1]+",a1)", "count-read-as-signed")
	}
	g.Emit("c16.run o,o ml2147483647;ml2147483648;ml4294967295;ml21;ml4294967294;g1;w1;a1", "count-read-as-signed")
	g.Emit("c16.run o,o c(ml2147483648,p);z(ml4294967295);c(p,ml2147483647);N3(ml2147483648);g1;w1;c(ml4294967295,a1)", "count-read-as-signed")
	// server msg_ids over the whole unsigned 64-bit range (a server clock far ahead or behind; after 2038 bit 63 is
	// set): 1 and 3 modulo 4, across 2^63, just below 2^64, near zero
	g.Emit("c16.run o,o I9223372036854775801;u;x;g0;w1;a0;j;n77;g1;w2;c(u,a1)", "server-msgid-range")
	g.Emit("c16.run o,o I18446744073709547619;u;b;g0;w1;a0;j;I5;x;g1;w2;a1", "server-msgid-range")
	nw := g.N(6, 120)
	for i := 0; i < nw; i++ {
		// caller 0's write (or the write of an acknowledgement) is slow; the probe encodes meanwhile; one to three
		// content-related messages arrive meanwhile
		var plan []string
		if r.Bool() {
			plan = append(plan, "P1")
		}
		hold := 2000 + r.Intn(2500)
		if r.Intn(3) == 0 {
			plan = append(plan, "g0", "w1", fmt.Sprintf("ywk:%d:1", hold), "u", "s300")
		} else {
			plan = append(plan, fmt.Sprintf("ywq:%d:1", hold), "g0", "s300")
		}
		plan = append(plan, "g1", fmt.Sprintf("s%d", 200+r.Intn(300)))
		for j := 0; j < 1+r.Intn(3); j++ {
			plan = append(plan, []string{"u", "x", "n91", "q12345", "c(u,p)"}[r.Intn(5)])
		}
		plan = append(plan, "w2", "a1", "a0")
		g.Emit("c16.run o,o "+strings.Join(plan, ";"), "encoded-request-waits-for-write-lock")
	}
	n := g.N(60, 1500)
	for i := 0; i < n; i++ {
		var plan []string
		reqs := 0
		hostile := hostile
		if r.Intn(2) == 0 {
			// a notification with an arbitrary error_code among the hostile items of this scenario
			code := int64(r.Intn(256))
			switch r.Intn(6) {
			case 0:
				code = -1 - int64(r.Intn(1<<31))
			case 1:
				code = int64(r.U64() % (1 << 32))
			}
			hostile = append(append([]string{}, hostile...), fmt.Sprintf("b/%d", code), fmt.Sprintf("b/%d", 65+r.Intn(191)))
		}
		if r.Intn(2) == 0 {
			// service requests / informational messages and counts read as signed among the hostile items
			extra := []string{svc[r.Intn(len(svc))], svc[r.Intn(len(svc))] + "~", "z(" + svc[r.Intn(len(svc))] + ")"}
			for q := 0; q < 3; q++ {
				c := uint32(r.U64())
				switch r.Intn(4) {
				case 0:
					c = 0x80000000 + uint32(r.Intn(3)) - 1
				case 1:
					c = 0xffffffff - uint32(r.Intn(3))
				case 2:
					c |= 0x80000000
				}
				it := fmt.Sprintf("%s%d", []string{"mc", "mc", "vk", "vs", "vr", "va", "vf"}[r.Intn(7)], c)
				if r.Bool() {
					it += fmt.Sprintf("+%d", 1+r.Intn(3))
				}
				extra = append(extra, it)
			}
			extra = append(extra, fmt.Sprintf("ml%d", 21+uint32(r.U64())%(1<<32-21)))
			hostile = append(append([]string{}, hostile...), extra...)
		}
		if r.Intn(6) == 0 {
			// the server's msg_ids anywhere in the 64-bit range (1 or 3 modulo 4)
			plan = append(plan, fmt.Sprintf("I%d", (r.U64()|1)%(1<<64-4096)))
		}
		if r.Intn(3) == 0 {
			// make sure the client has written an acknowledgement the server can name
			plan = append(plan, "u", "W")
			hostile = append(append([]string{}, hostile...), fmt.Sprintf("rk0/%d", 2000+r.Intn(100)), "Bk0", "=")
		}
		// an optional answered call first (so that duplicates of its result can be replayed)
		first := r.Intn(3) == 0
		if first {
			plan = append(plan, "g0", "w1", "a0", "j")
			reqs = 1
		}
		for j := 0; j < 1+r.Intn(8); j++ {
			it := hostile[r.Intn(len(hostile))]
			if it == "B0" {
				continue // needs a pending request of caller 0; used below
			}
			switch r.Intn(6) {
			case 0:
				var in []string
				for q := 0; q < 1+r.Intn(4); q++ {
					x := hostile[r.Intn(len(hostile))]
					if x != "B0" && x != "=" { // "=" (verbatim re-send) is a step, not a container member
						in = append(in, x)
					}
				}
				if first && r.Bool() {
					in = append(in, "d0")
				}
				if len(in) > 0 {
					plan = append(plan, "c("+strings.Join(in, ",")+")")
				}
			case 1:
				if first {
					plan = append(plan, "d0")
				}
			case 2:
				plan = append(plan, "close")
			default:
				plan = append(plan, it)
			}
		}
		// the probe: caller 1 (fresh), must complete
		plan = append(plan, "g1", fmt.Sprintf("w%d", reqs+1))
		if r.Intn(4) == 0 {
			plan = append(plan, hostile[r.Intn(5)])
		}
		switch r.Intn(5) {
		case 0:
			plan = append(plan, fmt.Sprintf("N%d(a1)", 1+r.Intn(4))) // an answer nested deeper than the client accepts is lost with its container
		case 1:
			plan = append(plan, "c(p,a1)")
		default:
			plan = append(plan, "a1")
		}
		g.Emit("c16.run o,o "+strings.Join(plan, ";"), "hostile-then-probe")
	}
	// bad_msg_notification for a pending request: its caller gets the error, a later probe completes
	g.Emit("c16.run o,o g0;w1;B0;j;g1;w2;a1", "badmsg-for-pending")
	c16GenPlain(g)
	c16GenLostWrites(g)
	c16GenFrames(g)
}

// c16GenPlain: PLAIN-TEXT frames (auth_key_id 0, msg_id, length, body — the envelope of the key exchange, which
// anybody on the path can write: no key is needed) arriving on a session that already works under its auth key.
// Plan step ~<item>: every kind of message the client acts on — new_session_created and bad_server_salt with a
// salt of their own, an rpc_result / rpc_error / bad_msg_notification naming a pending request (with a value the
// server's script never sends, and with exactly the value it will send), an update, service traffic, unknown and
// truncated bodies, containers of these, nested and gzip_packed — alone, between ordinary messages, with calls
// pending, straight after a reconnect, damaged (~~ client-parity msg_id, ~+ wrong length); then the pending calls
// are answered by the server and a probe must complete. The oracle (rsJudgeTrace, verdict "plain"): no caller
// returns what a plain frame carried, no salt of a plain frame is stored or used, no request is repeated because
// of one, the application's handler (registered by the harness, event H) is not shown its content, nothing in it
// is acknowledged; one warning per frame.
func c16GenPlain(g *G) {
	r := g.R
	tag := "plain-frame-to-keyed-client"
	salt := func() string { return fmt.Sprintf("%d", 66000+r.Intn(30000)) }
	for _, it := range []string{"n" + salt(), "u", "x", "p", "k", "e", "t", "b", "q12345", "Mpi", "Msr1", "0", "z(u)", "N2(n" + salt() + ")",
		"N6(u)", "c(u,n" + salt() + ",p)", "kb"} {
		g.Emit("c16.run o,o ~"+it+";g1;w1;a1", tag)
	}
	for _, it := range []string{"r0/" + salt(), "F0", "a0", "az", "E0", "B0", "T0", "c(F0)", "c(n" + salt() + ",u,F0)", "c(r0/" + salt() + ",B0)", "z(F0)", "N3(F0)",
		"c(p,N1(c(u,F0)))"} {
		if it == "az" {
			it = "a0z"
		}
		g.Emit("c16.run o,o g0;w1;~"+it+";a0;j;g1;w2;a1", tag)
	}
	// damaged plain frames (refused by the envelope layer in any state), a plain frame as the first thing after a
	// reconnect, between a genuine salt rotation and the repeated request, while the probe is pending, many in a row
	g.Emit("c16.run o,o g0;w1;~~F0;~+F0;~~n"+salt()+";~+u;a0;j;g1;w2;a1", tag)
	g.Emit("c16.run o,o g0;w1;close;~n"+salt()+";~F0;a0;j;~u;g1;w2;a1", tag)
	g.Emit("c16.run o,o g0;w1;a0;j;X;~n"+salt()+";~u;g1;w2;~F1;a1", tag)
	g.Emit("c16.run o,o g0;w1;r0/2000;w2;~r0/"+salt()+";~n"+salt()+";a0;j;g1;w3;a1", tag)
	g.Emit("c16.run o,o u;W;~rk0/"+salt()+";~Bk0;g1;w1;~F1;~B1;~r1/"+salt()+";a1", tag)
	g.Emit("c16.run o,o,o g0+1;w2;~c(F0,F1);~F1;~F0;u;~u;a1;n77;a0;j;g2;w3;c(p,a2)", tag)
	{
		var many []string
		for j := 0; j < 40; j++ {
			many = append(many, "~"+[]string{"F0", "u", "n" + salt(), "r0/" + salt(), "B0", "x"}[j%6])
		}
		g.Emit("c16.run o,o g0;w1;"+strings.Join(many, ";")+";a0;j;g1;w2;a1", tag)
	}
	n := g.N(30, 800)
	for i := 0; i < n; i++ {
		var plan []string
		if r.Intn(5) == 0 {
			plan = append(plan, "P1")
		}
		pend := r.Intn(3) // callers 0..pend-1 have a call pending while the frames arrive; caller 2 is the probe
		reqs := pend
		switch pend {
		case 1:
			plan = append(plan, "g0", "w1")
		case 2:
			plan = append(plan, "g0+1", "w2")
		}
		one := func() string {
			pool := []string{"n" + salt(), "u", "x", "p", "k", "e", "t", "b", "q12345", "tr12", "Mrr1", "Mfs1", "zt"}
			for c := 0; c < pend; c++ {
				pool = append(pool, fmt.Sprintf("r%d/%s", c, salt()), fmt.Sprintf("F%d", c), fmt.Sprintf("F%d", c), fmt.Sprintf("a%d", c),
					fmt.Sprintf("E%d", c), fmt.Sprintf("B%d", c), fmt.Sprintf("U%d", c))
			}
			return pool[r.Intn(len(pool))]
		}
		for j, m := 0, 1+r.Intn(5); j < m; j++ {
			switch r.Intn(10) {
			case 0, 1: // an ordinary message of the server in between
				plan = append(plan, []string{"u", "x", "p", "n77", "q12345", "c(u,p)", "b"}[r.Intn(7)])
			case 2:
				if r.Intn(3) == 0 {
					plan = append(plan, "close")
				} else {
					plan = append(plan, "~~"+one(), "~+"+one())
				}
			case 3: // a container of several
				var in []string
				for q := 0; q < 1+r.Intn(4); q++ {
					in = append(in, one())
				}
				plan = append(plan, "~c("+strings.Join(in, ",")+")")
			case 4:
				plan = append(plan, []string{"~z(", "~N1(", "~N2(", "~N5("}[r.Intn(4)]+one()+")")
			default:
				plan = append(plan, "~"+one())
			}
		}
		order := rsPerm(r, pend)
		for _, c := range order {
			plan = append(plan, fmt.Sprintf("a%d", c))
		}
		if pend > 0 {
			plan = append(plan, "j")
		}
		reqs++
		plan = append(plan, "g2", fmt.Sprintf("w%d", reqs))
		if r.Bool() {
			plan = append(plan, []string{"~F2", "~B2", "~r2/" + salt(), "~c(F2,u)", "~a2"}[r.Intn(5)])
		}
		plan = append(plan, []string{"a2", "c(p,a2)", "a2z"}[r.Intn(3)])
		g.Emit("c16.run o,o,o "+strings.Join(plan, ";"), tag)
	}
}

// c16GenLostWrites: the connection goes away in ways that are not the orderly half-close of step "close", and
// writes of the client fail — then more traffic, and a probe that must complete on a connection made with the same
// key (no plain-text frame from the client, event P).
//
//   - a write fails (injected through the write hook: an acknowledgement, a request of a caller) and the client goes
//     on sending: the following acknowledgements, the next requests;
//   - the server sends several content-related messages and drops the connection at once (plan step drop), before the
//     client has acknowledged any of them (the receive loop is held for a moment through its yield point so that this
//     is certain): the client still reads all of them and then the end of the stream, its acknowledgements go into a
//     connection that is gone — the first write provokes the reset, the following ones fail —, it reconnects;
//   - the stream ends in the middle of a frame (cut<n>:<item>: inside the length prefix, at its end, inside the
//     packet) or with a reset (rst); the message that was cut is sent again on the new connection;
//   - (long, each in a process of its own, concurrently with everything else, see c16EmitLong) a connection older than
//     one keepalive period: the client's keepalive ping is answered with a bare pong as a conformant server does,
//     then the server closes / the application reconnects; and a server that stays silent beyond the client's read
//     timeout (65 s): whatever the client does about it, a request issued afterwards must complete.
func c16GenLostWrites(g *G) {
	r := g.R
	tag := "lost-writes-and-broken-connections"
	g.Emit("c16.run o,o fk:1;u;u;x;g1;w1;a1", tag)
	g.Emit("c16.run o,o g0;w1;fk:2;c(u,u,a0);u;j;n77;g1;w2;a1", tag)
	g.Emit("c16.run o,o,o fq:1;g0;j;u;g1;w1;a1;j;fq:1;fk:1;g2;j;u;g2;w2;a2", tag)
	g.Emit("c16.run o,o yr*:20000:1;c(u,u,u);u;x;drop;g1;w1;a1", tag)
	g.Emit("c16.run o,o g0;w1;a0;j;W;yr*:20000:1;u;u;u;u;u;u;drop;u;g1;w2;c(u,a1)", tag)
	g.Emit("c16.run o,o,o g0;w1;yr*:20000:1;c(u,x,u,n77);drop;a0;j;yr*:20000:1;u;u;drop;g1+2;w3;a2;a1", tag)
	g.Emit("c16.run o,o g0;w1;cut1:a0;a0;j;g1;w2;a1", tag)
	g.Emit("c16.run o,o g0;w1;cut3:a0;a0;j;cut4:u;g1;w2;cut5:a1;a1", tag)
	g.Emit("c16.run o,o g0;w1;cut30:a0;cut60:a0;a0;j;g1;w2;a1", tag)
	g.Emit("c16.run o,o u;W;rst;g1;w1;a1", tag)
	g.Emit("c16.run o,o g0;w1;a0;j;W;rst;u;W;rst;g1;w2;a1", tag)
	n := g.N(10, 300)
	for i := 0; i < n; i++ {
		var plan []string
		reqs := 0
		if r.Bool() {
			plan = append(plan, "g0", "w1", "a0", "j", "W")
			reqs = 1
		}
		for j, m := 0, 1+r.Intn(3); j < m; j++ {
			switch r.Intn(4) {
			case 0: // injected write faults, then traffic that needs acknowledging
				plan = append(plan, fmt.Sprintf("fk:%d", 1+r.Intn(3)))
				for q := 0; q < 2+r.Intn(4); q++ {
					plan = append(plan, []string{"u", "x", "n77", "c(u,u)", "q12345"}[r.Intn(5)])
				}
			case 1: // several content-related messages, then the connection is dropped with the acknowledgements unread
				plan = append(plan, "W", "yr*:20000:1")
				for q := 0; q < 2+r.Intn(6); q++ {
					plan = append(plan, []string{"u", "x", "c(u,x,u)", "n77", "q12345", "z(u)"}[r.Intn(6)])
				}
				plan = append(plan, "drop")
			case 2: // the stream ends inside a frame
				plan = append(plan, fmt.Sprintf("cut%d:%s", []int{1, 2, 3, 4, 5, 12, 28, 29, 44, 60, 61}[r.Intn(11)], []string{"u", "x", "p", "c(u,p)", "n77"}[r.Intn(5)]))
			default: // reset, with nothing unread on either side
				plan = append(plan, "W", "rst")
			}
		}
		reqs++
		plan = append(plan, "g1", fmt.Sprintf("w%d", reqs))
		if r.Intn(3) == 0 {
			plan = append(plan, fmt.Sprintf("cut%d:a1", 1+r.Intn(50)))
		}
		plan = append(plan, []string{"a1", "c(u,a1)", "a1z"}[r.Intn(3)])
		g.Emit("c16.run o,o "+strings.Join(plan, ";"), tag)
	}
	// the long ones: a connection that has lived for a keepalive period (one minute, a constant of the library)
	c16EmitLong(g, "c16.run o,o g0;w1;a0;j;wk1;pk;s300000;close;g1;w2;a1", "connection-older-than-a-keepalive-period")
	c16EmitLong(g, "c16.run o,o g0;w1;a0;j;u;wk1;pk;s200000;X;u;g1;w2;a1", "connection-older-than-a-keepalive-period")
	// … and a server that says nothing for longer than the client's read timeout (the keepalive ping stays unanswered)
	c16EmitLong(g, "c16.run o,o g0;w1;a0;j;wk1;s6500000;g1;w2;a1", "server-silent-beyond-the-read-timeout")
	if g.Thorough() {
		c16EmitLong(g, "c16.run o,o g0;w1;a0;j;wk1;pk;s100000;drop;u;g1;w2;a1", "connection-older-than-a-keepalive-period")
		c16EmitLong(g, "c16.run o,o u;W;s66500000;u;g1;w1;a1", "server-silent-beyond-the-read-timeout")
	}
}

// ---- scenarios that take longer than a minute ------------------------------------------------------------------
//
// They are ordinary c16.run operations. So that the quick tier does not take a minute per scenario, the generator
// starts each of them at once in a process of its own (the same binary, the one operation as its -ops file — a
// separate process because the yield and fault rules of the scenarios are process-wide); when the main loop reaches
// the operation it takes the line that process has produced. Read from a file (corpus, replay) the operation simply
// runs where it stands.

type c16Child struct {
	done chan struct{}
	out  string
}

var c16Long = map[string]*c16Child{}

func c16EmitLong(g *G, op string, tags ...string) {
	g.Emit(op, tags...)
	key := strings.Join(strings.Fields(op), " ")
	if _, dup := c16Long[key]; dup {
		return
	}
	ch := &c16Child{done: make(chan struct{})}
	c16Long[key] = ch
	go func() {
		defer close(ch.done)
		dir, err := os.MkdirTemp("", "vh-c16-long-")
		if err != nil {
			ch.out = "note=could-not-start-the-scenario's-process t=0-0 trace="
			return
		}
		defer os.RemoveAll(dir)
		opsf := filepath.Join(dir, "ops")
		_ = os.WriteFile(opsf, []byte(op+"\n"), 0o644)
		cmd := exec.Command(os.Args[0], "c16", "-dir", dir, "-ops", opsf)
		msg, err := cmd.CombinedOutput()
		b, rerr := os.ReadFile(filepath.Join(dir, "go.out"))
		if line := strings.TrimSpace(string(b)); rerr == nil && line != "" {
			ch.out = strings.SplitN(line, "\n", 2)[0]
			return
		}
		// no result line: the process of the scenario died (a panic in the client's receive goroutine, a fatal error)
		tail := strings.Join(strings.Fields(string(msg)), "_")
		if len(tail) > 300 {
			tail = tail[len(tail)-300:]
		}
		ch.out = fmt.Sprintf("note=the-client-process-died(%v):%s t=0-0 trace=", err, tail)
	}()
}

// ---- frames of the transport level that are no sealed message (plan step !…, event J, see sendJunk) ---------------
//
// The four-byte error code a real server answers a keyed client with (-404, -429, -444; 404, 0, -1 and the int32
// extremes as well), frames of 0..3 and 5..7 bytes, frames of 8..23 bytes under the session's key id (no room for a
// msg_key), under another key id, under key id 0 — alone, several in a row, before a request, with a request in
// flight, around a reconnect. Oracle: the process lives, one warning per frame (stage 2), no connection is replaced
// because of one (c16Judge), the request in flight gets the server's answer and the probe completes.
func c16GenFrames(g *G) {
	r := g.R
	tag := "transport-frame-that-is-no-message"
	codes := []string{"!c-404", "!c-429", "!c-444", "!c404", "!c0", "!c-1", "!c1", "!c2147483647", "!c-2147483648", "!c-503", "!c429"}
	short := []string{"!z0", "!z1", "!z2", "!z3", "!z5", "!z6", "!z7", "!xff", "!x0102030405", "!xffffffffffffff"}
	keyed := []string{"!k8", "!k9", "!k12", "!k16", "!k20", "!k23", "!o8", "!o11", "!o16", "!o23", "!o24", "!o40", "!z8", "!z12", "!z16", "!z19", "!z20", "!z23",
		"!x0000000000000000010000000000000000000000", "!x000000000000000001000000aabbccdd01000000ff"}
	for _, c := range codes[:6] {
		g.Emit("c16.run o,o "+c+";g1;w1;a1", tag)
		g.Emit("c16.run o,o g0;w1;"+c+";a0;j;g1;w2;a1", tag)
	}
	g.Emit("c16.run o,o "+strings.Join(codes, ";")+";g1;w1;a1", tag)
	g.Emit("c16.run o,o g0;w1;"+strings.Join(codes, ";")+";a0;j;g1;w2;c(u,a1)", tag)
	g.Emit("c16.run o,o "+strings.Join(short, ";")+";g1;w1;a1", tag)
	g.Emit("c16.run o,o g0;w1;"+strings.Join(short, ";")+";a0;j;g1;w2;a1", tag)
	g.Emit("c16.run o,o "+strings.Join(keyed, ";")+";g1;w1;a1", tag)
	g.Emit("c16.run o,o g0;w1;"+strings.Join(keyed, ";")+";a0;j;g1;w2;a1", tag)
	for _, f := range []string{"!z0", "!z3", "!z7", "!k8", "!k23", "!o8", "!z8", "!z23"} {
		g.Emit("c16.run o,o g0;w1;"+f+";a0;j;"+f+";g1;w2;a1", tag)
	}
	// around a replaced connection: straight after the close, straight after the application's Reconnect
	g.Emit("c16.run o,o g0;w1;!c-404;close;!c-429;!z0;g1;w2;a1;a0", tag)
	g.Emit("c16.run o,o !c-404;u;W;!k9;s3000;X;!c-404;!z5;g1;w1;a1", tag)
	var forty []string
	for i := 0; i < 40; i++ {
		forty = append(forty, "!c-429")
	}
	g.Emit("c16.run o,o g0;w1;"+strings.Join(forty, ";")+";a0;j;g1;w2;a1", tag)
	all := append(append(append([]string{}, codes...), short...), keyed...)
	ordinary := []string{"u", "x", "p", "n77", "c(u,p)", "q12345", "t", "~u", "b"}
	n := g.N(14, 400)
	for i := 0; i < n; i++ {
		var plan []string
		reqs, pending := 0, false
		pick := func() string {
			switch r.Intn(8) {
			case 0:
				return fmt.Sprintf("!c%d", int32(r.U64()))
			case 1:
				return fmt.Sprintf("!%s%d", []string{"k", "o"}[r.Intn(2)], 8+r.Intn(16))
			case 2:
				return fmt.Sprintf("!z%d", []int{0, 1, 2, 3, 5, 6, 7, 8 + r.Intn(16)}[r.Intn(8)])
			}
			return all[r.Intn(len(all))]
		}
		if r.Bool() {
			plan = append(plan, "g0", "w1")
			reqs, pending = 1, true
		}
		for j := 0; j < 1+r.Intn(7); j++ {
			switch r.Intn(5) {
			case 0:
				plan = append(plan, ordinary[r.Intn(len(ordinary))])
			case 1:
				if r.Intn(3) == 0 {
					plan = append(plan, "close") // (not X: what is unread when the application reconnects is lost with the connection)
				}
				plan = append(plan, pick())
			default:
				plan = append(plan, pick())
			}
		}
		if pending && r.Bool() {
			plan = append(plan, "a0", "j")
			pending = false
		}
		reqs++
		plan = append(plan, "g1", fmt.Sprintf("w%d", reqs))
		for j := 0; j < r.Intn(3); j++ {
			plan = append(plan, pick()) // with the probe itself in flight
		}
		plan = append(plan, []string{"a1", "c(u,a1)"}[r.Intn(2)])
		if pending {
			plan = append(plan, "a0")
		}
		g.Emit("c16.run o,o "+strings.Join(plan, ";"), tag)
	}
}

// c16Judge: the shared trace oracle, and: no connection is replaced that nobody ended. Every connection after the
// first (N) answers a cause on record — the peer ended the one before (C:eof|drop|rst|cut), the application
// reconnected (C:app), or the client found it broken (V:conn-broken: read deadline). A client that redials because of
// a frame it could not use (an error code of the transport, a frame too short) drops whatever the server had in
// flight on the old connection.
func c16Judge(op []string, out string) string {
	if why := rsJudge("c16")(op, out); why != "" {
		return why
	}
	if len(op) == 0 || op[0] != "c16.run" || strings.HasPrefix(out, "panic") {
		return ""
	}
	_, _, _, trace := rsParseRun(out)
	conns, causes, junk := 0, 0, 0
	for _, e := range rsSplitTrace(trace) {
		if e == "Z" {
			break
		}
		switch {
		case strings.HasPrefix(e, "N:"):
			conns++
		case e == "C" || strings.HasPrefix(e, "C:") || e == "V:conn-broken":
			causes++
		case strings.HasPrefix(e, "J:"):
			junk++
		}
	}
	if conns > 1+causes {
		return fmt.Sprintf("the client made %d connections; the peer or the application ended only %d (transport-level frames that are no message: %d): a connection was replaced that nobody ended", conns, causes, junk)
	}
	return ""
}

func c16Exec(op []string) string {
	if ch, ok := c16Long[strings.Join(op, " ")]; ok {
		delete(c16Long, strings.Join(op, " "))
		<-ch.done
		return ch.out
	}
	return rsExec("c16")(op)
}

func init() {
	register(&Prop{Name: "c16", Gen: c16Gen, Exec: c16Exec, Judge: c16Judge, Teardown: rsTeardown})
}
