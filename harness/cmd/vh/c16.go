package main

// C16 — no server message kills the client or stops its receive loop: hostile and odd histories (unknown
// and unexpected constructors, results for unknown or answered requests, notifications, empty containers,
// truncated bodies, connection close at any point), each followed by a probe request that must complete.

import (
	"fmt"
	"strings"
)

func c16Gen(g *G) {
	r := g.R
	hostile := []string{"p", "k", "u", "x", "t", "e", "b", "q12345", "q0", "n77", "B0", "zt", "zc", "N2(x)", "N5(u)", "N6(p)", "N3(q12345)",
		"tr4", "tr5", "tr8", "tr11", "tr12", "tr13", "tr16", "tr19", "tr20", "0"}
	g.Emit("c16.run o g0;w1;b;q12345;x;t;e;u;a0", "each-kind")
	g.Emit("c16.run o,o g0;w1;close;g1;w2;a1;a0", "close-then-probe")
	// notifications naming a message the client wrote that is not a request (its own msgs_ack): a real
	// server rejects those too when the salt rotates; late and repeated deliveries
	g.Emit("c16.run o,o g0;w1;u;W;rk0/2000;a0;j;g1;w2;a1", "notification-names-an-ack")
	g.Emit("c16.run o,o g0;w1;u;W;Bk0;a0;j;g1;w2;a1", "notification-names-an-ack")
	g.Emit("c16.run o,o u;W;c(rk0/2000,Bk0);x;W;rk1/2001;g1;w1;a1", "notification-names-an-ack")
	g.Emit("c16.run o,o h;u;W;=;^x;=;g1;w1;a1", "late-and-repeated")
	// compressed messages whose framing is fine and whose stream is damaged; containers inside containers, deep,
	// repeatedly, with the answer itself nested
	g.Emit("c16.run o,o g0;w1;zt;zc;c(zt,p);a0;j;g1;w2;a1", "damaged-gzip")
	// the application (or a PHONE_MIGRATE answer) reconnects from its own goroutine while the receive goroutine
	// is between two reads of the connection; later requests complete
	g.Emit("c16.run o,o g0;w1;a0;j;yR*:3000:1;p;s500;X;g1;w2;a1", "reconnect-from-another-goroutine")
	g.Emit("c16.run o,o,o g0;w1;a0;j;X;g1;w2;a1;j;yR*:2000:2;p;s300;X;X;g2;w3;a2", "reconnect-from-another-goroutine")
	// frames of more than 2^20 bytes (a long msgs_ack, a big unknown object): the stream stays in step and the
	// probe completes; the probe's answer arrives before its caller waits for it
	g.Emit("c16.run o,o kb;g1;w1;a1", "frame-beyond-2^20")
	g.Emit("c16.run o,o g0;w1;ub;kb;a0;j;g1;w2;c(kb,a1)", "frame-beyond-2^20")
	g.Emit("c16.run o,o x;b;ycq:2500:1;g1;w1;a1", "yield-caller-held-after-send")
	g.Emit("c16.run o,o t;ycq:1500:2;g0+1;w2;c(u,a1);a0", "yield-caller-held-after-send")
	// an rpc_result cut at every length (the client looks into it before decoding it)
	g.Emit("c16.run o,o tr4;tr5;tr6;tr7;tr8;tr9;tr10;tr11;tr12;g1;w1;c(tr8,tr13,a1)", "truncated-rpc-result")
	g.Emit("c16.run o,o N5(u);N6(x);N7(p);N5(n88);g1;w1;c(p,a1)", "nested-containers")
	g.Emit("c16.run o,o N6(u);g1;w1;N4(a1)", "nested-containers")
	g.Emit("c16.run o,o,o g0+1+2;w3;N9(p);N2(c(a1,u));N4(a2);N2(c(u,N1(a0)))", "nested-containers")
	// one message of thousands of nested containers (every accepted level would hold a copy of the levels below
	// it: memory quadratic in the depth) must cost next to nothing and must not delay the probe
	g.Emit("c16.run o,o N3000(p);N20000(u);g1;w1;a1", "nested-containers-deep")
	if g.Thorough() {
		g.Emit("c16.run o,o N100000(x);N400000(p);g1;w1;c(p,a1)", "nested-containers-deep")
	}
	// well-formed service messages whose enumerated field carries a value outside the specification's list:
	// bad_msg_notification with every error_code 0..255 for a message the client does not know (in containers of
	// 64), with negative and large codes, for a pending request, for one of the client's own acknowledgements;
	// bad_server_salt with other codes than 48
	for lo := 0; lo < 256; lo += 64 {
		var in []string
		for c := lo; c < lo+64; c++ {
			in = append(in, fmt.Sprintf("b/%d", c))
		}
		g.Emit("c16.run o,o c("+strings.Join(in, ",")+");g1;w1;a1", "notification-code-outside-the-list")
	}
	g.Emit("c16.run o,o b/-1;b/-2147483648;b/2147483647;b/65;b/256;b/4294967295;b/1000000;g1;w1;a1", "notification-code-outside-the-list")
	g.Emit("c16.run o,o,o g0;w1;B0/100;j;u;W;Bk0/255;g2;w2;B2/-1;j;g1;w3;a1", "notification-code-outside-the-list")
	g.Emit("c16.run o,o g0;w1;r0/2000/0;w2;r0/2001/255;w3;r0/2002/-7;w4;a0;j;u;W;rk0/2003/99;g1;w5;a1", "notification-code-outside-the-list")
	// a probe that has encoded its request and waits for the write lock (a write is in progress) while the
	// receive loop acknowledges ordinary content-related messages, with every goroutine of the client on one
	// processor (P1) and on all: the probe's request reaches the server as encoded and the probe completes
	g.Emit("c16.run o,o P1;ywq:3000:1;g0;s400;g1;s400;u;w2;a0;a1", "encoded-request-waits-for-write-lock")
	g.Emit("c16.run o,o P1;g0;w1;ywk:3000:1;n77;s400;g1;s400;x;w2;a1;a0", "encoded-request-waits-for-write-lock")
	g.Emit("c16.run o,o ywq:3000:1;g0;s400;g1;s400;c(u,x,n78);w2;a1;a0", "encoded-request-waits-for-write-lock")
	// every service message a server may legitimately send that is a REQUEST to the client or an informational
	// message (service messages about messages: msgs_state_req, msg_resend_req, msg_resend_ans_req, msgs_state_info,
	// msgs_all_info, msg_detailed_info, msg_new_detailed_info; answers of service requests: future_salts,
	// destroy_session_ok/none, rpc_answer_*; a ping) — well-formed, with empty and non-empty id lists, alone, with a
	// request pending, in a container, gzip_packed, as content-related and as not content-related message — each
	// followed by ordinary traffic (a probe) that must still be served
	svc := []string{"Msr1", "Msr0", "Msr3", "Msr64", "Mrr1", "Mrr0", "Mrr2", "Mra1", "Mra0", "Msi1", "Msi0", "Msi5", "Mai2", "Mai0", "Mdi", "Mni",
		"Mfs1", "Mfs0", "Mfs3", "Mdo", "Mdn", "Mau", "Mar", "Mad", "Mpi"}
	for _, m := range svc {
		g.Emit("c16.run o,o "+m+";g1;w1;a1", "service-request-or-information")
	}
	for i := 0; i < len(svc); i += 5 {
		grp := svc[i:min(i+5, len(svc))]
		var flipped, packed []string
		for _, m := range grp {
			flipped = append(flipped, m+"~")
			packed = append(packed, "z("+m+")")
		}
		g.Emit("c16.run o,o g0;w1;"+strings.Join(grp, ";")+";a0;j;g1;w2;a1", "service-request-or-information")
		g.Emit("c16.run o,o c("+strings.Join(grp, ",")+",p);g1;w1;c("+strings.Join(flipped, ",")+",a1)", "service-request-or-information")
		g.Emit("c16.run o,o "+strings.Join(packed, ";")+";g1;w1;z(c("+strings.Join(grp, ",")+"));a1", "service-request-or-information")
	}
	// service messages whose 32-bit count / length fields carry values a decoder may read as signed: the container
	// count, the byte length of a container member, the vector counts of msgs_ack, msgs_state_req, msg_resend_req,
	// msgs_all_info and future_salts at 2^31-1, 2^31, 2^32-1 (and their neighbours), with nothing, one and two
	// elements behind them; alone, inside a container, gzip_packed, nested
	edge := []string{"2147483647", "2147483648", "4294967295", "2147483649", "4294967294", "2147483646", "1021", "65536"}
	for _, kind := range []string{"mc", "vk", "vs", "vr", "va", "vf"} {
		var bare, one, two []string
		for _, c := range edge {
			bare, one, two = append(bare, kind+c), append(one, kind+c+"+1"), append(two, kind+c+"+2")
		}
		g.Emit("c16.run o,o "+strings.Join(bare[:3], ";")+";g1;w1;a1", "count-read-as-signed")
		g.Emit("c16.run o,o "+strings.Join(one[:3], ";")+";g1;w1;a1", "count-read-as-signed")
		g.Emit("c16.run o,o g0;w1;"+strings.Join(bare[3:], ";")+";"+strings.Join(two[:3], ";")+";a0;j;g1;w2;a1", "count-read-as-signed")
		g.Emit("c16.run o,o c("+strings.Join(one, ",")+",p);z("+bare[1]+");z("+one[2]+");N2("+bare[2]+");g1;w1;c("+two[1]+",a1)", "count-read-as-signed")
	}
	g.Emit("c16.run o,o ml2147483647;ml2147483648;ml4294967295;ml21;ml4294967294;g1;w1;a1", "count-read-as-signed")
	g.Emit("c16.run o,o c(ml2147483648,p);z(ml4294967295);c(p,ml2147483647);N3(ml2147483648);g1;w1;c(ml4294967295,a1)", "count-read-as-signed")
	// server msg_ids over the whole unsigned 64-bit range (a server clock far ahead or behind; after 2038 bit 63 is
	// set): 1 and 3 modulo 4, across 2^63, just below 2^64, near zero
	g.Emit("c16.run o,o I9223372036854775801;u;x;g0;w1;a0;j;n77;g1;w2;c(u,a1)", "server-msgid-range")
	g.Emit("c16.run o,o I18446744073709547619;u;b;g0;w1;a0;j;I5;x;g1;w2;a1", "server-msgid-range")
	nw := g.N(6, 120)
	for i := 0; i < nw; i++ {
		// caller 0's write (or the write of an acknowledgement) is slow; the probe encodes meanwhile; one to three
		// content-related messages arrive meanwhile
		var plan []string
		if r.Bool() {
			plan = append(plan, "P1")
		}
		hold := 2000 + r.Intn(2500)
		if r.Intn(3) == 0 {
			plan = append(plan, "g0", "w1", fmt.Sprintf("ywk:%d:1", hold), "u", "s300")
		} else {
			plan = append(plan, fmt.Sprintf("ywq:%d:1", hold), "g0", "s300")
		}
		plan = append(plan, "g1", fmt.Sprintf("s%d", 200+r.Intn(300)))
		for j := 0; j < 1+r.Intn(3); j++ {
			plan = append(plan, []string{"u", "x", "n91", "q12345", "c(u,p)"}[r.Intn(5)])
		}
		plan = append(plan, "w2", "a1", "a0")
		g.Emit("c16.run o,o "+strings.Join(plan, ";"), "encoded-request-waits-for-write-lock")
	}
	n := g.N(60, 1500)
	for i := 0; i < n; i++ {
		var plan []string
		reqs := 0
		hostile := hostile
		if r.Intn(2) == 0 {
			// a notification with an arbitrary error_code among the hostile items of this scenario
			code := int64(r.Intn(256))
			switch r.Intn(6) {
			case 0:
				code = -1 - int64(r.Intn(1<<31))
			case 1:
				code = int64(r.U64() % (1 << 32))
			}
			hostile = append(append([]string{}, hostile...), fmt.Sprintf("b/%d", code), fmt.Sprintf("b/%d", 65+r.Intn(191)))
		}
		if r.Intn(2) == 0 {
			// service requests / informational messages and counts read as signed among the hostile items
			extra := []string{svc[r.Intn(len(svc))], svc[r.Intn(len(svc))] + "~", "z(" + svc[r.Intn(len(svc))] + ")"}
			for q := 0; q < 3; q++ {
				c := uint32(r.U64())
				switch r.Intn(4) {
				case 0:
					c = 0x80000000 + uint32(r.Intn(3)) - 1
				case 1:
					c = 0xffffffff - uint32(r.Intn(3))
				case 2:
					c |= 0x80000000
				}
				it := fmt.Sprintf("%s%d", []string{"mc", "mc", "vk", "vs", "vr", "va", "vf"}[r.Intn(7)], c)
				if r.Bool() {
					it += fmt.Sprintf("+%d", 1+r.Intn(3))
				}
				extra = append(extra, it)
			}
			extra = append(extra, fmt.Sprintf("ml%d", 21+uint32(r.U64())%(1<<32-21)))
			hostile = append(append([]string{}, hostile...), extra...)
		}
		if r.Intn(6) == 0 {
			// the server's msg_ids anywhere in the 64-bit range (1 or 3 modulo 4)
			plan = append(plan, fmt.Sprintf("I%d", (r.U64()|1)%(1<<64-4096)))
		}
		if r.Intn(3) == 0 {
			// make sure the client has written an acknowledgement the server can name
			plan = append(plan, "u", "W")
			hostile = append(append([]string{}, hostile...), fmt.Sprintf("rk0/%d", 2000+r.Intn(100)), "Bk0", "=")
		}
		// an optional answered call first (so that duplicates of its result can be replayed)
		first := r.Intn(3) == 0
		if first {
			plan = append(plan, "g0", "w1", "a0", "j")
			reqs = 1
		}
		for j := 0; j < 1+r.Intn(8); j++ {
			it := hostile[r.Intn(len(hostile))]
			if it == "B0" {
				continue // needs a pending request of caller 0; used below
			}
			switch r.Intn(6) {
			case 0:
				var in []string
				for q := 0; q < 1+r.Intn(4); q++ {
					x := hostile[r.Intn(len(hostile))]
					if x != "B0" && x != "=" { // "=" (verbatim re-send) is a step, not a container member
						in = append(in, x)
					}
				}
				if first && r.Bool() {
					in = append(in, "d0")
				}
				if len(in) > 0 {
					plan = append(plan, "c("+strings.Join(in, ",")+")")
				}
			case 1:
				if first {
					plan = append(plan, "d0")
				}
			case 2:
				plan = append(plan, "close")
			default:
				plan = append(plan, it)
			}
		}
		// the probe: caller 1 (fresh), must complete
		plan = append(plan, "g1", fmt.Sprintf("w%d", reqs+1))
		if r.Intn(4) == 0 {
			plan = append(plan, hostile[r.Intn(5)])
		}
		switch r.Intn(5) {
		case 0:
			plan = append(plan, fmt.Sprintf("N%d(a1)", 1+r.Intn(4))) // an answer nested deeper than the client accepts is lost with its container
		case 1:
			plan = append(plan, "c(p,a1)")
		default:
			plan = append(plan, "a1")
		}
		g.Emit("c16.run o,o "+strings.Join(plan, ";"), "hostile-then-probe")
	}
	// bad_msg_notification for a pending request: its caller gets the error, a later probe completes
	g.Emit("c16.run o,o g0;w1;B0;j;g1;w2;a1", "badmsg-for-pending")
}

func init() {
	register(&Prop{Name: "c16", Gen: c16Gen, Exec: rsExec("c16"), Judge: rsJudge("c16"), Teardown: rsTeardown})
}
