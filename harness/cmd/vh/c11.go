package main

// C11 — salt rotation: bad_server_salt at any moment, any number of times, with any number of requests in
// flight; the rejected request (and only it) is repeated under the new salt; everybody gets an answer;
// the loop does not stall; the salt is stored.

import (
	"fmt"
	"strings"
)

func c11Gen(g *G) {
	r := g.R
	g.Emit("c11.run o g0;w1;r0/555;w2;a0", "single")
	g.Emit("c11.run o,o g0+1;w2;r0/555;w3;r1/777;w4;a0;a1", "two-rotations")
	g.Emit("c11.run o,o,o g0+1+2;w3;a1;r0/601;w4;r0/602;w5;r0/603;w6;n9;a0;a2", "thrice-same-request")
	// what a real server does when the salt changes: every request in flight is rejected, each with its own
	// notification, all carrying the same new salt — back to back, and grouped in a container
	g.Emit("c11.run o,o g0+1;w2;r0/2000;r1/2000;w4;a0;a1", "burst-same-salt")
	g.Emit("c11.run o,vl,b g0+1+2;w3;c(r0/2000,r1/2000,r2/2000);w6;a2;a0;a1", "burst-same-salt")
	g.Emit("c11.run o,o ycq:1500:2;g0+1;w2;r1/2000;r0/2000;w4;a1;a0", "burst-same-salt")
	// the rotation also rejects a msgs_ack the client wrote while an ACCEPTED request is still waiting: only the
	// named message is concerned, the accepted request is not sent again; the session store refuses to write
	// the new salt (the rotation is adopted all the same, the rejected request repeated under the new salt)
	g.Emit("c11.run o,o g0+1;w2;a1;W;rk0/2000;s2000;a0", "rotation-rejects-an-ack")
	g.Emit("c11.run o,o,vl g0+1+2;w3;u;W;c(rk0/2000,r1/2000);w4;s1000;a2;a1;a0", "rotation-rejects-an-ack")
	g.Emit("c11.run o g0;w1;fs:1;r0/2000;w2;a0", "store-refuses-the-salt")
	g.Emit("c11.run o,o fs:2;g0+1;w2;r0/2000;r1/2000;w4;n2005;a0;a1", "store-refuses-the-salt")
	// a slow session store while two salts are adopted back to back: what ends up stored is the last adopted salt
	// (the writes reach the store in the order of adoption); a write fault on the acknowledgement of a container's
	// first member does not make the client skip the rotation that follows in the same container
	g.Emit("c11.run o,o ds:250:1;g0+1;w2;r0/2001;w3;r1/2002;w4;a0;a1", "slow-store")
	g.Emit("c11.run o ds:150:2;g0;w1;n2005;r0/2006;w2;n2007;a0", "slow-store")
	g.Emit("c11.run o,o g0+1;w2;fk:1;c(a0,r1/2000);w3;a1", "ack-fault-before-rotation-in-container")
	g.Emit("c11.run o,o,o g0+1+2;w3;fk:2;c(u,a0,r1/2000,r2/2000);w5;a1;a2", "ack-fault-before-rotation-in-container")
	// the same on the repository's FILE session store (plan prefix SF: session.NewFromFile on a file left by an
	// earlier run; after every Store an independent reader looks into the file): two and more salt announcements
	// in one run — rotations, new_session_created, both, a refused and a slow write in between
	g.Emit("c11.run o SF;g0;w1;r0/555;w2;a0", "file-store")
	g.Emit("c11.run o,o SF;g0+1;w2;r0/555;w3;r1/777;w4;a0;a1", "file-store")
	g.Emit("c11.run o,o,o SF;g0+1+2;w3;a1;r0/601;w4;r0/602;w5;r0/603;w6;n9;a0;a2", "file-store")
	g.Emit("c11.run o SF;n2001;n2002;g0;w1;r0/2003;w2;a0;n2004", "file-store")
	g.Emit("c11.run o,vl,b SF;g0+1+2;w3;c(r0/2000,r1/2000,r2/2000);w6;a2;a0;a1", "file-store")
	g.Emit("c11.run o,o SF;fs:1;g0+1;w2;r0/2000;w3;r1/2001;w4;n2005;a0;a1", "file-store")
	g.Emit("c11.run o,o SF;ds:120:1;g0+1;w2;r0/2001;w3;r1/2002;w4;a0;a1", "file-store")
	// announced salts that REPEAT earlier values (the scenarios start from a stored session with salt 1000): back to
	// the salt of the stored session after another one, A -> B -> A, the same salt announced twice in a row, the stored
	// salt announced first, zero, negative values, the extremes of int64 — by bad_server_salt and by
	// new_session_created, on the in-memory and on the file store. Each adopted salt is written to the store, in order.
	for _, pre := range []string{"", "SF;"} {
		g.Emit("c11.run o "+pre+"g0;w1;r0/2000;w2;r0/1000;w3;a0", "salt-repeats")
		g.Emit("c11.run o,o "+pre+"g0;w1;r0/2000;w2;a0;j;n1000;g1;w3;a1", "salt-repeats")
		g.Emit("c11.run o,o "+pre+"g0+1;w2;r0/2000;w3;r1/3000;w4;r0/2000;w5;a1;a0", "salt-repeats")
		g.Emit("c11.run o "+pre+"n1000;g0;w1;r0/1000;w2;a0;n1000", "salt-repeats")
		g.Emit("c11.run o,o "+pre+"n2000;n2000;g0+1;w2;r1/2000;w3;r0/2000;w4;a0;a1", "salt-repeats")
		g.Emit("c11.run o "+pre+"g0;w1;r0/0;w2;r0/-1;w3;r0/0;w4;a0;n-1", "salt-repeats")
		g.Emit("c11.run o,o "+pre+"n-9223372036854775808;g0+1;w2;r0/9223372036854775807;w3;c(r1/-9223372036854775808,r0/-9223372036854775808);w5;n1000;a0;a1", "salt-repeats")
		g.Emit("c11.run o,o,o "+pre+"g0+1+2;w3;c(r0/2000,r1/2000,r2/2000);w6;c(r2/1000,r0/1000);w8;n2000;a2;r1/1000;w9;a1;a0", "salt-repeats")
	}
	nb := g.N(20, 400)
	for i := 0; i < nb; i++ {
		k := 2 + r.Intn(5)
		kinds := rsKinds(r, k, []string{"o", "b", "vl", "e"})
		all := make([]int, k)
		for j := range all {
			all[j] = j
		}
		plan := []string{"g" + rsJoinInts("", all, "+"), fmt.Sprintf("w%d", k)}
		seen, salt := k, 3000
		for round := 0; round < 1+r.Intn(2); round++ {
			salt += 1 + r.Intn(90)
			sub := rsPerm(r, k)[:2+r.Intn(k-1)]
			var items []string
			for _, c := range sub {
				items = append(items, fmt.Sprintf("r%d/%d", c, salt))
			}
			if r.Bool() {
				plan = append(plan, "c("+strings.Join(items, ",")+")")
			} else {
				plan = append(plan, items...)
			}
			seen += len(sub)
			plan = append(plan, fmt.Sprintf("w%d", seen))
		}
		plan = append(plan, rsAnswerPlan(r, rsPerm(r, k), []string{"p"})...)
		if r.Bool() {
			plan = append([]string{"SF"}, plan...)
		}
		g.Emit(fmt.Sprintf("c11.run %s %s", strings.Join(kinds, ","), strings.Join(plan, ";")), "burst-same-salt-random")
	}
	n := g.N(60, 1500)
	for i := 0; i < n; i++ {
		k := 1 + r.Intn(g.N(6, 12))
		kinds := rsKinds(r, k, []string{"o", "b", "vl", "e"})
		all := make([]int, k)
		for j := range all {
			all[j] = j
		}
		plan := []string{"g" + rsJoinInts("", all, "+"), fmt.Sprintf("w%d", k)}
		seen := k
		answered := map[int]bool{}
		rot := 1 + r.Intn(4)
		salt := 1000
		used := []int{1000}       // salts announced so far, and the salt of the stored session
		repeats := r.Intn(2) == 0 // this scenario announces salts that were announced before
		for j := 0; j < rot; j++ {
			// some accepted requests are answered before the rotation
			for _, c := range rsPerm(r, k) {
				if !answered[c] && r.Intn(4) == 0 {
					plan = append(plan, "a"+fmt.Sprint(c))
					answered[c] = true
				}
			}
			// reject one unanswered request
			var cand []int
			for c := 0; c < k; c++ {
				if !answered[c] {
					cand = append(cand, c)
				}
			}
			if len(cand) == 0 {
				break
			}
			c := cand[r.Intn(len(cand))]
			salt += 1 + r.Intn(50)
			if repeats && r.Intn(2) == 0 {
				// a salt announced before (the stored one included), zero, a negative one
				salt = append(used, 0, -1-int(r.U64()%(1<<62)))[r.Intn(len(used)+2)]
			}
			used = append(used, salt)
			plan = append(plan, fmt.Sprintf("r%d/%d", c, salt))
			seen++
			plan = append(plan, fmt.Sprintf("w%d", seen))
			if r.Intn(5) == 0 {
				if repeats && r.Bool() {
					salt = used[r.Intn(len(used))]
				} else {
					salt += 7
				}
				used = append(used, salt)
				plan = append(plan, fmt.Sprintf("n%d", salt))
			}
		}
		var rest []int
		for _, c := range rsPerm(r, k) {
			if !answered[c] {
				rest = append(rest, c)
			}
		}
		plan = append(plan, rsAnswerPlan(r, rest, []string{"p"})...)
		store := "store=memory"
		if r.Bool() {
			plan = append([]string{"SF"}, plan...)
			store = "store=file"
		}
		g.Emit(fmt.Sprintf("c11.run %s %s", strings.Join(kinds, ","), strings.Join(plan, ";")), "rotations", fmt.Sprintf("rotations=%d", rot), store, fmt.Sprintf("repeats=%v", repeats))
	}
}

func init() {
	register(&Prop{Name: "c11", Gen: c11Gen, Exec: rsExec("c11"), Judge: rsJudge("c11"), Teardown: rsTeardown})
}
