package main

// C11 — salt rotation: bad_server_salt at any moment, any number of times, with any number of requests in
// flight; the rejected request (and only it) is repeated under the new salt; everybody gets an answer;
// the loop does not stall; the salt is stored.

import (
	"fmt"
	"strings"
)

func c11Gen(g *G) {
	r := g.R
	g.Emit("c11.run o g0;w1;r0/555;w2;a0", "single")
	g.Emit("c11.run o,o g0+1;w2;r0/555;w3;r1/777;w4;a0;a1", "two-rotations")
	g.Emit("c11.run o,o,o g0+1+2;w3;a1;r0/601;w4;r0/602;w5;r0/603;w6;n9;a0;a2", "thrice-same-request")
	n := g.N(60, 1500)
	for i := 0; i < n; i++ {
		k := 1 + r.Intn(g.N(6, 12))
		kinds := rsKinds(r, k, []string{"o", "b", "vl", "e"})
		all := make([]int, k)
		for j := range all {
			all[j] = j
		}
		plan := []string{"g" + rsJoinInts("", all, "+"), fmt.Sprintf("w%d", k)}
		seen := k
		answered := map[int]bool{}
		rot := 1 + r.Intn(4)
		salt := 1000
		for j := 0; j < rot; j++ {
			// some accepted requests are answered before the rotation
			for _, c := range rsPerm(r, k) {
				if !answered[c] && r.Intn(4) == 0 {
					plan = append(plan, "a"+fmt.Sprint(c))
					answered[c] = true
				}
			}
			// reject one unanswered request
			var cand []int
			for c := 0; c < k; c++ {
				if !answered[c] {
					cand = append(cand, c)
				}
			}
			if len(cand) == 0 {
				break
			}
			c := cand[r.Intn(len(cand))]
			salt += 1 + r.Intn(50)
			plan = append(plan, fmt.Sprintf("r%d/%d", c, salt))
			seen++
			plan = append(plan, fmt.Sprintf("w%d", seen))
			if r.Intn(5) == 0 {
				salt += 7
				plan = append(plan, fmt.Sprintf("n%d", salt))
			}
		}
		var rest []int
		for _, c := range rsPerm(r, k) {
			if !answered[c] {
				rest = append(rest, c)
			}
		}
		plan = append(plan, rsAnswerPlan(r, rest, []string{"p"})...)
		g.Emit(fmt.Sprintf("c11.run %s %s", strings.Join(kinds, ","), strings.Join(plan, ";")), "rotations", fmt.Sprintf("rotations=%d", rot))
	}
}

func init() {
	register(&Prop{Name: "c11", Gen: c11Gen, Exec: rsExec("c11"), Judge: rsJudge("c11")})
}
