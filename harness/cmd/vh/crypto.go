package main

// CRYPTO — correspondence of the executable Lean primitives (lean/Mtv/Crypto) with Go's standard
// library and golang.org/x/crypto/pbkdf2. Not a property of the repository: a test of the model's
// building blocks. The Judge checks the Go side against the published vectors and output lengths, so
// that a Go==Lean agreement on those lines is an agreement with the standards' example values.

import (
	"crypto/aes"
	"crypto/hmac"
	"crypto/sha1"
	"crypto/sha256"
	"crypto/sha512"
	"encoding/hex"
	"fmt"
	"hash/crc32"
	"strings"

	"golang.org/x/crypto/pbkdf2"
)

func cryptoChain(f func([]byte) []byte, x []byte, n int) []byte {
	for i := 0; i < n; i++ {
		x = f(x)
	}
	return x
}

func cryptoExec(op []string) string {
	bad := "bad-op"
	switch op[0] {
	case "crypto.sha1":
		if len(op) != 2 {
			return bad
		}
		h := sha1.Sum(parseBytes(op[1]))
		return hex.EncodeToString(h[:])
	case "crypto.sha256":
		if len(op) != 2 {
			return bad
		}
		h := sha256.Sum256(parseBytes(op[1]))
		return hex.EncodeToString(h[:])
	case "crypto.sha512":
		if len(op) != 2 {
			return bad
		}
		h := sha512.Sum512(parseBytes(op[1]))
		return hex.EncodeToString(h[:])
	case "crypto.hmac512":
		if len(op) != 3 {
			return bad
		}
		m := hmac.New(sha512.New, parseBytes(op[1]))
		m.Write(parseBytes(op[2]))
		return hex.EncodeToString(m.Sum(nil))
	case "crypto.pbkdf2":
		if len(op) != 5 {
			return bad
		}
		return hexD(pbkdf2.Key(parseBytes(op[1]), parseBytes(op[2]), atoi(op[3]), atoi(op[4]), sha512.New))
	case "crypto.aesenc", "crypto.aesdec":
		if len(op) != 3 {
			return bad
		}
		k, b := parseBytes(op[1]), parseBytes(op[2])
		if len(k) != 32 || len(b) != 16 {
			return bad
		}
		c, err := aes.NewCipher(k)
		if err != nil {
			return bad
		}
		out := make([]byte, 16)
		if op[0] == "crypto.aesenc" {
			c.Encrypt(out, b)
		} else {
			c.Decrypt(out, b)
		}
		return hex.EncodeToString(out)
	case "crypto.crc32":
		if len(op) != 2 {
			return bad
		}
		return fmt.Sprint(crc32.ChecksumIEEE(parseBytes(op[1])))
	case "crypto.sha1chain":
		if len(op) != 3 {
			return bad
		}
		return hexD(cryptoChain(func(x []byte) []byte { h := sha1.Sum(x); return h[:] }, parseBytes(op[1]), atoi(op[2])))
	case "crypto.sha256chain":
		if len(op) != 3 {
			return bad
		}
		return hexD(cryptoChain(func(x []byte) []byte { h := sha256.Sum256(x); return h[:] }, parseBytes(op[1]), atoi(op[2])))
	case "crypto.sha512chain":
		if len(op) != 3 {
			return bad
		}
		return hexD(cryptoChain(func(x []byte) []byte { h := sha512.Sum512(x); return h[:] }, parseBytes(op[1]), atoi(op[2])))
	case "crypto.aesencchain", "crypto.aesdecchain":
		if len(op) != 4 {
			return bad
		}
		k, b := parseBytes(op[1]), parseBytes(op[2])
		if len(k) != 32 || len(b) != 16 {
			return bad
		}
		c, err := aes.NewCipher(k)
		if err != nil {
			return bad
		}
		enc := op[0] == "crypto.aesencchain"
		return hex.EncodeToString(cryptoChain(func(x []byte) []byte {
			out := make([]byte, 16)
			if enc {
				c.Encrypt(out, x)
			} else {
				c.Decrypt(out, x)
			}
			return out
		}, b, atoi(op[3])))
	}
	return bad
}

// published vectors: operation line -> expected output (FIPS 180-4 / NIST examples, RFC 4231,
// RFC 6070-style PBKDF2-HMAC-SHA512 values as circulated with the "password"/"salt" inputs,
// FIPS-197 C.3, the CRC catalogue's check value).
var cryptoVectors = map[string]string{
	"crypto.sha1 -":      "da39a3ee5e6b4b0d3255bfef95601890afd80709",
	"crypto.sha1 616263": "a9993e364706816aba3e25717850c26c9cd0d89d",
	"crypto.sha1 " + hex.EncodeToString([]byte("abcdbcdecdefdefgefghfghighijhijkijkljklmklmnlmnomnopnopq")): "84983e441c3bd26ebaae4aa1f95129e5e54670f1",
	"crypto.sha1 " + hex.EncodeToString([]byte("abcdefghbcdefghicdefghijdefghijkefghijklfghijklmghijklmnhijklmnoijklmnopjklmnopqklmnopqrlmnopqrsmnopqrstnopqrstu")): "a49b2446a02c645bf419f995b67091253a04a259",
	"crypto.sha1 " + strings.Repeat("61", 1000000): "34aa973cd4c4daa4f61eeb2bdbad27316534016f",
	"crypto.sha256 -":      "e3b0c44298fc1c149afbf4c8996fb92427ae41e4649b934ca495991b7852b855",
	"crypto.sha256 616263": "ba7816bf8f01cfea414140de5dae2223b00361a396177a9cb410ff61f20015ad",
	"crypto.sha256 " + hex.EncodeToString([]byte("abcdbcdecdefdefgefghfghighijhijkijkljklmklmnlmnomnopnopq")): "248d6a61d20638b8e5c026930c3e6039a33ce45964ff2167f6ecedd419db06c1",
	"crypto.sha256 " + strings.Repeat("61", 1000000): "cdc76e5c9914fb9281a1c7e284d73e67f1809a48a497200e046d39ccc7112cd0",
	"crypto.sha512 -":      "cf83e1357eefb8bdf1542850d66d8007d620e4050b5715dc83f4a921d36ce9ce47d0d13c5d85f2b0ff8318d2877eec2f63b931bd47417a81a538327af927da3e",
	"crypto.sha512 616263": "ddaf35a193617abacc417349ae20413112e6fa4e89a97ea20a9eeee64b55d39a2192992a274fc1a836ba3c23a3feebbd454d4423643ce80e2a9ac94fa54ca49f",
	"crypto.sha512 " + hex.EncodeToString([]byte("abcdefghbcdefghicdefghijdefghijkefghijklfghijklmghijklmnhijklmnoijklmnopjklmnopqklmnopqrlmnopqrsmnopqrstnopqrstu")): "8e959b75dae313da8cf4f72814fc143f8f7779c6eb9f7fa17299aeadb6889018501d289e4900f7e4331b99dec4b5433ac7d329eeb6dd26545e96e55b874be909",
	"crypto.sha512 " + strings.Repeat("61", 1000000): "e718483d0ce769644e2e42c7bc15b4638e1f98b13b2044285632a803afa973ebde0ff244877ea60a4cb0432ce577c31beb009c5c2c49aa2e4eadb217ad8cc09b",
	// RFC 4231 test cases 1, 2, 3, 6 (key longer than the block), 7
	"crypto.hmac512 0b0b0b0b0b0b0b0b0b0b0b0b0b0b0b0b0b0b0b0b 4869205468657265": "87aa7cdea5ef619d4ff0b4241a1d6cb02379f4e2ce4ec2787ad0b30545e17cdedaa833b7d6b8a702038b274eaea3f4e4be9d914eeb61f1702e696c203a126854",
	"crypto.hmac512 4a656665 7768617420646f2079612077616e7420666f72206e6f7468696e673f":   "164b7a7bfcf819e2e395fbe73b56e0a387bd64222e831fd610270cd7ea2505549758bf75c05a994a6d034f65f8f0e6fdcaeab1a34d4a6b4b636e070a38bce737",
	"crypto.hmac512 " + strings.Repeat("aa", 20) + " " + strings.Repeat("dd", 50):               "fa73b0089d56a284efb0f0756c890be9b1b5dbdd8ee81a3655f83e33b2279d39bf3e848279a722c806b485a47e67c807b946a337bee8942674278859e13292fb",
	"crypto.hmac512 " + strings.Repeat("aa", 131) + " " + hex.EncodeToString([]byte("Test Using Larger Than Block-Size Key - Hash Key First")): "80b24263c7c1a3ebb71493c1dd7be8b49b46d1f41b4aeec1121b013783f8f3526b56d037e05f2598bd0fd2215d6a1e5295e64f73f63f0aec8b915a985d786598",
	"crypto.hmac512 " + strings.Repeat("aa", 131) + " " + hex.EncodeToString([]byte("This is a test using a larger than block-size key and a larger than block-size data. The key needs to be hashed before being used by the HMAC algorithm.")): "e37b6a775dc87dbaa4dfa9f96e5e3ffddebd71f8867289865df5a32d20cdc944b6022cac3c4982b10d5eeb55c3e4de15134676fb6de0446065c97440fa8c6a58",
	// PBKDF2-HMAC-SHA512 with RFC 6070's inputs
	"crypto.pbkdf2 70617373776f7264 73616c74 1 64":    "867f70cf1ade02cff3752599a3a53dc4af34c7a669815ae5d513554e1c8cf252c02d470a285a0501bad999bfe943c08f050235d7d68b1da55e63f73b60a57fce",
	"crypto.pbkdf2 70617373776f7264 73616c74 2 64":    "e1d9c16aa681708a45f5c7c4e215ceb66e011a2e9f0040713f18aefdb866d53cf76cab2868a39b9f7840edce4fef5a82be67335c77a6068e04112754f27ccf4e",
	"crypto.pbkdf2 70617373776f7264 73616c74 4096 64": "d197b1b33db0143e018b12f3d1d1479e6cdebdcc97c5c0f87f6902e072f457b5143f30602641b3d55cd335988cb36b84376060ecd532e039b742a239434af2d5",
	"crypto.pbkdf2 " + hex.EncodeToString([]byte("passwordPASSWORDpassword")) + " " + hex.EncodeToString([]byte("saltSALTsaltSALTsaltSALTsaltSALTsalt")) + " 4096 64": "8c0511f4c6e597c6ac6315d8f0362e225f3c501495ba23b868c005174dc4ee71115b59f9e60cd9532fa33e0f75aefe30225c583a186cd82bd4daea9724a3d3b8",
	// FIPS-197 Appendix C.3
	"crypto.aesenc 000102030405060708090a0b0c0d0e0f101112131415161718191a1b1c1d1e1f 00112233445566778899aabbccddeeff": "8ea2b7ca516745bfeafc49904b496089",
	"crypto.aesdec 000102030405060708090a0b0c0d0e0f101112131415161718191a1b1c1d1e1f 8ea2b7ca516745bfeafc49904b496089": "00112233445566778899aabbccddeeff",
	// NIST SP 800-38A F.1.5 ECB-AES256 block 1
	"crypto.aesenc 603deb1015ca71be2b73aef0857d77811f352c073b6108d72d9810a30914dff4 6bc1bee22e409f96e93d7e117393172a": "f3eed1bdb5d2a03c064b5a7e3db181f8",
	"crypto.aesdec 603deb1015ca71be2b73aef0857d77811f352c073b6108d72d9810a30914dff4 f3eed1bdb5d2a03c064b5a7e3db181f8": "6bc1bee22e409f96e93d7e117393172a",
	"crypto.crc32 313233343536373839": "3421780262",
	"crypto.crc32 -":                  "0",
	"crypto.crc32 " + hex.EncodeToString([]byte("The quick brown fox jumps over the lazy dog")): "1095738169",
}

var cryptoOutLen = map[string]int{
	"crypto.sha1": 20, "crypto.sha256": 32, "crypto.sha512": 64, "crypto.hmac512": 64,
	"crypto.aesenc": 16, "crypto.aesdec": 16, "crypto.sha1chain": 20, "crypto.sha256chain": 32,
	"crypto.sha512chain": 64, "crypto.aesencchain": 16, "crypto.aesdecchain": 16,
}

// cryptoJudge: published vectors and output lengths, on the Go side's result.
func cryptoJudge(op []string, out string) string {
	if strings.HasPrefix(out, "panic:") {
		return "panic: " + out
	}
	if want, ok := cryptoVectors[strings.Join(op, " ")]; ok && out != want {
		return "published test vector not reproduced: want " + want
	}
	if n, ok := cryptoOutLen[op[0]]; ok && out != "bad-op" {
		if strings.HasSuffix(op[0], "chain") && op[len(op)-1] == "0" {
			return ""
		}
		if len(out) != 2*n {
			return fmt.Sprintf("output length %d hex digits, want %d", len(out), 2*n)
		}
	}
	if op[0] == "crypto.pbkdf2" && len(op) == 5 {
		dk := atoi(op[4])
		if (dk == 0 && out != "-") || (dk > 0 && len(out) != 2*dk) {
			return "derived key length differs from dkLen"
		}
	}
	return ""
}

func cryptoGen(g *G) {
	r := g.R
	tok := func(n int) string { return hexD(r.Bytes(n)) }
	// (a) published vectors (sorted for a deterministic order)
	var vec []string
	for k := range cryptoVectors {
		vec = append(vec, k)
	}
	sortStrings(vec)
	for _, v := range vec {
		g.Emit(v, "vector")
	}
	// (b) every message length 0..200 (all padding boundaries), and around multiples of the block sizes
	lens := []int{}
	for l := 0; l <= 200; l++ {
		lens = append(lens, l)
	}
	for _, base := range []int{256, 512, 1024, 4096} {
		for d := -18; d <= 2; d++ {
			lens = append(lens, base+d)
		}
	}
	for _, l := range lens {
		m := tok(l)
		g.Emit("crypto.sha1 "+m, "len-sweep", "sha1")
		g.Emit("crypto.sha256 "+m, "len-sweep", "sha256")
		g.Emit("crypto.sha512 "+m, "len-sweep", "sha512")
		g.Emit("crypto.crc32 "+m, "len-sweep", "crc32")
		g.Emit(fmt.Sprintf("crypto.hmac512 %s %s", tok(r.Intn(40)), m), "len-sweep", "hmac512")
		g.Emit(fmt.Sprintf("crypto.sha1 p%d", l), "len-sweep-pattern", "sha1")
		g.Emit(fmt.Sprintf("crypto.sha512 z%d", l), "len-sweep-pattern", "sha512")
	}
	// HMAC key lengths around the block size (127/128/129: hashed only when longer than 128)
	for kl := 0; kl <= 300; kl++ {
		if kl > 140 && kl%7 != 0 {
			continue
		}
		g.Emit(fmt.Sprintf("crypto.hmac512 %s %s", tok(kl), tok(r.Intn(300))), "hmac-keylen")
	}
	// (c) random long inputs up to 64 KiB
	nLong := g.N(60, 600)
	for i := 0; i < nLong; i++ {
		l := r.Intn(65537)
		if i < 4 {
			l = []int{65536, 65535, 65536 - 9, 65536 - 17}[i]
		}
		m := tok(l)
		switch i % 5 {
		case 0:
			g.Emit("crypto.sha1 "+m, "long", "sha1")
		case 1:
			g.Emit("crypto.sha256 "+m, "long", "sha256")
		case 2:
			g.Emit("crypto.sha512 "+m, "long", "sha512")
		case 3:
			g.Emit("crypto.crc32 "+m, "long", "crc32")
		case 4:
			g.Emit(fmt.Sprintf("crypto.hmac512 %s %s", tok(r.Intn(200)), m), "long", "hmac512")
		}
	}
	for _, n := range []int{1 << 20, 3000003} {
		g.Emit(fmt.Sprintf("crypto.sha1 p%d", n), "huge")
		g.Emit(fmt.Sprintf("crypto.sha256 p%d", n), "huge")
		g.Emit(fmt.Sprintf("crypto.sha512 p%d", n), "huge")
		g.Emit(fmt.Sprintf("crypto.crc32 p%d", n), "huge")
	}
	// (d) PBKDF2: iterations 0 (as 1), 1, 2, 3, 1000, and 100000 once; dkLen across block boundaries
	for _, it := range []int{0, 1, 2, 3, 10} {
		for _, dk := range []int{0, 1, 20, 63, 64, 65, 127, 128, 129, 200} {
			g.Emit(fmt.Sprintf("crypto.pbkdf2 %s %s %d %d", tok(r.Intn(40)), tok(r.Intn(40)), it, dk), "pbkdf2-small")
		}
	}
	nP := g.N(6, 40)
	for i := 0; i < nP; i++ {
		g.Emit(fmt.Sprintf("crypto.pbkdf2 %s %s 1000 %d", tok(r.Intn(200)), tok(r.Intn(200)), r.Pick(32, 64, 100)), "pbkdf2-1000")
	}
	g.Emit(fmt.Sprintf("crypto.pbkdf2 %s %s 100000 64", tok(12), tok(40)), "pbkdf2-100000")
	if g.Thorough() {
		g.Emit(fmt.Sprintf("crypto.pbkdf2 %s %s 100000 64", tok(150), tok(300)), "pbkdf2-100000")
		g.Emit(fmt.Sprintf("crypto.pbkdf2 %s %s 100000 130", tok(1), tok(0)), "pbkdf2-100000")
	}
	// (e) AES-256: random keys/blocks, both directions, structured keys/blocks, chains
	nA := g.N(1500, 30000)
	for i := 0; i < nA; i++ {
		k, b := tok(32), tok(16)
		g.Emit(fmt.Sprintf("crypto.aesenc %s %s", k, b), "aes-random")
		g.Emit(fmt.Sprintf("crypto.aesdec %s %s", k, b), "aes-random")
	}
	for i := 0; i < 256; i++ { // every byte value through the S-boxes in a fixed position
		b := make([]byte, 16)
		b[i%16] = byte(i)
		k := make([]byte, 32)
		k[(i*7)%32] = byte(i)
		g.Emit(fmt.Sprintf("crypto.aesenc z32 %s", hexD(b)), "aes-structured")
		g.Emit(fmt.Sprintf("crypto.aesdec z32 %s", hexD(b)), "aes-structured")
		g.Emit(fmt.Sprintf("crypto.aesenc %s z16", hexD(k)), "aes-structured")
		g.Emit(fmt.Sprintf("crypto.aesdec %s z16", hexD(k)), "aes-structured")
	}
	g.Emit("crypto.aesenc "+strings.Repeat("ff", 32)+" "+strings.Repeat("ff", 16), "aes-structured")
	g.Emit("crypto.aesdec "+strings.Repeat("ff", 32)+" "+strings.Repeat("ff", 16), "aes-structured")
	// ill-formed sizes are refused on both sides (the Lean API itself is total; callers guard)
	g.Emit("crypto.aesenc z31 z16", "aes-badsize")
	g.Emit("crypto.aesenc z32 z15", "aes-badsize")
	g.Emit("crypto.aesdec z33 z16", "aes-badsize")
	// chains: many dependent primitive calls per line
	nC := g.N(20000, 400000)
	g.Emit(fmt.Sprintf("crypto.sha1chain %s %d", tok(20), nC), "chain")
	g.Emit(fmt.Sprintf("crypto.sha256chain %s %d", tok(32), nC), "chain")
	g.Emit(fmt.Sprintf("crypto.sha512chain %s %d", tok(64), nC), "chain")
	g.Emit(fmt.Sprintf("crypto.aesencchain %s %s %d", tok(32), tok(16), nC), "chain")
	g.Emit(fmt.Sprintf("crypto.aesdecchain %s %s %d", tok(32), tok(16), nC), "chain")
	g.Emit("crypto.sha1chain - 0", "chain")
}

func sortStrings(a []string) {
	for i := 1; i < len(a); i++ {
		for j := i; j > 0 && a[j-1] > a[j]; j-- {
			a[j-1], a[j] = a[j], a[j-1]
		}
	}
}

func init() {
	register(&Prop{Name: "crypto", Gen: cryptoGen, Exec: cryptoExec, Judge: cryptoJudge})
}
