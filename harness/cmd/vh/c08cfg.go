package main

// C08 — the configuration of a connection must not matter to the framing.
//
// c08.cfg <ctx> <timeout_ms> <md> <splits> <msgs>: c08.det (announcement + frames of the real writer arriving over
// loopback TCP in the given segments, read back by transport.NewTCP + mode.Detect + ReadMsg) on a connection
// configured as the first two tokens say. TCPConnConfig has two fields besides the address:
//
//	Ctx      bg        context.Background()
//	         todo      context.TODO()
//	         val       a value context on top of Background (Done() == nil, like its parent)
//	         detached  context.WithoutCancel(a cancelable context) (Done() == nil)
//	         own       a caller's own Context implementation that is never done
//	         cancel    context.WithCancel (what the client itself passes)
//	         child     a value context on top of a cancelable one
//	         deadline  context.WithTimeout, far away
//	Timeout  0 (no read deadline at all), a short one that is still longer than the peer needs, the usual ones
//
// A nil Ctx is not in the table: NewTCP starts go-dry's CancelableReader, whose goroutine dereferences the
// context (a nil one ends the process at once, whatever is read): there is no connection to read frames from.
//
// Whatever the configuration, the messages read back are the messages written (c08CfgJudge = the judge of c08.det).

import (
	"context"
	"fmt"
	"time"
)

type c08OwnCtx struct{}

func (c08OwnCtx) Deadline() (time.Time, bool) { return time.Time{}, false }
func (c08OwnCtx) Done() <-chan struct{}       { return nil }
func (c08OwnCtx) Err() error                  { return nil }
func (c08OwnCtx) Value(any) any               { return nil }

type c08CtxKey struct{}

var c08CtxKinds = []string{"bg", "todo", "val", "detached", "own", "cancel", "child", "deadline"}

func c08MakeCtx(kind string) (context.Context, func(), bool) {
	switch kind {
	case "bg":
		return context.Background(), func() {}, true
	case "todo":
		return context.TODO(), func() {}, true
	case "val":
		return context.WithValue(context.Background(), c08CtxKey{}, 1), func() {}, true
	case "detached":
		p, cancel := context.WithCancel(context.Background())
		return context.WithoutCancel(p), cancel, true
	case "own":
		return c08OwnCtx{}, func() {}, true
	case "cancel":
		c, cancel := context.WithCancel(context.Background())
		return c, cancel, true
	case "child":
		p, cancel := context.WithCancel(context.Background())
		return context.WithValue(p, c08CtxKey{}, 1), cancel, true
	case "deadline":
		c, cancel := context.WithTimeout(context.Background(), 10*time.Minute)
		return c, cancel, true
	}
	return nil, nil, false
}

func c08CfgExec(op []string) string {
	if len(op) != 6 {
		return "bad-op"
	}
	ctx, cancel, ok := c08MakeCtx(op[1])
	if !ok {
		return "bad-op"
	}
	defer cancel()
	for _, c := range op[2] {
		if c < '0' || c > '9' {
			return "bad-op"
		}
	}
	if op[2] == "" || len(op[2]) > 9 {
		return "bad-op"
	}
	timeout := time.Duration(atoi(op[2])) * time.Millisecond
	b, e := c08Write(op[3], parseBytesList(op[5]))
	if e != "-" {
		return "werr=" + e
	}
	return c08DetectTCPWith(ctx, timeout, splitAt(b, parseSplits(op[4], len(b))))
}

func c08CfgJudge(op []string, out string) string {
	if len(op) != 6 || out == "bad-op" {
		return ""
	}
	why := c08Judge([]string{"c08.det", op[3], op[4], op[5]}, out)
	if why == "" {
		return ""
	}
	return fmt.Sprintf("on a connection configured with Ctx=%s Timeout=%sms, stream cut at %s: %s", op[1], op[2], op[4], why)
}

// c08GenCfg: every context kind x every timeout class x both modes x the segmentations of c08.det: every
// composition of the first bytes (announcement and first header), one byte at a time, random cuts of streams
// of short, long and empty frames (cuts inside length headers, extended Abridged lengths and bodies).
func c08GenCfg(g *G) {
	r := g.R
	tok := func(n int) string {
		if n == 0 {
			return "-"
		}
		if n > 64 {
			return fmt.Sprintf("p%d", n)
		}
		return hexD(r.Bytes(n))
	}
	timeouts := []int{0, 400, 10000, 3600000}
	headBytes := 6
	if g.Thorough() {
		headBytes = 9
	}
	stream := func(md string) (string, int) {
		var toks []string
		total := len(specAnnounce(md))
		for j := 1 + r.Intn(4); j > 0; j-- {
			l := 4 * r.Pick(0, 1, 2, 3, 16, 126, 127, 128, 130, 300)
			if md == "i" && r.Intn(3) == 0 {
				l = 1 + r.Intn(70)
			}
			toks = append(toks, tok(l))
			total += len(specFrame(md, make([]byte, l)))
		}
		return showList(toks), total
	}
	cuts := func(total int) string {
		cs := map[int]bool{}
		for c := 1 + r.Intn(6); c > 0 && total > 1; c-- {
			cs[1+r.Intn(total-1)] = true
		}
		var cl []int
		for c := range cs {
			cl = append(cl, c)
		}
		sortInts(cl)
		if len(cl) == 0 {
			return "-"
		}
		return cutsStr(cl)
	}
	for ki, kind := range c08CtxKinds {
		for ti, tmo := range timeouts {
			for _, md := range []string{"a", "i"} {
				tags := []string{"cfg", "cfg-ctx=" + kind, fmt.Sprintf("cfg-timeout=%d", tmo), "mode=" + md}
				emit := func(splits, msgs string, tag string) {
					g.Emit(fmt.Sprintf("c08.cfg %s %d %s %s %s", kind, tmo, md, splits, msgs), append([]string{tag}, tags...)...)
				}
				// every composition of the head: for one timeout per kind in the quick tier (rotating), all in thorough
				if g.Thorough() || ti == ki%len(timeouts) {
					msgs := showList([]string{tok(4), tok(0), tok(8)})
					compositions(headBytes, func(c []int) {
						emit(cutsStr(append(append([]int{}, c...), headBytes)), msgs, "cfg-exhaustive-head")
					})
				}
				emit("each", showList([]string{tok(4), tok(0), tok(8)}), "cfg-bytewise")
				emit("each", showList([]string{tok(508), tok(512)}), "cfg-bytewise")
				emit("-", showList([]string{tok(12), tok(0), tok(508), tok(40)}), "cfg-whole")
				for k := g.N(4, 30); k > 0; k-- {
					msgs, total := stream(md)
					emit(cuts(total), msgs, "cfg-random-cuts")
				}
			}
		}
	}
}
