package main

// C19 — the OS random source FAILS or runs short while a key-agreement secret is being drawn.
//
//	c19.fault <where> <k> <mode> <seed>
//
// "Secrets used for key agreement come from the OS cryptographic random source — all paths, not the ones a run happens
// to take": the path on which the source does not deliver is one of them. For the duration of the operation
// crypto/rand.Reader is a source of the harness that hands out a byte stream made from <seed> and misbehaves from
// its k-th Read on:
//
//	<mode>  err      the k-th and every later Read return (0, error)
//	        once     the k-th Read returns (0, error) — one EINTR / EAGAIN —, later ones deliver again
//	        eof      the k-th and every later Read return (0, io.EOF)
//	        part     the k-th Read delivers half of what was asked for, with an error; later ones (0, error)
//	        trickle  from the k-th Read on every Read delivers ONE byte without an error (a legal io.Reader: whoever
//	                 needs more has to ask again)
//	        none     the source never misbehaves (control; k is 0)
//
//	<where> kx        a complete key exchange of the real client (NewMTProto + CreateConnection) against the scripted
//	                  key-exchange server of c19retry.go, which answers every step correctly; the secrets are read off
//	                  the WIRE: nonce (req_pq), new_nonce (inside p_q_inner_data, opened with the server's RSA key),
//	                  g_b (inside client_DH_inner_data)
//	        nonce128 | nonce256 | dh_b | srp_a    the generator called directly (c19Draw); the secret is what it
//	                  returns (srp_a: A = g^a mod p)
//
// The client may stop in any way it likes (an error, a panic — the library's behaviour today), or carry on when the
// source delivers after all. What it must never do is EMIT a secret that is not a function of bytes the source
// delivered. Judged two ways, both without any model of the code:
//
//   - unbacked: when a secret shows up, the source must have delivered at least as many bytes as all secrets emitted
//     so far are wide (16 + 32 + 256 for nonce, new_nonce, b; 16 / 32 / 256 / 256 for the direct calls);
//   - differs: the whole experiment is made TWICE with the same stream and the same fault (and, for kx, the same
//     server values): the i-th secret of both runs must be the same value — a function of the delivered bytes has
//     nothing else to depend on.
//
// Result: sound | unbacked | differs | error:<why the experiment could not be made>. How the client ended (completed /
// gave up / panicked) goes to the run's extra counters (`fault_exchanges`), not into the line.

import (
	crand "crypto/rand"
	"errors"
	"fmt"
	"io"
	"strconv"
	"strings"
	"sync"
)

var (
	c19FaultModes  = []string{"err", "once", "eof", "part", "trickle", "none"}
	c19FaultWheres = []string{"kx", "nonce128", "nonce256", "dh_b", "srp_a"}
	c19FaultStats  = map[string]int{}
)

// c19FaultySource: the "OS random source" of a c19.fault experiment
type c19FaultySource struct {
	mu        sync.Mutex
	stream    *Rand
	k         int
	mode      string
	reads     int
	delivered int64
	log       []string // what each Read was asked for and got, for the report
}

var errC19Source = errors.New("c19.fault: the system random source is unavailable")

func (s *c19FaultySource) Read(p []byte) (n int, err error) {
	s.mu.Lock()
	defer s.mu.Unlock()
	s.reads++
	give := len(p)
	if s.mode != "none" && s.k > 0 && s.reads >= s.k {
		switch s.mode {
		case "err":
			give, err = 0, errC19Source
		case "once":
			if s.reads == s.k {
				give, err = 0, errC19Source
			}
		case "eof":
			give, err = 0, io.EOF
		case "part":
			if s.reads == s.k {
				give, err = len(p)/2, errC19Source
			} else {
				give, err = 0, errC19Source
			}
		case "trickle":
			if give > 1 {
				give = 1
			}
		}
	}
	copy(p, s.stream.Bytes(give))
	s.delivered += int64(give)
	if len(s.log) < 12 {
		e := ""
		if err != nil {
			e = "+error"
		}
		s.log = append(s.log, fmt.Sprintf("%d/%d%s", give, len(p), e))
	} else if len(s.log) == 12 {
		s.log = append(s.log, "…")
	}
	return give, err
}

func (s *c19FaultySource) summary() string {
	s.mu.Lock()
	defer s.mu.Unlock()
	return fmt.Sprintf("%d byte(s) delivered in %d Read call(s) [delivered/asked: %s]", s.delivered, s.reads, strings.Join(s.log, " "))
}

func c19FaultWidth(kind string) int64 {
	switch kind {
	case "nonce", "nonce128":
		return 16
	case "new_nonce", "nonce256":
		return 32
	}
	return 256 // g_b (its exponent b), dh_b, srp_a
}

func c19FaultWords(k int, mode string) string {
	nth := "Read no. " + strconv.Itoa(k)
	switch mode {
	case "err":
		return "fails from " + nth + " on"
	case "once":
		return "fails once, at " + nth
	case "eof":
		return "is at its end (io.EOF) from " + nth + " on"
	case "part":
		return "delivers half of what " + nth + " asks for and fails from then on"
	case "trickle":
		return "delivers one byte per Read from " + nth + " on"
	}
	return "never fails"
}

// c19FaultRun: one experiment; the secrets in the order they were emitted, with the bytes delivered by then
func c19FaultRun(where string, k int, mode string, seed uint64) (secrets []c19rSecret, end string, src *c19FaultySource, fail string) {
	src = &c19FaultySource{stream: NewRand(seed*0x9E3779B97F4A7C15 + 0xfa17), k: k, mode: mode}
	if where == "kx" {
		srv, end, fail := c19rExchange([]string{"ok"}, seed, src)
		if fail != "" {
			return nil, "", src, fail
		}
		srv.mu.Lock()
		secrets = append(secrets, srv.secrets...)
		srv.mu.Unlock()
		return secrets, end, src, ""
	}
	orig := crand.Reader
	crand.Reader = src
	defer func() { crand.Reader = orig }()
	end = "returned"
	func() {
		defer func() {
			if r := recover(); r != nil {
				end = "stopped"
			}
		}()
		v := c19Draw(where)
		src.mu.Lock()
		secrets = append(secrets, c19rSecret{kind: where, val: v, read: src.delivered})
		src.mu.Unlock()
	}()
	return secrets, end, src, ""
}

func c19Fault(op, where string, k int, mode string, seed uint64) string {
	s1, end1, src1, fail := c19FaultRun(where, k, mode, seed)
	if fail != "" {
		return fail
	}
	s2, end2, _, fail := c19FaultRun(where, k, mode, seed)
	if fail != "" {
		return fail
	}
	c19FaultStats[fmt.Sprintf("%s, source %s: %d secret(s) emitted, the client %s", where, c19FaultWords(k, mode), len(s1), end1)]++
	if theG != nil {
		theG.Extra["fault_exchanges"] = c19FaultStats
	}
	what := "the generator " + where + ", called"
	if where == "kx" {
		what = "a key exchange (NewMTProto + CreateConnection against a server that answers every step correctly)"
	}
	intro := fmt.Sprintf("%s with an OS random source that %s: %s; the client %s", what, c19FaultWords(k, mode), src1.summary(), end1)
	need := int64(0)
	for i, s := range s1 {
		need += c19FaultWidth(s.kind)
		if s.read < need {
			c19Detail[op] = fmt.Sprintf("%s — and yet it emitted %s = %s when the source had delivered %d byte(s) in all, fewer than the %d the secrets emitted so far are wide: "+
				"secret no. %d is not made of bytes the OS source delivered", intro, s.kind, c19Short(s.val), s.read, need, i+1)
			return "unbacked"
		}
	}
	for i := 0; i < len(s1) && i < len(s2); i++ {
		if s1[i].kind != s2[i].kind || string(s1[i].val) != string(s2[i].val) {
			c19Detail[op] = fmt.Sprintf("%s. The same experiment again (the same bytes delivered, the same fault, the same peer; the client %s): secret no. %d is %s = %s in one run and %s = %s in the other — "+
				"it is not a function of the bytes the OS source delivered", intro, end2, i+1, s1[i].kind, c19Short(s1[i].val), s2[i].kind, c19Short(s2[i].val))
			return "differs"
		}
	}
	return "sound"
}

func c19FaultExec(op []string) (string, bool) {
	if len(op) == 0 || op[0] != "c19.fault" {
		return "", false
	}
	if len(op) != 5 {
		return "bad-op", true
	}
	okIn := func(x string, l []string) bool {
		for _, y := range l {
			if x == y {
				return true
			}
		}
		return false
	}
	k, err1 := strconv.Atoi(op[2])
	seed, err2 := strconv.ParseUint(op[4], 10, 62)
	if !okIn(op[1], c19FaultWheres) || !okIn(op[3], c19FaultModes) || err1 != nil || err2 != nil || k < 0 || k > 64 ||
		strconv.Itoa(k) != op[2] || (op[3] == "none") != (k == 0) {
		return "bad-op", true
	}
	return c19Fault(strings.Join(op, " "), op[1], k, op[3], seed), true
}

func c19FaultJudge(op []string, out string) string {
	line := strings.Join(op, " ")
	switch out {
	case "unbacked":
		return "a key-agreement secret was emitted although the OS random source had not delivered the bytes for it: " + c19Detail[line]
	case "differs":
		return "a key-agreement secret is not a function of what the OS random source delivered: " + c19Detail[line]
	}
	return ""
}

// c19FaultGen: the fault at the Read of every secret — for the key exchange the first four Reads (nonce, new_nonce, the
// exponent b, one more: crypto/rand.Int draws again when its candidate is out of range) in every failing mode, the
// one-byte trickle at the first and the third, a control; the generators called directly with the fault at their
// first and second Read. srp_a costs two PBKDF2 runs whenever the draw succeeds: few of those.
func c19FaultGen(g *G) {
	for rep, n := 0, g.N(1, 6); rep < n; rep++ {
		seed := func() uint64 { return g.R.U64() >> 3 }
		g.Emit(fmt.Sprintf("c19.fault kx 0 none %d", seed()), "fault:kx", "fault-mode:none")
		for k := 1; k <= g.N(4, 6); k++ {
			for _, mode := range []string{"err", "once", "part"} {
				g.Emit(fmt.Sprintf("c19.fault kx %d %s %d", k, mode, seed()), "fault:kx", "fault-mode:"+mode)
			}
		}
		g.Emit(fmt.Sprintf("c19.fault kx 3 eof %d", seed()), "fault:kx", "fault-mode:eof")
		g.Emit(fmt.Sprintf("c19.fault kx 1 trickle %d", seed()), "fault:kx", "fault-mode:trickle")
		g.Emit(fmt.Sprintf("c19.fault kx 3 trickle %d", seed()), "fault:kx", "fault-mode:trickle")
		for _, fn := range []string{"nonce128", "nonce256", "dh_b"} {
			for k := 1; k <= 2; k++ {
				for _, mode := range []string{"err", "once", "part", "eof", "trickle"} {
					g.Emit(fmt.Sprintf("c19.fault %s %d %s %d", fn, k, mode, seed()), "fault:"+fn, "fault-mode:"+mode)
				}
			}
			g.Emit(fmt.Sprintf("c19.fault %s 0 none %d", fn, seed()), "fault:"+fn, "fault-mode:none")
		}
		for _, mode := range []string{"err", "once", "part", "eof"} {
			g.Emit(fmt.Sprintf("c19.fault srp_a 1 %s %d", mode, seed()), "fault:srp_a", "fault-mode:"+mode)
		}
		if rep == 0 {
			g.Emit(fmt.Sprintf("c19.fault srp_a 2 err %d", seed()), "fault:srp_a", "fault-mode:err")
		}
	}
}
