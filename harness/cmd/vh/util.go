package main

import (
	"encoding/hex"
	"fmt"
	"strconv"
	"strings"
)

// Rand is splitmix64: the single PRNG state every random choice of a run derives from.
type Rand struct{ s uint64 }

// NewRand: the starting state is a hash of the seed. (It used to be seed*step+c with step the increment of
// U64, which made the stream of seed k the stream of seed 1 advanced by k-1 draws: different seeds then
// generated nearly the same operations.)
func NewRand(seed uint64) *Rand {
	z := seed*0xD1342543DE82EF95 + 0x1234567
	z = (z ^ (z >> 30)) * 0xBF58476D1CE4E5B9
	z = (z ^ (z >> 27)) * 0x94D049BB133111EB
	return &Rand{s: z ^ (z >> 31)}
}

func (r *Rand) U64() uint64 {
	r.s += 0x9E3779B97F4A7C15
	z := r.s
	z = (z ^ (z >> 30)) * 0xBF58476D1CE4E5B9
	z = (z ^ (z >> 27)) * 0x94D049BB133111EB
	return z ^ (z >> 31)
}
func (r *Rand) Intn(n int) int {
	if n <= 0 {
		return 0
	}
	return int(r.U64() % uint64(n))
}
func (r *Rand) Bool() bool { return r.U64()&1 == 1 }
func (r *Rand) Bytes(n int) []byte {
	b := make([]byte, n)
	for i := 0; i < n; i += 8 {
		v := r.U64()
		for j := 0; j < 8 && i+j < n; j++ {
			b[i+j] = byte(v >> (8 * j))
		}
	}
	return b
}
func (r *Rand) Pick(xs ...int) int { return xs[r.Intn(len(xs))] }

// hexD prints a byte string as hex, "-" when empty.
func hexD(b []byte) string {
	if len(b) == 0 {
		return "-"
	}
	return hex.EncodeToString(b)
}

func fnv32(b []byte) uint32 {
	h := uint32(2166136261)
	for _, c := range b {
		h = (h ^ uint32(c)) * 16777619
	}
	return h
}

// showBytes: hex when short, L<len>:<fnv32> when long (same rule as the Lean driver).
func showBytes(b []byte) string {
	if len(b) <= 48 {
		return hexD(b)
	}
	return fmt.Sprintf("L%d:%d", len(b), fnv32(b))
}

// parseBytes: hex, "-" (empty), z<n> (n zero bytes), p<n> (bytes i%251).
func parseBytes(s string) []byte {
	if s == "-" {
		return []byte{}
	}
	if strings.HasPrefix(s, "z") {
		n, _ := strconv.Atoi(s[1:])
		return make([]byte, n)
	}
	if strings.HasPrefix(s, "p") {
		n, _ := strconv.Atoi(s[1:])
		b := make([]byte, n)
		for i := range b {
			b[i] = byte(i % 251)
		}
		return b
	}
	b, err := hex.DecodeString(s)
	if err != nil {
		panic("bad hex token: " + s)
	}
	return b
}

func parseBytesList(s string) [][]byte {
	if s == "-" {
		return nil
	}
	var out [][]byte
	for _, t := range strings.Split(s, ",") {
		out = append(out, parseBytes(t))
	}
	return out
}

func showList(xs []string) string {
	if len(xs) == 0 {
		return "-"
	}
	return strings.Join(xs, ",")
}

func atoi(s string) int {
	n, err := strconv.Atoi(s)
	if err != nil {
		panic("bad int token: " + s)
	}
	return n
}

// parseSplits: "-" none, "each" one byte at a time (encoded as nil,true), or csv of cut offsets.
func parseSplits(s string, total int) []int {
	if s == "-" {
		return nil
	}
	if s == "each" {
		cuts := make([]int, 0, total)
		for i := 1; i < total; i++ {
			cuts = append(cuts, i)
		}
		return cuts
	}
	var cuts []int
	for _, t := range strings.Split(s, ",") {
		cuts = append(cuts, atoi(t))
	}
	return cuts
}

func splitAt(b []byte, cuts []int) [][]byte {
	var segs [][]byte
	prev := 0
	for _, c := range cuts {
		if c <= prev || c >= len(b) {
			continue
		}
		segs = append(segs, b[prev:c])
		prev = c
	}
	segs = append(segs, b[prev:])
	return segs
}
