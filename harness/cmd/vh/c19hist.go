package main

// C19 — the secret of a LATER key exchange as a function of EARLIER calls in the same process.
//
//	c19.hist <fn> <prelude> <n>
//
// First the prelude: calls of the drawing functions with unusual parameters that the client accepts from a
// server (MakeGAB with a modulus far shorter than 2048 bits — 2, 3, a 32-bit, a 1024-bit number —, with g = 0, 1,
// -1, with g_a = 0 or g_a > dh_prime), and ordinary draws of the other generators in between. Then n ORDINARY
// draws of <fn> (dh_b: MakeGAB(3, g_a, Telegram's 2048-bit prime); the others have no parameters that matter),
// each with crypto/rand.Reader wrapped by a counting reader (the wrapper passes every Read on to the operating
// system's reader; it is removed before the operation returns). Observed per ordinary draw: how many bytes were
// read from the OS source; over the n draws: whether a value repeats, and how many bits the largest value has.
//
// prelude = "-" | token,token,…   token = gab.<g>.<dh_prime hex>.<g_a hex | -> | n128 | n256 | srp
//
// Result: full | short | narrow | repeat (details for the oracle's message in c19Detail).
//
//	short   a draw read fewer bytes from the OS source than the secret is wide (128 / 256 / 2048 / 2048 bits)
//	narrow  the largest of the n values is more than 24 bits shorter than the secret's width (chance 2^-24n)
//	repeat  two of the n values are equal

import (
	crand "crypto/rand"
	"encoding/hex"
	"fmt"
	"io"
	"math/big"
	"strconv"
	"strings"
	"sync/atomic"

	mtmath "github.com/xelaj/mtproto/internal/math"
)

type c19CountingReader struct {
	inner io.Reader
	n     int64
}

func (r *c19CountingReader) Read(p []byte) (int, error) {
	n, err := r.inner.Read(p)
	atomic.AddInt64(&r.n, int64(n))
	return n, err
}

// c19Counted runs f with crypto/rand.Reader wrapped and returns how many bytes f made it deliver.
func c19Counted(f func()) int64 {
	orig := crand.Reader
	ctr := &c19CountingReader{inner: orig}
	crand.Reader = ctr
	defer func() { crand.Reader = orig }()
	f()
	return atomic.LoadInt64(&ctr.n)
}

type c19Pre struct {
	kind string // gab | n128 | n256 | srp
	g    int32
	p    *big.Int
	ga   *big.Int
}

func c19ParsePrelude(s string) ([]c19Pre, bool) {
	if s == "-" {
		return nil, true
	}
	var out []c19Pre
	for _, t := range strings.Split(s, ",") {
		switch {
		case t == "n128" || t == "n256" || t == "srp":
			out = append(out, c19Pre{kind: t})
		case strings.HasPrefix(t, "gab."):
			f := strings.Split(t, ".")
			if len(f) != 4 {
				return nil, false
			}
			g, err := strconv.ParseInt(f[1], 10, 32)
			if err != nil || strings.HasPrefix(f[1], "+") {
				return nil, false
			}
			pb, err := hex.DecodeString(f[2])
			if err != nil || len(pb) == 0 {
				return nil, false
			}
			p := new(big.Int).SetBytes(pb)
			if p.Sign() == 0 {
				return nil, false // the client refuses a zero modulus (handshake.go)
			}
			ga := new(big.Int)
			if f[3] != "-" {
				gb, err := hex.DecodeString(f[3])
				if err != nil || len(gb) == 0 {
					return nil, false
				}
				ga.SetBytes(gb)
			}
			out = append(out, c19Pre{kind: "gab", g: int32(g), p: p, ga: ga})
		default:
			return nil, false
		}
	}
	return out, true
}

// c19Ordinary: one ordinary draw of fn (dh_b with the modulus every honest server sends).
func c19Ordinary(fn string, i int) []byte {
	if fn == "dh_b" {
		p := new(big.Int).SetBytes(c19P)
		ga := new(big.Int).Sub(p, big.NewInt(int64(1000+i))) // some g_a in (1, p-1)
		b, _, _ := mtmath.MakeGAB(3, ga, p)
		return pad(b.Bytes(), 256)
	}
	return c19Draw(fn)
}

func c19Hist(op, fn, prelude string, n int) string {
	pre, ok := c19ParsePrelude(prelude)
	if !ok || n < 2 || n > 64 {
		return "bad-op"
	}
	for _, c := range pre {
		switch c.kind {
		case "gab":
			mtmath.MakeGAB(c.g, c.ga, c.p)
		case "n128":
			c19Draw("nonce128")
		case "n256":
			c19Draw("nonce256")
		case "srp":
			c19Draw("srp_a")
		}
	}
	width := c19Width(fn)
	seen := map[string]int{}
	maxBits := 0
	verdict := "full"
	for i := 0; i < n; i++ {
		var v []byte
		read := c19Counted(func() { v = c19Ordinary(fn, i) })
		if read < int64(width) && verdict == "full" {
			verdict = "short"
			c19Detail[op] = fmt.Sprintf("ordinary draw %d of %s after the earlier calls read %d byte(s) from the OS random source, the secret is %d bits wide (value %s)",
				i+1, fn, read, width*8, c19Short(v))
		}
		if j, dup := seen[string(v)]; dup && verdict == "full" {
			verdict = "repeat"
			c19Detail[op] = fmt.Sprintf("ordinary draws %d and %d of %s after the earlier calls returned the same value %s", j+1, i+1, fn, c19Short(v))
		}
		seen[string(v)] = i
		if bl := new(big.Int).SetBytes(v).BitLen(); bl > maxBits {
			maxBits = bl
		}
	}
	if verdict == "full" && maxBits < width*8-24 {
		verdict = "narrow"
		c19Detail[op] = fmt.Sprintf("the largest of %d ordinary draws of %s after the earlier calls has %d bits, the secret is %d bits wide", n, fn, maxBits, width*8)
	}
	return verdict
}

// c19Short: a value for a message: without leading zero bytes, clipped
func c19Short(v []byte) string {
	x := new(big.Int).SetBytes(v)
	s := x.Text(16)
	if len(s) > 24 {
		return "0x" + s[:24] + "…"
	}
	return "0x" + s
}

func c19HistExec(op []string) (string, bool) {
	if len(op) == 4 && op[0] == "c19.hist" && c19IsFn(op[1]) {
		n, err := strconv.ParseUint(op[3], 10, 16)
		if err != nil {
			return "bad-op", true
		}
		return c19Hist(strings.Join(op, " "), op[1], op[2], int(n)), true
	}
	return "", false
}

func c19HistJudge(op []string, out string) string {
	line := strings.Join(op, " ")
	switch out {
	case "short":
		return "key-agreement secret is not (fully) drawn from the OS random source once other calls came first: " + c19Detail[line]
	case "narrow":
		return "key-agreement secret is confined to a small range once other calls came first: " + c19Detail[line]
	case "repeat":
		return "key-agreement secret repeats once other calls came first: " + c19Detail[line]
	}
	return ""
}

// ---- generator ---------------------------------------------------------------------------------------------

func c19HistGen(g *G) {
	c19Init()
	hexOf := func(x *big.Int) string {
		b := x.Bytes()
		if len(b) == 0 {
			b = []byte{0}
		}
		return hex.EncodeToString(b)
	}
	telegram := new(big.Int).SetBytes(c19P)
	// moduli a server may send: tiny, word-sized, half-size, one bit short, full size (not Telegram's), longer
	moduli := func() []*big.Int {
		bitsOf := func(bits int) *big.Int {
			x := new(big.Int).SetBytes(g.R.Bytes((bits + 7) / 8))
			x.SetBit(x, bits-1, 1)
			for i := x.BitLen() - 1; i >= bits; i-- {
				x.SetBit(x, i, 0)
			}
			return x.SetBit(x, 0, 1)
		}
		return []*big.Int{big.NewInt(2), big.NewInt(3), big.NewInt(5), big.NewInt(1), big.NewInt(0xfffffffb), bitsOf(64), bitsOf(521),
			bitsOf(1024), bitsOf(2040), bitsOf(2047), bitsOf(2048), bitsOf(2049), bitsOf(4096), telegram}
	}()
	gs := []int{3, 2, 1, 0, -1, 7, 2147483647, -2147483648}
	gaOf := func(p *big.Int) string {
		switch g.R.Intn(5) {
		case 0:
			return "-"
		case 1:
			return "01"
		case 2:
			return hexOf(new(big.Int).Add(p, big.NewInt(int64(1+g.R.Intn(9))))) // g_a > dh_prime
		}
		return hex.EncodeToString(append([]byte{1}, g.R.Bytes(1+g.R.Intn(255))...))
	}
	gab := func(gv int, p *big.Int) string { return fmt.Sprintf("gab.%d.%s.%s", gv, hexOf(p), gaOf(p)) }
	// every short modulus on its own, straight before ordinary draws of the exponent
	for _, p := range moduli {
		g.Emit(fmt.Sprintf("c19.hist dh_b %s 6", gab(3, p)), "hist:dh_b-after-one-unusual-exchange")
	}
	// unusual g with an ordinary modulus
	for _, gv := range gs[2:] {
		g.Emit(fmt.Sprintf("c19.hist dh_b %s 6", gab(gv, telegram)), "hist:dh_b-after-unusual-g")
	}
	// the other generators after an unusual exchange
	for _, fn := range []string{"nonce128", "nonce256"} {
		g.Emit(fmt.Sprintf("c19.hist %s %s,%s 6", fn, gab(1, moduli[g.R.Intn(5)]), gab(3, moduli[g.R.Intn(len(moduli))])), "hist:"+fn)
	}
	g.Emit(fmt.Sprintf("c19.hist srp_a %s,srp 2", gab(3, moduli[g.R.Intn(5)])), "hist:srp_a")
	// random histories
	for i, n := 0, g.N(16, 400); i < n; i++ {
		var pre []string
		for j, k := 0, 1+g.R.Intn(4); j < k; j++ {
			switch g.R.Intn(8) {
			case 0:
				pre = append(pre, "n128")
			case 1:
				pre = append(pre, "n256")
			default:
				pre = append(pre, gab(gs[g.R.Intn(len(gs))], moduli[g.R.Intn(len(moduli))]))
			}
		}
		fn := "dh_b"
		if g.R.Intn(4) == 0 {
			fn = []string{"nonce128", "nonce256"}[g.R.Intn(2)]
		}
		g.Emit(fmt.Sprintf("c19.hist %s %s %d", fn, strings.Join(pre, ","), 4+g.R.Intn(5)), "hist:random-history")
	}
	// no prelude at all: whatever the operations before this one left behind in the process
	g.Emit("c19.hist dh_b - 6", "hist:no-prelude")
}
