package main

// C14 — the harness's own schema generator: it builds a schema as a data structure (so it knows what
// the text declares without asking any parser), renders it to TL text in varying layouts, and
// renders the declarations a faithful generator has to emit for it.

import (
	"fmt"
	"sort"
	"strings"
)

type c14Param struct {
	Name, Type string // Type as a faithful parser reports it ("bitflags" for `flags:#`)
	Vec, Opt   bool
	Bit        int
	Doc        string
}

type c14Def struct {
	Name    string
	CRC     uint32
	Params  []c14Param
	Result  string
	ResVec  bool
	Func    bool
	Doc     string // text of the @constructor/@enum/@method line, "" = no such line
	TypeDoc string // text of a `// @type` line in front, "" = none
	raw     string // when set: a line of the text that declares nothing (excluded definition)
}

type c14Item struct {
	kind string // def | types | functions | comment | blank
	def  *c14Def
	text string
}

type c14Schema struct {
	items []c14Item
}

func (s *c14Schema) defs() []*c14Def {
	var out []*c14Def
	for _, it := range s.items {
		if it.kind == "def" && it.def.raw == "" {
			out = append(out, it.def)
		}
	}
	return out
}

// ---- expected structure (what the parser has to extract) ----------------------------------------------

func c14ExpectStructure(s *c14Schema) string {
	var objs, meths []string
	for _, d := range s.defs() {
		var ps strings.Builder
		for _, p := range d.Params {
			fmt.Fprintf(&ps, " (p %s %s %s %s %d)", c14Esc(p.Name), c14Esc(p.Type), b01(p.Vec), b01(p.Opt), p.Bit)
		}
		if d.Func {
			meths = append(meths, fmt.Sprintf("(m %s %d %s %s%s)", c14Esc(d.Name), d.CRC, c14Esc(d.Result), b01(d.ResVec), ps.String()))
		} else {
			objs = append(objs, fmt.Sprintf("(o %s %d %s%s)", c14Esc(d.Name), d.CRC, c14Esc(d.Result), ps.String()))
		}
	}
	return strings.Join(append(objs, meths...), " ")
}

// ---- rendering to TL text -------------------------------------------------------------------------------

type c14Layout struct {
	crlf, indent, wideSpaces, trailing, upperHex, padHex bool
}

func c14RenderParam(p c14Param) string {
	t := p.Type
	if t == "bitflags" {
		t = "#"
	}
	if p.Vec {
		t = "Vector<" + t + ">"
	}
	if p.Opt {
		t = fmt.Sprintf("flags.%d?%s", p.Bit, t)
	}
	return p.Name + ":" + t
}

func c14RenderDef(d *c14Def, lay c14Layout, r *Rand) string {
	if d.raw != "" {
		return d.raw
	}
	sp := func() string {
		if lay.wideSpaces && r.Intn(3) == 0 {
			return strings.Repeat(" ", 1+r.Intn(3))
		}
		return " "
	}
	id := fmt.Sprintf("%x", d.CRC)
	if lay.padHex {
		id = fmt.Sprintf("%08x", d.CRC)
	}
	if lay.upperHex {
		id = strings.ToUpper(id)
	}
	var b strings.Builder
	b.WriteString(d.Name + "#" + id)
	for _, p := range d.Params {
		b.WriteString(sp() + c14RenderParam(p))
	}
	b.WriteString(sp() + "=" + sp())
	if d.ResVec {
		b.WriteString("Vector<" + d.Result + ">;")
	} else {
		b.WriteString(d.Result + ";")
	}
	return b.String()
}

func c14Render(s *c14Schema, lay c14Layout, r *Rand) string {
	nl := "\n"
	if lay.crlf {
		nl = "\r\n"
	}
	var b strings.Builder
	line := func(t string) {
		if lay.indent && r.Intn(4) == 0 {
			b.WriteString(strings.Repeat(" ", 1+r.Intn(4)))
		}
		b.WriteString(t)
		if lay.trailing && r.Intn(4) == 0 {
			b.WriteString(strings.Repeat(" ", 1+r.Intn(3)))
		}
		b.WriteString(nl)
	}
	for _, it := range s.items {
		switch it.kind {
		case "types":
			line("---types---")
		case "functions":
			line("---functions---")
		case "comment":
			line("//" + it.text)
		case "blank":
			b.WriteString(nl)
		case "def":
			d := it.def
			if d.TypeDoc != "" {
				line("// @type " + d.TypeDoc)
			}
			if d.Doc != "" {
				kind := "@constructor"
				if d.Func {
					kind = "@method"
				} else if len(d.Params) == 0 {
					kind = "@enum"
				}
				line("// " + kind + " " + d.Doc)
			}
			for _, p := range d.Params {
				if p.Doc != "" {
					line("// @param " + p.Name + " " + p.Doc)
				}
			}
			line(c14RenderDef(d, lay, r))
		}
	}
	return b.String()
}

// ---- random schemas ---------------------------------------------------------------------------------------

var c14TypeWords = []string{"Peer", "Chat", "User", "Photo", "Message", "Dialog", "Update", "Geo", "File", "Sticker",
	"Contact", "Theme", "Wallet", "Poll", "Game", "Invoice", "Folder", "Page", "Stats", "Report", "Filter", "Draft", "Call",
	"Key", "Proxy", "Lang", "Emoji", "Banner", "Channel", "Video",
	// names which begin like a builtin type or an excluded definition (intervalEmpty, longPollFull, trueColorMin …):
	// only the exact words are special
	"Interval", "Integer", "LongPoll", "StringList", "BytesBlob", "DoubleRange", "TrueColor", "BoolTrueish",
	"InvokeAfterMsgLog", "InitConnectionInfo",
	// words of several humps (none is a type word followed by a constructor suffix or preceded by "Input"):
	// a constructor can then equal its type under case folding without having the same Go name
	// (webpage / WebPage), or have the same Go name without being equal under case folding (web_page / WebPage)
	"WebPage", "GeoChat", "PhoneCall", "PeerNotify", "StickerSet", "BotInfo", "TopPeer", "JsonValue", "URLAuth",
	"WallPaper", "DcOption", "CdnConfig", "PollAnswer", "InlineResult"}

// the words of several humps among c14TypeWords
var c14MultiHump = []string{"WebPage", "GeoChat", "PhoneCall", "PeerNotify", "StickerSet", "BotInfo", "TopPeer", "JsonValue", "URLAuth",
	"WallPaper", "DcOption", "CdnConfig", "PollAnswer", "InlineResult"}
var c14Namespaces = []string{"", "", "", "storage.", "messages.", "auth.", "help.", "upload."}
var c14CtorSuffix = []string{"Empty", "Self", "Full", "Small", "Forbidden", "Min", "Old", "Big", "Deleted", "Layer72", "V2", "Cached"}
var c14ParamWords = []string{"id", "user_id", "access_hash", "title", "url", "api_id", "p2p", "msg_id", "date", "count", "offset",
	"limit", "hash", "peer", "data", "w", "h", "dc_id", "first_name", "phone", "query", "random_id", "sha256", "srp_id",
	"pts", "q", "lang_code", "file", "bytes", "thumb", "ttl"}

// names that collide with Go keywords or with identifiers the generated method bodies use
var c14TrickyParams = []string{"type", "errors", "range", "default", "params", "err", "c", "ok", "resp", "reflect", "func",
	"var", "map", "go", "select", "import", "package", "return", "struct", "interface", "const", "chan", "switch", "case",
	// names which the generator's initialism / camel-case mapping could turn into a member every generated struct has
	"crc", "flag_index", "string", "tl", "cRC", "flagIndex",
	// underscores that delimit nothing (valid TL identifiers): goify indexed the first letter of an empty word (D30)
	"trail_", "dbl__us", "tail__x_"}
var c14Prims = []string{"int", "long", "double", "string", "bytes", "Bool"}
var c14DocWords = []string{"the", "user", "identifier", "of", "a", "chat", "see", "https://core.telegram.org/api/min", "**bold**",
	"[link](x)", "flags.0?true", "Vector<int>", "=", ";", "#", "//", "@type", "смотри", "€", "…", "¹", "a\tb", "  wide"}

func lowerFirst(s string) string {
	if s == "" {
		return s
	}
	return strings.ToLower(s[:1]) + s[1:]
}

// c14ClashSpelling: a constructor name that is "the name of its type" in one of the ways schemas spell it:
// 0 first letter lowered (webPage), 1 all lower case (webpage), 2 snake case (web_page), 3 the type's letters
// with another inner capitalisation (webpAge). For a word of one hump 0, 1 and 2 coincide.
func c14ClashSpelling(word string, variant int) string {
	switch variant % 4 {
	case 1:
		return strings.ToLower(word)
	case 2:
		var b strings.Builder
		for i, c := range word {
			if i > 0 && c >= 'A' && c <= 'Z' {
				b.WriteByte('_')
			}
			b.WriteRune(c)
		}
		return strings.ToLower(b.String())
	case 3:
		l := []byte(strings.ToLower(word))
		at := len(l) - 2
		if at < 1 {
			at = len(l) - 1
		}
		// a capital where the type has none (and none where it has one)
		if word[at] >= 'A' && word[at] <= 'Z' {
			at--
		}
		if at >= 1 {
			l[at] = l[at] - 'a' + 'A'
		}
		return string(l)
	}
	return lowerFirst(word)
}

// c14GoName: the exported Go identifier the generator's documented naming rule gives a schema name —
// the harness's own statement of it (shares no code with gen/utils.go or strcase). The name is cut into
// words at '.', '_', '-', at every change lower→upper and letter↔digit, and in front of the last capital of a
// run of capitals that is followed by a lower-case letter (JSONData → JSON Data); every word is written in
// lower case with a capital first letter, the listed abbreviations all in capitals. Two schema names
// collide in the generated package exactly when their Go names are equal.
func c14GoName(name string) string {
	isUp := func(c byte) bool { return c >= 'A' && c <= 'Z' }
	isLo := func(c byte) bool { return c >= 'a' && c <= 'z' }
	isNum := func(c byte) bool { return c >= '0' && c <= '9' }
	var words []string
	cur := ""
	flush := func() {
		if cur != "" {
			words = append(words, cur)
		}
		cur = ""
	}
	for i := 0; i < len(name); i++ {
		c := name[i]
		if c == '.' || c == '_' || c == '-' || c == ' ' {
			flush()
			continue
		}
		if i > 0 && i+1 < len(name) && isUp(c) && isLo(name[i+1]) && isUp(name[i-1]) {
			flush()
		}
		cur += string(c)
		if i+1 < len(name) {
			n := name[i+1]
			if isLo(c) && (isUp(n) || isNum(n)) || isNum(c) && (isUp(n) || isLo(n)) || isUp(c) && isNum(n) {
				flush()
			}
		}
	}
	flush()
	var b strings.Builder
	for _, w := range words {
		w = strings.ToLower(w)
		switch w {
		case "id", "api", "url", "p2p", "sha", "srp":
			b.WriteString(strings.ToUpper(w))
		default:
			b.WriteString(strings.ToUpper(w[:1]) + w[1:])
		}
	}
	return b.String()
}

type c14GenOpts struct {
	forGen     bool // stay inside what the code generator documents (every referenced type is declared, …)
	size       int
	tricky     bool // keyword-like parameter names
	clash      bool // constructors named like their type
	spellIface bool // with spell: multi-constructor types only, spellings 1, 2, 3, … in turn (a small schema)
	spell      bool // every type: a word of several humps, a constructor that is its type's name in one of the spellings of c14ClashSpelling; kinds and spellings in rotation (all twelve combinations from size 12 on)
}

type c14TypeInfo struct {
	name  string // TL type name, with namespace
	kind  string // enum | single | iface
	ctors []*c14Def
}

func c14DocText(r *Rand) string {
	n := 1 + r.Intn(6)
	var w []string
	for i := 0; i < n; i++ {
		w = append(w, c14DocWords[r.Intn(len(c14DocWords))])
	}
	t := strings.TrimSpace(strings.Join(w, " "))
	// an annotation text never starts with a word the renderer could confuse, and is trimmed
	if t == "" {
		t = "x"
	}
	return t
}

func c14RandSchema(r *Rand, o c14GenOpts) (*c14Schema, []*c14TypeInfo) {
	usedCRC := map[uint32]bool{}
	crc := func() uint32 {
		for {
			var v uint32
			switch r.Intn(6) {
			case 0:
				v = uint32(r.U64() & 0xfff) // few digits
			case 1:
				v = uint32(r.U64()) | 0x80000000 // high bit
			case 2:
				v = uint32(r.U64() & 0xffffff) // leading zero byte
			default:
				v = uint32(r.U64())
			}
			if v != 0 && !usedCRC[v] {
				usedCRC[v] = true
				return v
			}
		}
	}
	// types
	nTypes := 1 + r.Intn(o.size)
	perm := make([]int, len(c14TypeWords))
	for i := range perm {
		perm[i] = i
	}
	for i := len(perm) - 1; i > 0; i-- {
		j := r.Intn(i + 1)
		perm[i], perm[j] = perm[j], perm[i]
	}
	if nTypes > len(perm) {
		nTypes = len(perm)
	}
	var types []*c14TypeInfo
	spellAt := r.Intn(len(c14MultiHump))
	if o.spell {
		nTypes = o.size
		if nTypes > len(c14MultiHump) {
			nTypes = len(c14MultiHump)
		}
	}
	for i := 0; i < nTypes; i++ {
		ns := c14Namespaces[r.Intn(len(c14Namespaces))]
		word := c14TypeWords[perm[i]]
		if o.spell {
			word = c14MultiHump[(spellAt+i)%len(c14MultiHump)]
		} else if r.Intn(4) == 0 {
			word = "Input" + word
		}
		ti := &c14TypeInfo{name: ns + word}
		kindPick := r.Intn(3)
		if o.spell {
			kindPick = i % 3
			if o.spellIface {
				kindPick = 2
			}
		}
		switch kindPick {
		case 0:
			ti.kind = "enum"
		case 1:
			ti.kind = "single"
		default:
			ti.kind = "iface"
		}
		n := 1
		if ti.kind == "enum" {
			n = 1 + r.Intn(4)
		} else if ti.kind == "iface" {
			n = 2 + r.Intn(3)
		}
		sfx := r.Intn(len(c14CtorSuffix))
		for k := 0; k < n; k++ {
			name := ns + lowerFirst(word) + c14CtorSuffix[(sfx+k)%len(c14CtorSuffix)]
			if k == 0 && o.spell {
				if o.spellIface {
					name = ns + c14ClashSpelling(word, 1+i)
				} else {
					name = ns + c14ClashSpelling(word, i/3)
				}
			} else if k == 0 && (o.clash && r.Intn(2) == 0 || r.Intn(6) == 0) {
				// constructor named like its type: usually the first letter lowered, sometimes another spelling
				v := 0
				if r.Intn(3) == 0 {
					v = 1 + r.Intn(3)
				}
				name = ns + c14ClashSpelling(word, v)
			}
			ti.ctors = append(ti.ctors, &c14Def{Name: name, CRC: crc(), Result: ti.name})
		}
		types = append(types, ti)
	}
	typeRef := func() string {
		if !o.forGen && r.Intn(12) == 0 {
			return []string{"!X", "Object", "int128", "%Message", "vector<int>", "Undeclared", "flags2.0?true"}[r.Intn(7)]
		}
		if r.Intn(2) == 0 {
			return c14Prims[r.Intn(len(c14Prims))]
		}
		return types[r.Intn(len(types))].name
	}
	params := func(min, max int, fn bool) []c14Param {
		n := min
		if max > min {
			n += r.Intn(max - min + 1)
		}
		used := map[string]bool{"flags": true}
		var ps []c14Param
		anyOpt := false
		for i := 0; i < n; i++ {
			var name string
			for {
				if o.tricky && r.Intn(3) == 0 {
					name = c14TrickyParams[r.Intn(len(c14TrickyParams))]
				} else {
					name = c14ParamWords[r.Intn(len(c14ParamWords))]
				}
				if !used[name] {
					break
				}
			}
			used[name] = true
			p := c14Param{Name: name, Type: typeRef()}
			if r.Intn(3) == 0 {
				p.Opt = true
				p.Bit = []int{0, 1, 2, 3, 5, 7, 8, 15, 16, 30, 31, r.Intn(32), r.Intn(32)}[r.Intn(13)]
				if len(ps) > 0 && ps[len(ps)-1].Opt && r.Intn(3) == 0 {
					p.Bit = ps[len(ps)-1].Bit // shared flag bit
				}
				if !o.forGen && r.Intn(10) == 0 {
					p.Bit = []int{32, 63, 99, 4096}[r.Intn(4)]
				}
				if r.Intn(3) == 0 {
					p.Type = "true"
				}
				anyOpt = true
			}
			if p.Type != "true" && r.Intn(4) == 0 && !strings.ContainsAny(p.Type, "<?") {
				p.Vec = true
			}
			if r.Intn(4) == 0 {
				p.Doc = c14DocText(r)
			}
			ps = append(ps, p)
		}
		if anyOpt || r.Intn(8) == 0 {
			first := len(ps)
			for i, p := range ps {
				if p.Opt {
					first = i
					break
				}
			}
			at := r.Intn(first + 1)
			if r.Intn(2) == 0 {
				at = 0
			}
			ps = append(ps[:at], append([]c14Param{{Name: "flags", Type: "bitflags"}}, ps[at:]...)...)
		}
		return ps
	}
	for _, ti := range types {
		switch ti.kind {
		case "single":
			ti.ctors[0].Params = params(1, 7, false)
		case "iface":
			with := r.Intn(len(ti.ctors))
			for k, c := range ti.ctors {
				if k == with || r.Intn(3) != 0 {
					c.Params = params(1, 6, false)
				}
			}
		}
		// a "single"/"iface" type whose constructors all ended up without a field other than flags is still
		// not an enum for the generator (flags is a parameter); nothing to adjust
	}
	// functions
	var funcs []*c14Def
	nFuncs := r.Intn(o.size + 1)
	for i := 0; i < nFuncs; i++ {
		ns := c14Namespaces[r.Intn(len(c14Namespaces))]
		verb := []string{"get", "set", "send", "delete", "check", "resolve", "update", "search",
			"int", "long", "string", "bytes", "double", "true", "vector", "invokeWithLayer"}[r.Intn(16)]
		name := fmt.Sprintf("%s%s%s", ns, verb, c14TypeWords[perm[(i*7+3)%len(perm)]])
		if i >= 8 {
			name += fmt.Sprintf("%d", i)
		}
		d := &c14Def{Name: name, CRC: crc(), Func: true}
		d.Params = params(0, 8, true)
		switch r.Intn(5) {
		case 0:
			d.Result = "Bool"
		case 1:
			d.Result, d.ResVec = types[r.Intn(len(types))].name, true
		case 2:
			d.Result, d.ResVec = []string{"int", "long", "string", "bytes", "double", "Bool"}[r.Intn(6)], true
		default:
			d.Result = types[r.Intn(len(types))].name
		}
		if !o.forGen && r.Intn(10) == 0 {
			d.Result = []string{"X", "Undeclared", "help.Undeclared"}[r.Intn(3)]
		}
		funcs = append(funcs, d)
	}
	seenFn := map[string]bool{}
	var uniq []*c14Def
	for _, f := range funcs {
		if !seenFn[f.Name] {
			seenFn[f.Name] = true
			uniq = append(uniq, f)
		}
	}
	funcs = uniq

	// layout: constructors (interleaving the types), section switches, comments, blank lines
	s := &c14Schema{}
	var ctorList []*c14Def
	for _, ti := range types {
		ctorList = append(ctorList, ti.ctors...)
	}
	if r.Intn(2) == 0 { // interleave constructors of different types
		for i := len(ctorList) - 1; i > 0; i-- {
			j := r.Intn(i + 1)
			ctorList[i], ctorList[j] = ctorList[j], ctorList[i]
		}
	}
	filler := func() {
		for r.Intn(3) == 0 {
			switch r.Intn(4) {
			case 0:
				s.items = append(s.items, c14Item{kind: "blank"})
			default:
				texts := []string{"", " plain comment", " ===8===", " error#c4b9f9bb code:int text:string = Error;", "no space",
					" @unknown annotation", " uknown types, docs are not provided", " " + c14DocText(r), " TODO: finish", "/ triple slash",
					" ---functions---", " int ? = Int;"}
				s.items = append(s.items, c14Item{kind: "comment", text: texts[r.Intn(len(texts))]})
			}
		}
	}
	excluded := []string{"boolFalse#bc799737 = Bool;", "boolTrue#997275b5 = Bool;", "true#3fedd339 = True;",
		"vector#1cb5c415 {t:Type} # [ t ] = Vector t;", "int ? = Int;", "long ? = Long;", "double ? = Double;", "string ? = String;",
		"bytes = Bytes;"}
	exclFn := []string{"invokeAfterMsg#cb9f372d {X:Type} msg_id:long query:!X = X;", "invokeWithLayer#da9b0d0d {X:Type} layer:int query:!X = X;",
		"initConnection#c1cd5ea9 {X:Type} flags:# api_id:int query:!X = X;", "invokeWithoutUpdates#bf9459b7 {X:Type} query:!X = X;",
		"invokeAfterMsgs#3dc4b4f0 {X:Type} msg_ids:Vector<long> query:!X = X;", "invokeWithMessagesRange#365275f2 {X:Type} range:MessageRange query:!X = X;",
		"invokeWithTakeout#aca9fd2e {X:Type} takeout_id:long query:!X = X;"}
	addDef := func(d *c14Def) {
		if r.Intn(3) == 0 {
			d.Doc = c14DocText(r)
		}
		if !d.Func && r.Intn(5) == 0 {
			d.TypeDoc = c14DocText(r)
		}
		s.items = append(s.items, c14Item{kind: "def", def: d})
	}
	if r.Intn(4) == 0 {
		s.items = append(s.items, c14Item{kind: "types"})
	}
	// split point: some constructors may come after the functions, behind a ---types--- line
	late := 0
	if len(funcs) > 0 && r.Intn(3) == 0 {
		late = r.Intn(len(ctorList) + 1)
	}
	early := ctorList[:len(ctorList)-late]
	filler()
	for _, d := range early {
		addDef(d)
		filler()
		if r.Intn(10) == 0 {
			s.items = append(s.items, c14Item{kind: "def", def: &c14Def{raw: excluded[r.Intn(len(excluded))]}})
		}
	}
	if len(funcs) > 0 || r.Intn(3) == 0 {
		s.items = append(s.items, c14Item{kind: "functions"})
		filler()
		for _, d := range funcs {
			addDef(d)
			filler()
			if r.Intn(10) == 0 {
				s.items = append(s.items, c14Item{kind: "def", def: &c14Def{raw: exclFn[r.Intn(len(exclFn))]}})
			}
		}
	}
	if late > 0 {
		s.items = append(s.items, c14Item{kind: "types"})
		for _, d := range ctorList[len(ctorList)-late:] {
			addDef(d)
			filler()
		}
	}
	return s, types
}

// ---- expected declarations (what a faithful generator has to emit) ------------------------------------

func c14Norm(s string) string {
	s = strings.ReplaceAll(strings.ReplaceAll(s, "_", ""), ".", "")
	return strings.ToLower(s)
}

// the kind of every declared type, by the documented rule: all constructors without parameters → enum;
// else exactly one constructor → single struct; else interface
func c14Kinds(defs []*c14Def) (kind map[string]string, single map[string]string) {
	ctors := map[string][]*c14Def{}
	for _, d := range defs {
		if !d.Func {
			ctors[d.Result] = append(ctors[d.Result], d)
		}
	}
	kind, single = map[string]string{}, map[string]string{}
	for t, cs := range ctors {
		enum := true
		for _, c := range cs {
			if len(c.Params) > 0 {
				enum = false
			}
		}
		switch {
		case enum:
			kind[t] = "enum"
		case len(cs) == 1:
			kind[t] = "single"
			single[t] = cs[0].Name
		default:
			kind[t] = "iface"
		}
	}
	return
}

// the classification op's expected line
func c14ExpectClassify(s *c14Schema) string {
	defs := s.defs()
	kind, _ := c14Kinds(defs)
	groups := map[string]map[string][]string{"enum": {}, "single": {}, "iface": {}}
	for _, d := range defs {
		if !d.Func {
			k := kind[d.Result]
			groups[k][d.Result] = append(groups[k][d.Result], c14Esc(d.Name))
		}
	}
	show := func(m map[string][]string) string {
		var keys []string
		for k := range m {
			keys = append(keys, k)
		}
		sort.Strings(keys)
		var parts []string
		for _, k := range keys {
			parts = append(parts, c14Esc(k)+":"+strings.Join(m[k], ","))
		}
		if len(parts) == 0 {
			return "-"
		}
		return strings.Join(parts, ";")
	}
	return fmt.Sprintf("enums=%s singles=%s types=%s", show(groups["enum"]), show(groups["single"]), show(groups["iface"]))
}

func c14ExpectType(t string, vec bool, kind, single map[string]string) string {
	var g string
	switch t {
	case "Bool", "true":
		g = "bool"
	case "int":
		g = "int32"
	case "long":
		g = "int64"
	case "double":
		g = "float64"
	case "string":
		g = "string"
	case "bytes":
		g = "bytes"
	default:
		switch kind[t] {
		case "enum":
			g = "E:" + c14Esc(t)
		case "iface":
			g = "I:" + c14Esc(t)
		case "single":
			g = "S:" + c14Esc(single[t])
		default:
			g = "?" + c14Esc(t)
		}
	}
	if vec {
		g = "[]" + g
	}
	return g
}

func c14ExpectDecls(s *c14Schema) string {
	defs := s.defs()
	kind, single := c14Kinds(defs)
	sorted := append([]*c14Def{}, defs...)
	sort.Slice(sorted, func(i, j int) bool { return sorted[i].CRC < sorted[j].CRC })
	var parts []string
	for _, d := range sorted {
		k := "params"
		obj := "0"
		if !d.Func {
			switch kind[d.Result] {
			case "enum":
				k = "enum:" + c14Esc(d.Result)
			case "iface":
				k = "iface:" + c14Esc(d.Result)
			default:
				k = "single"
			}
			// the suffix is there exactly when the Go names would collide (webPage, web_page / WebPage — not
			// webpage / WebPage, which are two identifiers)
			if k != "single" && c14GoName(d.Name) == c14GoName(d.Result) {
				obj = "1"
			}
		}
		fi := "-"
		anyOpt := false
		for _, p := range d.Params {
			anyOpt = anyOpt || p.Opt
		}
		if anyOpt {
			// position of the flags word among the parameters
			for j, q := range d.Params {
				if q.Name == "flags" && q.Type == "bitflags" {
					fi = fmt.Sprint(j)
				}
			}
		}
		var fs strings.Builder
		for _, p := range d.Params {
			if p.Type == "bitflags" {
				continue
			}
			tag := "-"
			if p.Opt {
				tag = fmt.Sprintf("flag:%d", p.Bit)
			}
			if p.Type == "true" {
				if tag == "-" {
					tag = ""
				}
				tag += ",encoded_in_bitflags"
			}
			fmt.Fprintf(&fs, " (f %s %s %s)", c14Norm(p.Name), c14ExpectType(p.Type, p.Vec, kind, single), tag)
		}
		parts = append(parts, fmt.Sprintf("(d %d %s %s %s%s)", d.CRC, k, obj, fi, fs.String()))
		if d.Func {
			var as strings.Builder
			n := 0
			for _, p := range d.Params {
				n++
				if p.Type == "bitflags" {
					continue
				}
				fmt.Fprintf(&as, " (a %s %s)", c14Norm(p.Name), c14ExpectType(p.Type, p.Vec, kind, single))
			}
			args := as.String()
			if n > 5 {
				args = " (a params P)"
			}
			parts = append(parts, fmt.Sprintf("(fn %d %s%s)", d.CRC, c14ExpectType(d.Result, d.ResVec, kind, single), args))
		}
	}
	return strings.Join(parts, " ")
}

// ---- an independent reader for the files under schemes/ ---------------------------------------------------
//
// One definition per line, fields separated by blanks: `name#id param:type … = Result;`. Shares no
// code with tlparser. Returns ok=false when a line is not of that shape (then the file is outside the
// documented subset and is only compared with the model, not judged).

var c14Excluded = map[string]bool{"true": true, "boolFalse": true, "boolTrue": true, "vector": true, "invokeAfterMsg": true,
	"invokeAfterMsgs": true, "initConnection": true, "invokeWithLayer": true, "invokeWithoutUpdates": true,
	"invokeWithMessagesRange": true, "invokeWithTakeout": true}

func c14ReadLines(text string) (*c14Schema, bool) {
	s := &c14Schema{}
	fn := false
	for _, ln := range strings.Split(text, "\n") {
		ln = strings.TrimSpace(ln)
		switch {
		case ln == "":
			continue
		case strings.HasPrefix(ln, "//"):
			continue
		case ln == "---functions---":
			fn = true
			s.items = append(s.items, c14Item{kind: "functions"})
			continue
		case ln == "---types---":
			fn = false
			s.items = append(s.items, c14Item{kind: "types"})
			continue
		}
		if !strings.HasSuffix(ln, ";") {
			return nil, false
		}
		f := strings.Fields(strings.TrimSuffix(ln, ";"))
		if len(f) < 3 || f[len(f)-2] != "=" {
			return nil, false
		}
		head := strings.SplitN(f[0], "#", 2)
		if len(head) != 2 {
			return nil, false
		}
		if c14Excluded[head[0]] {
			continue
		}
		var id uint32
		if n, err := fmt.Sscanf(head[1], "%x", &id); n != 1 || err != nil {
			return nil, false
		}
		d := &c14Def{Name: head[0], CRC: id, Func: fn, Result: f[len(f)-1]}
		if strings.HasPrefix(d.Result, "Vector<") && strings.HasSuffix(d.Result, ">") {
			d.Result, d.ResVec = d.Result[7:len(d.Result)-1], true
		}
		for _, tok := range f[1 : len(f)-2] {
			nt := strings.SplitN(tok, ":", 2)
			if len(nt) != 2 {
				return nil, false
			}
			p := c14Param{Name: nt[0], Type: nt[1]}
			if strings.HasPrefix(p.Type, "flags.") {
				q := strings.SplitN(p.Type[6:], "?", 2)
				if len(q) != 2 {
					return nil, false
				}
				if n, err := fmt.Sscanf(q[0], "%d", &p.Bit); n != 1 || err != nil {
					return nil, false
				}
				p.Opt, p.Type = true, q[1]
			}
			if strings.HasPrefix(p.Type, "Vector<") && strings.HasSuffix(p.Type, ">") {
				p.Type, p.Vec = p.Type[7:len(p.Type)-1], true
			}
			if p.Name == "flags" && p.Type == "#" {
				p.Type = "bitflags"
			}
			d.Params = append(d.Params, p)
		}
		s.items = append(s.items, c14Item{kind: "def", def: d})
	}
	return s, true
}

// ---- degenerate but valid schemas ---------------------------------------------------------------------------
//
// c14RandSchema always declares at least one type with a constructor, puts the constructors first and the
// functions behind them (some constructors may follow behind a second ---types---). A schema of the documented
// subset may just as well consist of functions only (all of them over builtin types), of constructors only, of
// enums only, of one single definition, of section markers with nothing between them, or have its sections the
// other way round. c14Degenerate builds those shapes from the same vocabulary; what each declares is known from
// its construction, so the parser / classification / declaration oracles apply unchanged.

type c14Shape struct {
	tag string
	s   *c14Schema
}

type c14Builder struct {
	r     *Rand
	used  map[uint32]bool
	words []string
	fnSeq int
}

func c14NewBuilder(r *Rand) *c14Builder {
	b := &c14Builder{r: r, used: map[uint32]bool{}}
	b.words = append(b.words, c14TypeWords...)
	for i := len(b.words) - 1; i > 0; i-- {
		j := r.Intn(i + 1)
		b.words[i], b.words[j] = b.words[j], b.words[i]
	}
	return b
}

func (b *c14Builder) crc() uint32 {
	for {
		v := uint32(b.r.U64())
		switch b.r.Intn(4) {
		case 0:
			v &= 0xfff
		case 1:
			v |= 0x80000000
		}
		if v != 0 && !b.used[v] {
			b.used[v] = true
			return v
		}
	}
}

// word: a type word not used before in this schema, sometimes in a namespace
func (b *c14Builder) word() (ns, w string) {
	w = b.words[0]
	b.words = b.words[1:]
	return c14Namespaces[b.r.Intn(len(c14Namespaces))], w
}

// params over the builtin types and the given declared types; a flags word when a parameter is conditional
func (b *c14Builder) params(min, max int, types []string) []c14Param {
	r := b.r
	n := min
	if max > min {
		n += r.Intn(max - min + 1)
	}
	used := map[string]bool{"flags": true}
	var ps []c14Param
	anyOpt := false
	for i := 0; i < n; i++ {
		name := c14ParamWords[r.Intn(len(c14ParamWords))]
		for used[name] {
			name = c14ParamWords[r.Intn(len(c14ParamWords))]
		}
		used[name] = true
		p := c14Param{Name: name, Type: c14Prims[r.Intn(len(c14Prims))]}
		if len(types) > 0 && r.Intn(2) == 0 {
			p.Type = types[r.Intn(len(types))]
		}
		if r.Intn(3) == 0 {
			p.Opt, p.Bit, anyOpt = true, []int{0, 1, 2, 7, 15, 30, 31}[r.Intn(7)], true
			if r.Intn(3) == 0 {
				p.Type = "true"
			}
		}
		if p.Type != "true" && r.Intn(4) == 0 {
			p.Vec = true
		}
		if r.Intn(5) == 0 {
			p.Doc = c14DocText(r)
		}
		ps = append(ps, p)
	}
	if anyOpt {
		ps = append([]c14Param{{Name: "flags", Type: "bitflags"}}, ps...)
	}
	return ps
}

func (b *c14Builder) doc(d *c14Def) *c14Def {
	if b.r.Intn(3) == 0 {
		d.Doc = c14DocText(b.r)
	}
	if !d.Func && b.r.Intn(6) == 0 {
		d.TypeDoc = c14DocText(b.r)
	}
	return d
}

// enum: a type with n constructors, none with a parameter; returns the type's name
func (b *c14Builder) enum(n int) (string, []*c14Def) {
	ns, w := b.word()
	sfx := b.r.Intn(len(c14CtorSuffix))
	var out []*c14Def
	for k := 0; k < n; k++ {
		out = append(out, b.doc(&c14Def{Name: ns + lowerFirst(w) + c14CtorSuffix[(sfx+k)%len(c14CtorSuffix)], CRC: b.crc(), Result: ns + w}))
	}
	if b.r.Intn(3) == 0 {
		out[0].Name = ns + lowerFirst(w) // named like its type
	}
	return ns + w, out
}

// structs: a type with n constructors (n = 1: a single struct; n > 1: an interface), the first with parameters
func (b *c14Builder) structs(n int, types []string) (string, []*c14Def) {
	ns, w := b.word()
	sfx := b.r.Intn(len(c14CtorSuffix))
	var out []*c14Def
	for k := 0; k < n; k++ {
		d := &c14Def{Name: ns + lowerFirst(w) + c14CtorSuffix[(sfx+k)%len(c14CtorSuffix)], CRC: b.crc(), Result: ns + w}
		if k == 0 || b.r.Intn(3) != 0 {
			d.Params = b.params(1, 6, types)
		}
		out = append(out, b.doc(d))
	}
	if b.r.Intn(3) == 0 {
		out[0].Name = ns + lowerFirst(w)
	}
	return ns + w, out
}

// fn: a function over the builtin types and the given declared types
func (b *c14Builder) fn(types []string, maxParams int) *c14Def {
	r := b.r
	verbs := []string{"get", "set", "send", "delete", "check", "resolve", "update", "search", "ping", "int", "vector"}
	_, w := b.word()
	b.fnSeq++
	d := &c14Def{Name: fmt.Sprintf("%s%s%s", c14Namespaces[r.Intn(len(c14Namespaces))], verbs[r.Intn(len(verbs))], w), CRC: b.crc(), Func: true}
	d.Params = b.params(0, maxParams, types)
	switch k := r.Intn(4); {
	case k == 0 && len(types) > 0:
		d.Result = types[r.Intn(len(types))]
	case k == 1 && len(types) > 0:
		d.Result, d.ResVec = types[r.Intn(len(types))], true
	case k == 2:
		d.Result, d.ResVec = c14Prims[r.Intn(len(c14Prims))], true
	default:
		d.Result = "Bool"
	}
	return b.doc(d)
}

func c14Items(parts ...interface{}) *c14Schema {
	s := &c14Schema{}
	for _, p := range parts {
		switch v := p.(type) {
		case string: // types | functions | blank | a raw line (excluded definition) | a comment ("//…")
			switch {
			case v == "types" || v == "functions" || v == "blank":
				s.items = append(s.items, c14Item{kind: v})
			case strings.HasPrefix(v, "//"):
				s.items = append(s.items, c14Item{kind: "comment", text: v[2:]})
			default:
				s.items = append(s.items, c14Item{kind: "def", def: &c14Def{raw: v}})
			}
		case *c14Def:
			s.items = append(s.items, c14Item{kind: "def", def: v})
		case []*c14Def:
			for _, d := range v {
				s.items = append(s.items, c14Item{kind: "def", def: d})
			}
		}
	}
	return s
}

// c14Degenerate: one schema per degenerate shape (fresh random content on every call).
func c14Degenerate(r *Rand) []c14Shape {
	var out []c14Shape
	add := func(tag string, s *c14Schema) { out = append(out, c14Shape{tag, s}) }
	nb := func() *c14Builder { return c14NewBuilder(r) }
	fns := func(b *c14Builder, n int, types []string) []*c14Def {
		var l []*c14Def
		for i := 0; i < n; i++ {
			max := 4
			if i == 1 {
				max = 8 // more than five parameters: one params argument
			}
			l = append(l, b.fn(types, max))
		}
		return l
	}
	builtinLines := []interface{}{"boolFalse#bc799737 = Bool;", "boolTrue#997275b5 = Bool;", "true#3fedd339 = True;",
		"vector#1cb5c415 {t:Type} # [ t ] = Vector t;", "int ? = Int;", "long ? = Long;", "string ? = String;"}

	// functions only: no constructor anywhere
	b := nb()
	add("only-functions", c14Items("functions", fns(b, 1+r.Intn(4), nil)))
	b = nb()
	add("only-functions-after-empty-types", c14Items("types", "functions", fns(b, 1+r.Intn(4), nil)))
	b = nb()
	add("only-functions-after-builtin-types", c14Items(append(append([]interface{}{"types"}, builtinLines[:2+r.Intn(len(builtinLines)-1)]...), "functions", fns(b, 1+r.Intn(4), nil))...))
	b = nb()
	add("only-functions-commented", c14Items("// service schema", "blank", "functions", "// ---types---", fns(b, 2, nil), "blank", "// end"))
	b = nb()
	add("only-functions-then-empty-types", c14Items("functions", fns(b, 1+r.Intn(3), nil), "types"))
	// one definition
	b = nb()
	add("one-function", c14Items("functions", b.fn(nil, 3)))
	b = nb()
	_, e1 := b.enum(1)
	add("one-enum-constructor", c14Items(e1))
	b = nb()
	_, s1 := b.structs(1, nil)
	add("one-struct-constructor", c14Items(s1))
	b = nb()
	_, s1 = b.structs(1, nil)
	add("one-struct-constructor-under-types", c14Items("types", s1))
	// only constructors / only enums, with and without markers; a functions section that is empty
	b = nb()
	ta, ea := b.enum(1 + r.Intn(4))
	tb, eb := b.enum(1 + r.Intn(3))
	add("only-enums", c14Items(ea, eb))
	b = nb()
	ta, ea = b.enum(2)
	tb, eb = b.enum(1)
	add("only-enums-empty-functions", c14Items("types", ea, eb, "functions"))
	b = nb()
	ta, ea = b.enum(1 + r.Intn(3))
	tb, sb := b.structs(1, []string{ta})
	tc, ic := b.structs(2+r.Intn(2), []string{ta, tb})
	add("only-constructors", c14Items(ea, sb, ic))
	b = nb()
	ta, ea = b.enum(2)
	tb, sb = b.structs(1, []string{ta})
	tc, ic = b.structs(2, []string{ta, tb})
	add("only-constructors-empty-functions", c14Items(ea, sb, ic, "functions", "// none yet"))
	b = nb()
	tb, sb = b.structs(1, nil)
	add("empty-functions-then-types", c14Items("functions", "types", sb))
	// nothing declared at all
	add("only-markers", c14Items("types", "functions"))
	add("only-markers-reversed", c14Items("functions", "types", "blank"))
	add("only-comments", c14Items("// nothing", "blank", "// @unknown x"))
	add("only-builtins", c14Items(append(append([]interface{}{"types"}, builtinLines...), "functions", "invokeWithLayer#da9b0d0d {X:Type} layer:int query:!X = X;")...))
	// the sections the other way round, and several of each
	b = nb()
	ta, ea = b.enum(2)
	tb, sb = b.structs(1, []string{ta})
	tc, ic = b.structs(2, []string{ta})
	all := []string{ta, tb, tc}
	add("functions-before-types", c14Items("functions", fns(b, 1+r.Intn(3), all), "types", ea, sb, ic))
	b = nb()
	ta, ea = b.enum(1 + r.Intn(2))
	tb, sb = b.structs(1, []string{ta})
	tc, ic = b.structs(2, []string{tb})
	all = []string{ta, tb, tc}
	add("alternating-sections", c14Items("functions", fns(b, 1, all), "types", ea, "functions", fns(b, 2, all), "types", sb, ic[:1], "functions", "types", ic[1:], "functions", fns(b, 1, all)))
	b = nb()
	tb, sb = b.structs(1, nil)
	add("one-function-one-constructor-reversed", c14Items("functions", b.fn([]string{tb}, 2), "types", sb))
	return out
}
