package main

// C06 — the factoring of pq: the REAL math.SplitPQ (internal/math/math.go) against its Lean model
// (lean/Mtv/Handshake/SplitPQ.lean).
//
//   c06.split <tag> <pq>            pq decimal, below 2^64. What makeAuthKey does with a pq: the guard of
//                                   handshake.go (pq < 4 or pq.ProbablyPrime(0): refused), then math.SplitPQ.
//                                   Result: `refused` | `ok <p1> <p2>` | `timeout` (the call had not returned after
//                                   c06SplitTimeout; it runs on a goroutine of its own, because on a prime it never
//                                   returns) | `panic:div0`.
//   c06.splitraw <tag> <pq>         the call WITHOUT the guard, only for pq = 0 and pq = 1: the witnesses of
//                                   `splitPQ_panics_below_two` (division by zero in big.Int.Mod). Result: `panic:div0`.
//   c06.mulmod <tag> <a> <b> <c> <n>  the inner double-and-add loop of SplitPQ. The repository exposes the loop only
//                                   inside SplitPQ, so the Go side is a transcription of those statements with the same
//                                   big.Int calls (c06MulAddLoop); the oracle is (c + a*b) mod n by big.Int.Mul/Mod for
//                                   a, c < n (what `mulAddMod_spec` proves of the model). Result: the number.
//
// Oracle (c06PQJudge), from the number alone: a pq below 4 or prime (an independent 32-round Miller-Rabin + the
// Baillie-PSW of ProbablyPrime(32)) must be refused; any other generated pq is a product of two primes and the call must
// return p1 <= p2, both prime, p1*p2 = pq. The Lean driver answers with the factorisation its model finds with a FIXED draw
// stream: by `splitPQ_semiprime` both must agree whatever the draws (the real function seeds math/rand with the clock).

import (
	"fmt"
	"math/big"
	"strings"
	"time"

	mtmath "github.com/xelaj/mtproto/internal/math"
)

const c06SplitTimeout = 60 * time.Second

var c06Two64 = new(big.Int).Lsh(big.NewInt(1), 64)

func c06Dec(s string) (*big.Int, bool) {
	if s == "" || len(s) > 40 || (len(s) > 1 && s[0] == '0') {
		return nil, false
	}
	for _, ch := range s {
		if ch < '0' || ch > '9' {
			return nil, false
		}
	}
	v, ok := new(big.Int).SetString(s, 10)
	return v, ok
}

// c06PQCall: math.SplitPQ on a goroutine with a recover and a watchdog.
func c06PQCall(pq *big.Int) string {
	ch := make(chan string, 1)
	go func() {
		defer func() {
			if r := recover(); r != nil {
				if strings.Contains(fmt.Sprint(r), "division by zero") {
					ch <- "panic:div0"
				} else {
					ch <- "panic:other"
				}
			}
		}()
		p1, p2 := mtmath.SplitPQ(new(big.Int).Set(pq))
		ch <- "ok " + p1.String() + " " + p2.String()
	}()
	select {
	case r := <-ch:
		return r
	case <-time.After(c06SplitTimeout):
		return "timeout"
	}
}

// c06MulAddLoop: the statements of SplitPQ's inner loop, as they stand in math.go (a, b, c are consumed).
func c06MulAddLoop(a, b, c, what *big.Int) *big.Int {
	big0, big1 := big.NewInt(0), big.NewInt(1)
	for b.Cmp(big0) == 1 {
		b2 := big.NewInt(0)
		if b2.And(b, big1).Cmp(big0) == 1 {
			c.Add(c, a)
			if c.Cmp(what) >= 0 {
				c.Sub(c, what)
			}
		}
		a.Add(a, a)
		if a.Cmp(what) >= 0 {
			a.Sub(a, what)
		}
		b.Rsh(b, 1)
	}
	return c
}

func c06PQExec(op []string) string {
	switch op[0] {
	case "c06.split", "c06.splitraw":
		if len(op) != 3 {
			return "bad-op"
		}
		pq, ok := c06Dec(op[2])
		if !ok || pq.Cmp(c06Two64) >= 0 {
			return "bad-op"
		}
		if op[0] == "c06.splitraw" {
			if pq.Cmp(big.NewInt(1)) > 0 {
				return "bad-op"
			}
			return c06PQCall(pq)
		}
		// handshake.go: `if pq.Cmp(big.NewInt(4)) < 0 || pq.ProbablyPrime(0) { return errors.New(…) }`
		// (that these are the words of the source is the obligation checks_match_source of C07)
		if pq.Cmp(big.NewInt(4)) < 0 || pq.ProbablyPrime(0) {
			return "refused"
		}
		return c06PQCall(pq)
	case "c06.mulmod":
		if len(op) != 6 {
			return "bad-op"
		}
		var v [4]*big.Int
		for i := range v {
			x, ok := c06Dec(op[2+i])
			if !ok {
				return "bad-op"
			}
			v[i] = x
		}
		return c06MulAddLoop(v[0], v[1], v[2], v[3]).String()
	}
	return "bad-op"
}

// c06IsPrime: Miller-Rabin with 32 drawn bases + Baillie-PSW (exact below 2^64)
func c06IsPrime(x *big.Int) bool { return x.ProbablyPrime(32) }

func c06PQJudge(op []string, out string) string {
	if out == "bad-op" {
		return ""
	}
	switch op[0] {
	case "c06.splitraw":
		if out != "panic:div0" {
			return "math.SplitPQ(" + op[2] + ") without the guard: expected the division by zero of big.Int.Mod, got " + out
		}
		return ""
	case "c06.mulmod":
		a, _ := c06Dec(op[2])
		b, _ := c06Dec(op[3])
		c, _ := c06Dec(op[4])
		n, _ := c06Dec(op[5])
		if a == nil || b == nil || c == nil || n == nil || a.Cmp(n) >= 0 || c.Cmp(n) >= 0 {
			return "" // outside the loop's precondition: compared with the model only
		}
		want := new(big.Int).Mul(a, b)
		want.Add(want, c).Mod(want, n)
		if out != want.String() {
			return fmt.Sprintf("the double-and-add loop of SplitPQ with a=%s b=%s c=%s what=%s ends with %s, (c + a*b) mod what is %s", op[2], op[3], op[4], op[5], out, want)
		}
		return ""
	}
	pq, _ := c06Dec(op[2])
	if pq == nil {
		return ""
	}
	if pq.Cmp(big.NewInt(4)) < 0 || c06IsPrime(pq) {
		if out != "refused" {
			return "pq = " + op[2] + " is below 4 or prime and must be refused before math.SplitPQ is called, got " + out
		}
		return ""
	}
	f := strings.Fields(out)
	if len(f) != 3 || f[0] != "ok" {
		if out == "timeout" {
			return fmt.Sprintf("math.SplitPQ(%s) had not returned after %v (pq is a product of two primes)", op[2], c06SplitTimeout)
		}
		return "math.SplitPQ(" + op[2] + ") on a product of two primes: " + out
	}
	p1, ok1 := c06Dec(f[1])
	p2, ok2 := c06Dec(f[2])
	if !ok1 || !ok2 {
		return "math.SplitPQ(" + op[2] + ") returned " + out
	}
	var bad []string
	if new(big.Int).Mul(p1, p2).Cmp(pq) != 0 {
		bad = append(bad, fmt.Sprintf("p1*p2 = %s is not pq", new(big.Int).Mul(p1, p2)))
	}
	if p1.Cmp(p2) > 0 {
		bad = append(bad, "p1 > p2 (the protocol wants p < q)")
	}
	if !c06IsPrime(p1) {
		bad = append(bad, "p1 = "+f[1]+" is not prime")
	}
	if !c06IsPrime(p2) {
		bad = append(bad, "p2 = "+f[2]+" is not prime")
	}
	if len(bad) > 0 {
		return "math.SplitPQ(" + op[2] + ") returned (" + f[1] + ", " + f[2] + "): " + strings.Join(bad, "; ")
	}
	return ""
}

// c06PrimeNear: the prime nearest to x in the given direction (dir = -1: the largest prime <= x, +1: the smallest >= x)
func c06PrimeNear(x uint64, dir int) uint64 {
	for {
		if new(big.Int).SetUint64(x).ProbablyPrime(16) {
			return x
		}
		if dir < 0 {
			x--
		} else {
			x++
		}
	}
}

// c06RandPrime: a prime of exactly `bits` bits (2 <= bits <= 32)
func c06RandPrime(r *Rand, bits int) uint64 {
	if bits <= 2 {
		return uint64(2 + r.Intn(2))
	}
	for {
		x := (r.U64() >> uint(64-bits)) | 1<<uint(bits-1) | 1
		if new(big.Int).SetUint64(x).ProbablyPrime(16) {
			return x
		}
	}
}

func c06PQGen(g *G) {
	r := g.R
	mul := func(p, q uint64) string {
		return new(big.Int).Mul(new(big.Int).SetUint64(p), new(big.Int).SetUint64(q)).String()
	}
	semi := func(tag string, p, q uint64, tags ...string) {
		g.Emit("c06.split "+tag+" "+mul(p, q), append([]string{"split"}, tags...)...)
	}
	// (s0) what the guard refuses: below 4, primes (small, the largest below 2^32 / 2^61 / 2^64)
	for _, v := range []uint64{0, 1, 2, 3, 5, 7, 4294967291, 2305843009213693951, 18446744073709551557} {
		g.Emit(fmt.Sprintf("c06.split refused:%d %d", v, v), "split", "split:refused")
	}
	// (s1) the witnesses of the division by zero, without the guard
	g.Emit("c06.splitraw raw:0 0", "split", "split:raw")
	g.Emit("c06.splitraw raw:1 1", "split", "split:raw")
	// (s2) small products, equal primes, the repository's test vectors
	small := []uint64{2, 3, 5, 7, 11, 13}
	for i, p := range small {
		for _, q := range small[i:] {
			semi(fmt.Sprintf("small:%dx%d", p, q), p, q, "split:small")
		}
	}
	semi("vector:15", 3, 5, "split:vector")
	semi("vector:378221", 613, 617, "split:vector")
	semi("vector:1724114033281923457", 1229739323, 1402015859, "split:vector")
	// (s3) primes next to 2^32, 2^31, 2^16; pq next to 2^63 and 2^64; equal primes; unbalanced products
	p32a, p32b := c06PrimeNear(1<<32-1, -1), c06PrimeNear(1<<32-1-5, -1) // 4294967291, 4294967279
	p31 := c06PrimeNear(1<<31-1, -1)                                     // 2^31 - 1
	p31up := c06PrimeNear(1<<31, +1)
	sq63lo, sq63hi := c06PrimeNear(3037000499, -1), c06PrimeNear(3037000500, +1) // around sqrt(2^63)
	semi("edge:largest", p32b, p32a, "split:edge")
	semi("edge:square-largest", p32a, p32a, "split:edge", "split:square")
	semi("edge:below-2^63", sq63lo, sq63lo, "split:edge", "split:square")
	semi("edge:above-2^63", sq63lo, sq63hi, "split:edge")
	semi("edge:2^31-1-squared", p31, p31, "split:edge", "split:square")
	semi("edge:around-2^31", p31, p31up, "split:edge")
	semi("edge:2-times-largest", 2, p32a, "split:edge", "split:unbalanced")
	semi("edge:3-times-largest", 3, p32a, "split:edge", "split:unbalanced")
	semi("edge:65537-times-largest", 65537, p32a, "split:edge", "split:unbalanced")
	semi("edge:65537-squared", 65537, 65537, "split:edge", "split:square")
	semi("edge:65521x65537", 65521, 65537, "split:edge")
	// (s4) drawn products: both sizes drawn, equal sizes, equal primes
	n := g.N(8, 160)
	for i := 0; i < n; i++ {
		bp, bq := 2+r.Intn(31), 2+r.Intn(31)
		switch i % 4 {
		case 1:
			bq = bp
		case 2:
			bp, bq = 28+r.Intn(5), 28+r.Intn(5)
		}
		p, q := c06RandPrime(r, bp), c06RandPrime(r, bq)
		if i%8 == 5 {
			q = p
		}
		if p > q {
			p, q = q, p
		}
		semi(fmt.Sprintf("drawn:%dx%d-bits", bp, bq), p, q, "split:drawn")
	}
	// (s5) the inner loop: edges, then drawn operands (a, c < n; a few outside that)
	mm := func(tag string, a, b, c, n *big.Int) {
		g.Emit(fmt.Sprintf("c06.mulmod %s %s %s %s %s", tag, a, b, c, n), "mulmod")
	}
	u := func(x uint64) *big.Int { return new(big.Int).SetUint64(x) }
	big64 := u(18446744073709551557)
	for _, e := range [][4]*big.Int{
		{u(0), u(0), u(0), u(1)}, {u(0), u(5), u(0), u(1)}, {u(1), u(0), u(1), u(2)}, {u(1), u(1), u(1), u(2)},
		{u(6), u(7), u(8), u(9)}, {u(8), u(1<<63 | 1), u(8), u(9)},
		{u(18446744073709551556), u(18446744073709551615), u(18446744073709551556), big64},
		{u(1 << 63), u(1 << 63), u(1<<63 - 1), u(1<<63 + 1)},
		{u(4294967290), u(4294967290), u(32), u(4294967291)},
		{u(12), u(3), u(20), u(10)}, // a, c >= n: outside the precondition
	} {
		mm("edge", e[0], e[1], e[2], e[3])
	}
	k := g.N(24, 3000)
	for i := 0; i < k; i++ {
		nb := 1 + r.Intn(64)
		nn := u(r.U64()>>uint(64-nb) | 1<<uint(nb-1))
		a := new(big.Int).Mod(u(r.U64()), nn)
		c := new(big.Int).Mod(u(r.U64()), nn)
		b := u(r.U64() >> uint(r.Intn(64)))
		if i%16 == 7 {
			a.Add(a, nn) // outside the precondition
		}
		mm("drawn", a, b, c, nn)
	}
}
