package main

// C03 — the encrypted envelope follows the MTProto 1.0 layout and key schedule.
//
// Real code exercised: messages.Encrypted.Serialize, messages.DeserializeEncrypted,
// messages.Unencrypted.Serialize, messages.DeserializeUnencrypted, ige.MessageKey, utils.AuthKeyHash,
// generateAESIGE (through the verif hook), transport.ReadMsg over a loopback connection (c03.route /
// c03.uroute: the server's packet as the client really receives it, after the framing layer and with the
// transport's own look at the msg_id). Oracle: the specification's server of x_envelope.go
// (envOpen direction 0 judges what the client sealed; envSeal direction 8 produces what the client
// must open). c03.session: ONE transport (one loopback connection) reading a sequence of conformant server
// packets — the property is per packet, whatever the transport read before: a server sends a message
// again while it is unacknowledged (the same packet twice in a row, again later), and may seal the same
// msg_id anew (another padding, another body in a container re-send); the peer writes every frame in 1..k pieces
// (cuts inside the length prefix, inside the packet, one byte at a time, 4 KB / 64 KB packets) with a short pause
// after each piece, and 4-byte transport error-code frames come before, between and after the packets: every
// conformant packet must still open, however it arrived and whatever frame the transport read before. c03.par: several clients of one process sealing and opening at the same time, every packet
// judged by the same server (calls must not disturb one another: the property is per call).

import (
	"bytes"
	"context"
	"encoding/binary"
	"fmt"
	"io"
	"net"
	"sort"
	"strconv"
	"strings"
	"sync"
	"time"

	ige "github.com/xelaj/mtproto/internal/aes_ige"
	"github.com/xelaj/mtproto/internal/mode"
	"github.com/xelaj/mtproto/internal/mtproto/messages"
	"github.com/xelaj/mtproto/internal/transport"
	"github.com/xelaj/mtproto/internal/utils"
)

// the bytes the last Exec produced, for the Judge (which only gets the printed line)
var c03LastOp string
var c03LastBytes []byte

func c03Remember(op []string, b []byte) {
	c03LastOp = strings.Join(op, " ")
	c03LastBytes = append([]byte{}, b...)
}

func c03Seal(op []string) ([]byte, error) {
	key := envTok(op[1])
	inf := envInformator{salt: int64(envU64(op[2])), sid: int64(envU64(op[3])), seq: int32(uint32(envU64(op[5]))), key: key}
	e := &messages.Encrypted{Msg: envTok(op[7]), MsgID: int64(envU64(op[4]))}
	if len(op) == 9 {
		// the struct's AuthKeyHash field as the caller filled it in ("own" = the hash of this key):
		// the key id written must be that of the key the packet is encrypted with, whatever it holds
		if op[8] == "own" {
			e.AuthKeyHash = envSha1(key)[12:20]
		} else {
			e.AuthKeyHash = envTok(op[8])
		}
	}
	return e.Serialize(inf, op[6] == "1")
}

func c03OpMsg(op []string) envMsg { // tokens 2..5 = salt sid mid seq
	return envMsg{Salt: envU64(op[2]), Sid: envU64(op[3]), Mid: envU64(op[4]), Seq: uint32(envU64(op[5]))}
}

func c03Unenc(data []byte) string {
	m, err := messages.DeserializeUnencrypted(data)
	if err != nil {
		return envUnencErr(err)
	}
	return fmt.Sprintf("ok mid=%d body=%s", uint64(m.MsgID), showBytes(m.Msg))
}

// distribution of result kinds per operation, reported in the evidence file
var c03Kinds = map[string]int{}
var c03G *G

func c03Exec(op []string) string {
	out := c03Exec1(op)
	if op[0] == "c03.mix" {
		// per step: which side, accepted or which refusal class
		if outs := strings.Split(out, " ; "); len(outs) == len(op)-2 {
			for i, o := range outs {
				k := "ok"
				if strings.HasPrefix(o, "err:") || strings.HasPrefix(o, "panic:") {
					k = o
				}
				c03Kinds["c03.mix step "+strings.SplitN(op[2+i], ",", 2)[0]+" "+k]++
			}
		}
		return out
	}
	k := out
	if i := strings.Index(k, " ok "); i >= 0 {
		k = "ok"
	} else if i := strings.Index(k, " err:"); i >= 0 {
		k = k[i+1:]
	} else if i := strings.IndexAny(k, "= ("); i >= 0 {
		k = k[:i]
	}
	c03Kinds[op[0]+" "+k]++
	return out
}

func c03Exec1(op []string) string {
	switch op[0] {
	case "c03.seal":
		if len(op) != 8 && len(op) != 9 {
			return "bad-op"
		}
		pkt, err := c03Seal(op)
		if err != nil {
			return "err:" + strings.ReplaceAll(err.Error(), " ", "_")
		}
		c03Remember(op, pkt)
		if len(pkt) < 24 {
			return "short:" + hexD(pkt)
		}
		return fmt.Sprintf("keyid=%s msgkey=%s ct=%s", showBytes(pkt[:8]), showBytes(pkt[8:24]), showBytes(pkt[24:]))
	case "c03.open":
		if len(op) != 8 {
			return "bad-op"
		}
		key := envTok(op[1])
		m := c03OpMsg(op)
		m.Body = envTok(op[6])
		pkt := envSeal(8, key, m, envTok(op[7]))
		e, err := messages.DeserializeEncrypted(append([]byte{}, pkt...), key)
		if err != nil {
			return "pkt=" + showBytes(pkt) + " " + envOpenErr(err)
		}
		got := envOfEncrypted(e)
		c03Remember(op, got.Body)
		return "pkt=" + showBytes(pkt) + " " + envShowMsg(got)
	case "c03.route":
		// the same server packet as c03.open, but delivered the way a client gets it: one frame over a
		// (loopback) connection, read by the real transport.ReadMsg
		if len(op) != 8 {
			return "bad-op"
		}
		key := envTok(op[1])
		m := c03OpMsg(op)
		m.Body = envTok(op[6])
		return envRoute(key, envSeal(8, key, m, envTok(op[7])))
	case "c03.uroute":
		// an unencrypted (key exchange) answer through transport.ReadMsg
		if len(op) != 3 {
			return "bad-op"
		}
		return envRoute(nil, c03SpecUnenc(envU64(op[1]), envTok(op[2])))
	case "c03.session":
		if len(op) < 3 {
			return "bad-op"
		}
		return c03Session(envTok(op[1]), op[2:])
	case "c03.mix":
		return c03Mix(op)
	case "c03.par":
		if len(op) != 5 {
			return "bad-op"
		}
		return c03Par(atoi(op[1]), atoi(op[2]), envU64(op[3]), atoi(op[4]))
	case "c03.kdf":
		k, iv := ige.VerifGenerateAESIGE(envTok(op[2]), envTok(op[3]), op[1] == "8")
		return fmt.Sprintf("key=%s iv=%s", hexD(k), hexD(iv))
	case "c03.msgkey":
		return "msgkey=" + hexD(ige.MessageKey(envTok(op[1])))
	case "c03.keyid":
		return "keyid=" + hexD(utils.AuthKeyHash(envTok(op[1])))
	case "c03.userial":
		b, err := (&messages.Unencrypted{Msg: envTok(op[2]), MsgID: int64(envU64(op[1]))}).Serialize(envInformator{})
		if err != nil {
			return "err:" + strings.ReplaceAll(err.Error(), " ", "_")
		}
		c03Remember(op, b)
		return "bytes=" + showBytes(b)
	case "c03.udeser":
		return c03Unenc(envTok(op[1]))
	case "c03.urt":
		b, err := (&messages.Unencrypted{Msg: envTok(op[2]), MsgID: int64(envU64(op[1]))}).Serialize(envInformator{})
		if err != nil {
			return "err:" + strings.ReplaceAll(err.Error(), " ", "_")
		}
		return c03Unenc(b)
	}
	return "bad-op"
}

// ---- one transport, many packets ---------------------------------------------------------------------
//
//   c03.session <key> <step> <step> …     step = e:<salt>:<sid>:<msg_id>:<seq_no>:<padding>:<body>   (sealed by the
//                                                 specification's server, direction 8, under <key>)
//                                              | u:<msg_id>:<body>                                  (unencrypted)
//                                              | c:<code>          (the 4-byte frame of a signed transport error code)
//                                         each optionally prefixed by <cuts>/ — "each" or comma-separated offsets at
//                                         which the peer cuts the frame (length prefix + packet) into separate writes
// One transport for the whole line; the peer writes a packet only when the client is about to read it.
// The results of the steps are joined with " ; "; each step is judged as a c03.route / c03.uroute of its own.

type c03Step struct {
	enc  bool
	code bool // a 4-byte transport error-code frame (m.Mid unused)
	cval int32
	raw  bool // r:<packet>: these bytes as the frame's content (a packet the client must refuse, of any refusal class)
	data []byte
	m    envMsg
	pad  []byte
	good bool
	// how the peer writes the frame (length prefix + packet): in one piece, one byte at a time, or cut at these
	// offsets of the frame, a short pause after every piece
	each bool
	cuts []int
}

// c03ParseStep: [<cuts>/]<step>; cuts = "each" or a comma-separated list of offsets.
func c03ParseStep(t string) (st c03Step) {
	if i := strings.Index(t, "/"); i >= 0 {
		cs := t[:i]
		t = t[i+1:]
		if cs == "each" {
			st.each = true
		} else {
			for _, c := range strings.Split(cs, ",") {
				v, err := strconv.ParseUint(c, 10, 31)
				if err != nil {
					return c03Step{}
				}
				st.cuts = append(st.cuts, int(v))
			}
		}
	}
	p := strings.Split(t, ":")
	switch {
	case len(p) >= 7 && p[0] == "e":
		st.enc, st.good = true, true
		st.m = envMsg{Salt: envU64(p[1]), Sid: envU64(p[2]), Mid: envU64(p[3]), Seq: uint32(envU64(p[4])), Body: envTok(strings.Join(p[6:], ":"))}
		st.pad = envTok(p[5])
	case len(p) >= 3 && p[0] == "u":
		st.good = true
		st.m = envMsg{Mid: envU64(p[1]), Body: envTok(strings.Join(p[2:], ":"))}
	case len(p) == 2 && p[0] == "r":
		st.raw, st.good, st.data = true, true, envTok(p[1])
		if len(st.data) < 8 {
			return c03Step{}
		}
	case len(p) == 2 && p[0] == "c":
		v, err := strconv.ParseInt(p[1], 10, 32)
		if err != nil {
			return c03Step{}
		}
		st.code, st.good, st.cval = true, true, int32(v)
	}
	return st
}

func c03StepPacket(key []byte, st c03Step) []byte {
	switch {
	case st.code:
		b := make([]byte, 4)
		binary.LittleEndian.PutUint32(b, uint32(st.cval))
		return b
	case st.raw:
		return st.data
	case st.enc:
		return envSeal(8, key, st.m, st.pad)
	}
	return c03SpecUnenc(st.m.Mid, st.m.Body)
}

// c03Pieces: the frame as the peer writes it.
func c03Pieces(frame []byte, st c03Step) [][]byte {
	if st.each {
		cuts := make([]int, 0, len(frame))
		for i := 1; i < len(frame); i++ {
			cuts = append(cuts, i)
		}
		return splitAt(frame, cuts)
	}
	cuts := append([]int{}, st.cuts...)
	sort.Ints(cuts)
	return splitAt(frame, cuts)
}

// c03Routed prints what ReadMsg returned (as x_envelope.go's envRoute does for its single packet); alive:
// the transport can be read again.
func c03Routed(msg messages.Common, err error) (res string, alive bool) {
	if err != nil {
		if code, ok := err.(transport.ErrCode); ok {
			return fmt.Sprintf("code:%d", int(code)), true
		}
		s := err.Error()
		if strings.HasPrefix(s, "wrong bits of message_id") {
			return "err:parity2", true
		}
		if envStreamErr(err) {
			e := strings.ToLower(s)
			broken := strings.Contains(e, "eof") || strings.Contains(e, "closed") || strings.Contains(e, "timeout") || strings.Contains(e, "reset")
			return "err:transport(" + strings.ReplaceAll(s, " ", "_") + ")", !broken
		}
		if strings.HasPrefix(s, "reading message") {
			// the framing layer gave up on the frame (not a refusal of a packet it delivered): what follows on
			// this connection is no longer read at frame boundaries
			return "err:transport(" + strings.ReplaceAll(s, " ", "_") + ")", false
		}
		if strings.Contains(s, "Wrong bits of message_id") || strings.Contains(s, "not equal defined size") {
			return envUnencErr(err), true
		}
		return envOpenErr(err), true
	}
	switch m := msg.(type) {
	case *messages.Encrypted:
		return "enc " + envShowMsg(envOfEncrypted(m)), true
	case *messages.Unencrypted:
		return fmt.Sprintf("unenc mid=%d body=%s", uint64(m.MsgID), showBytes(m.Msg)), true
	}
	return "err:unknown-type", true
}

func c03Session(key []byte, steps []string) string {
	var sts []c03Step
	for _, t := range steps {
		st := c03ParseStep(t)
		if !st.good {
			return "bad-op"
		}
		sts = append(sts, st)
	}
	next := make(chan [][]byte)
	done := make(chan struct{})
	go func() {
		defer close(done)
		conn, err := envListener.Accept()
		if err != nil {
			for range next {
			}
			return
		}
		ann := make([]byte, 4)
		_, _ = io.ReadFull(conn, ann)
		if tc, ok := conn.(*net.TCPConn); ok {
			_ = tc.SetNoDelay(true)
		}
		for pieces := range next {
			pause := 400 * time.Microsecond
			if len(pieces) > 24 {
				pause = 120 * time.Microsecond
			}
			for i, p := range pieces {
				if i > 0 {
					time.Sleep(pause)
				}
				_, _ = conn.Write(p)
			}
		}
		_ = conn.Close()
	}()
	ctx, cancel := context.WithCancel(context.Background())
	defer cancel()
	t, err := transport.NewTransport(envInformator{key: key}, transport.TCPConnConfig{
		Ctx: ctx, Host: envListener.Addr().String(), Timeout: 10 * time.Second,
	}, mode.Intermediate)
	if err != nil {
		close(next)
		<-done
		return "dial-error:" + err.Error()
	}
	defer func() { close(next); t.Close(); <-done }()
	var outs []string
	alive := true
	for _, st := range sts {
		if !alive {
			outs = append(outs, "err:transport(dead)")
			continue
		}
		pkt := c03StepPacket(key, st)
		frame := make([]byte, 4, 4+len(pkt))
		binary.LittleEndian.PutUint32(frame, uint32(len(pkt)))
		next <- c03Pieces(append(frame, pkt...), st)
		var res string
		func() {
			defer func() {
				if r := recover(); r != nil {
					res, alive = "panic:"+panicSite(), false
				}
			}()
			msg, err := t.ReadMsg()
			res, alive = c03Routed(msg, err)
		}()
		outs = append(outs, res)
	}
	return strings.Join(outs, " ; ")
}

// c03Par: `workers` clients of one process, each with its own auth key, salt, session and message
// stream, working at the same time for `rounds` messages each: three of four messages are sealed by the
// real Encrypted.Serialize and opened by the specification's server (direction 0), the fourth is sealed by
// that server (direction 8) and opened by the real DeserializeEncrypted. The line is the same for every
// schedule when each call does what the property says ("par ok …"); otherwise it names the first packet
// that did not come out as it went in.
func c03Par(workers, rounds int, seed uint64, maxLen int) string {
	if workers < 1 || rounds < 1 || maxLen < 0 {
		return "bad-op"
	}
	var mu sync.Mutex
	first := ""
	fail := func(w, i int, dir string, n int, why string) {
		mu.Lock()
		if first == "" {
			first = fmt.Sprintf("par bad: client %d of %d, message %d (%s, body %d bytes): %s", w, workers, i, dir, n, why)
		}
		mu.Unlock()
	}
	failed := func() bool { mu.Lock(); defer mu.Unlock(); return first != "" }
	start := make(chan struct{})
	var wg sync.WaitGroup
	for w := 0; w < workers; w++ {
		wg.Add(1)
		go func(w int) {
			defer wg.Done()
			i, n, dir := 0, 0, "seal"
			defer func() {
				if r := recover(); r != nil {
					fail(w, i, dir, n, fmt.Sprintf("panic:%s (%v)", panicSite(), r))
				}
			}()
			r := NewRand(seed ^ uint64(w+1)*0x9E3779B97F4A7C15)
			key := envLCG(256, r.U64())
			salt, sid := r.U64(), r.U64()
			<-start
			for i = 0; i < rounds && !failed(); i++ {
				n = r.Intn(257)
				if r.Intn(2) == 0 {
					n = r.Intn(maxLen + 1)
				}
				body := envLCG(n, r.U64())
				sent := append([]byte{}, body...)
				want := envMsg{Salt: salt, Sid: sid, Mid: c03U64(&G{R: r}), Seq: uint32(c03Seq(&G{R: r})), Body: sent}
				if i%4 == 3 {
					dir = "server to client"
					want.Mid = want.Mid&^3 | uint64(r.Pick(1, 3))
					pkt := envSeal(8, key, want, r.Bytes((16-(32+n)%16)%16))
					e, err := messages.DeserializeEncrypted(append([]byte{}, pkt...), key)
					if err != nil {
						fail(w, i, dir, n, "the packet of a conformant server is refused: "+envOpenErr(err))
						return
					}
					if got := envOfEncrypted(e); envShowMsg(got) != envShowMsg(want) || !bytes.Equal(got.Body, sent) {
						fail(w, i, dir, n, "opened to "+envShowMsg(got)+", the server sealed "+envShowMsg(want))
						return
					}
					continue
				}
				dir = "client to server"
				ack := r.Bool()
				if r.Intn(4) == 0 {
					// a send of this client refused for want of a usable key (damaged session file, no key yet) right
					// before the good one, while the other clients work: what it leaves behind must not reach anybody
					bad := [][]byte{nil, {}, key[:100], key[:127]}[r.Intn(4)]
					if _, err := (&messages.Encrypted{Msg: envLCG(r.Intn(maxLen%4096+64), r.U64()), MsgID: int64(want.Mid)}).Serialize(
						envInformator{salt: int64(r.U64()), sid: int64(r.U64()), seq: int32(want.Seq), key: bad}, ack); err == nil {
						fail(w, i, dir, n, fmt.Sprintf("sealing under an auth key of %d bytes was not refused", len(bad)))
						return
					}
				}
				pkt, err := (&messages.Encrypted{Msg: body, MsgID: int64(want.Mid)}).Serialize(
					envInformator{salt: int64(salt), sid: int64(sid), seq: int32(want.Seq), key: key}, ack)
				if err != nil {
					fail(w, i, dir, n, "sealing failed: "+err.Error())
					return
				}
				if ack {
					want.Seq |= 1
				}
				got, why := envOpen(0, key, pkt, true)
				if why != "" {
					fail(w, i, dir, n, "a conformant server refuses the packet: "+why)
					return
				}
				if envShowMsg(got) != envShowMsg(want) || !bytes.Equal(got.Body, sent) {
					fail(w, i, dir, n, "a conformant server recovers "+envShowMsg(got)+", sealed was "+envShowMsg(want))
					return
				}
			}
		}(w)
	}
	close(start)
	wg.Wait()
	if first != "" {
		return first
	}
	return fmt.Sprintf("par ok clients=%d messages=%d", workers, workers*rounds)
}

func c03SpecUnenc(mid uint64, body []byte) []byte {
	b := make([]byte, 20, 20+len(body))
	binary.LittleEndian.PutUint64(b[8:], mid)
	binary.LittleEndian.PutUint32(b[16:], uint32(len(body)))
	return append(b, body...)
}

// c03Judge: the property on the real code's result, by the specification's server.
func c03Judge(op []string, out string) string {
	last := func() []byte {
		if c03LastOp == strings.Join(op, " ") {
			return c03LastBytes
		}
		return nil
	}
	switch op[0] {
	case "c03.seal":
		key := envTok(op[1])
		if len(key) != 256 {
			return "" // the property speaks about 256-byte auth keys
		}
		if !strings.HasPrefix(out, "keyid=") {
			return "sealing did not produce a packet: " + clip(out)
		}
		pkt := last()
		if pkt == nil {
			var err error
			if pkt, err = c03Seal(op); err != nil {
				return "sealing failed: " + err.Error()
			}
		}
		body := envTok(op[7])
		want := c03OpMsg(op)
		if op[6] == "1" {
			want.Seq |= 1
		}
		// layout: key id, msg_key, ciphertext of (inner header, body, < 16 padding bytes)
		if len(pkt) < 24 || (len(pkt)-24)%16 != 0 {
			return fmt.Sprintf("packet of %d bytes is not key id + msg_key + whole blocks", len(pkt))
		}
		if padding := len(pkt) - 24 - 32 - len(body); padding < 0 || padding >= 16 {
			return fmt.Sprintf("ciphertext carries %d bytes beyond header and body (want 0..15)", padding)
		}
		got, why := envOpen(0, key, pkt, true)
		if why != "" {
			return "a conformant server refuses the packet: " + why
		}
		if got.Salt != want.Salt || got.Sid != want.Sid || got.Mid != want.Mid || got.Seq != want.Seq || !bytes.Equal(got.Body, body) {
			return fmt.Sprintf("a conformant server recovers salt=%d sid=%d mid=%d seq=%d body=%s, sealed were salt=%d sid=%d mid=%d seq=%d body=%s",
				got.Salt, got.Sid, got.Mid, got.Seq, showBytes(got.Body), want.Salt, want.Sid, want.Mid, want.Seq, showBytes(body))
		}
	case "c03.open":
		key, body, pad := envTok(op[1]), envTok(op[6]), envTok(op[7])
		if strings.Contains(out, " panic:") || strings.HasPrefix(out, "panic:") {
			return "opening a server-sealed packet panics: " + clip(out)
		}
		if len(key) != 256 || len(pad) >= 16 {
			return "" // not a conformant server's packet for a 256-byte key
		}
		want := c03OpMsg(op)
		if want.Mid%4 != 1 && want.Mid%4 != 3 {
			if strings.Contains(out, " ok ") {
				return "a msg_id without server parity was accepted"
			}
			return ""
		}
		want.Body = body
		i := strings.Index(out, " ")
		if i < 0 || out[i+1:] != envShowMsg(want) {
			return "the packet a conformant server sealed is not opened to its content: want " + clip(envShowMsg(want))
		}
		if b := last(); b != nil && !bytes.Equal(b, body) {
			return "body differs from the sealed body"
		}
	case "c03.route":
		key, body, pad := envTok(op[1]), envTok(op[6]), envTok(op[7])
		if strings.Contains(out, "panic:") {
			return "receiving a server-sealed packet panics: " + clip(out)
		}
		if strings.HasPrefix(out, "dial-error") || strings.HasPrefix(out, "err:transport") {
			return "loopback transport failed: " + clip(out)
		}
		if len(key) != 256 || len(pad) >= 16 {
			return ""
		}
		want := c03OpMsg(op)
		if want.Mid%4 != 1 && want.Mid%4 != 3 {
			if strings.HasPrefix(out, "enc ") || strings.HasPrefix(out, "unenc ") {
				return "a msg_id without server parity was accepted by ReadMsg"
			}
			return ""
		}
		want.Body = body
		if out != "enc "+envShowMsg(want) {
			return "the packet a conformant server sealed does not come out of transport.ReadMsg with its content: want enc " + clip(envShowMsg(want))
		}
	case "c03.uroute":
		mid, body := envU64(op[1]), envTok(op[2])
		if strings.Contains(out, "panic:") {
			return "receiving an unencrypted server message panics: " + clip(out)
		}
		if strings.HasPrefix(out, "dial-error") || strings.HasPrefix(out, "err:transport") {
			return "loopback transport failed: " + clip(out)
		}
		if mid%4 != 1 && mid%4 != 3 {
			if strings.HasPrefix(out, "enc ") || strings.HasPrefix(out, "unenc ") {
				return "an unencrypted msg_id without server parity was accepted by ReadMsg"
			}
			return ""
		}
		if exp := fmt.Sprintf("unenc mid=%d body=%s", mid, showBytes(body)); out != exp {
			return "the unencrypted message of a conformant server does not come out of transport.ReadMsg: want " + exp
		}
	case "c03.session":
		if strings.Contains(out, "panic:") {
			return "receiving a sequence of server packets on one transport panics: " + clip(out)
		}
		if strings.HasPrefix(out, "dial-error") {
			return "loopback transport failed: " + clip(out)
		}
		if len(envTok(op[1])) != 256 {
			return ""
		}
		outs := strings.Split(out, " ; ")
		if len(outs) != len(op)-2 {
			return fmt.Sprintf("%d results for %d packets: %s", len(outs), len(op)-2, clip(out))
		}
		for i, t := range op[2:] {
			st := c03ParseStep(t)
			if st.code {
				// not a packet: the frame of a transport error code. It must come out as that code (else the
				// sequence is not the one meant) and, above all, must not matter to the packets after it
				if want := fmt.Sprintf("code:%d", st.cval); outs[i] != want {
					return fmt.Sprintf("frame %d of %d read by ONE transport (%s): a 4-byte frame carrying the transport error code %d came out of transport.ReadMsg as %s",
						i+1, len(outs), c03History(op[2:], i), st.cval, clip(outs[i]))
				}
				continue
			}
			if st.raw {
				// bytes of the generator's choice: judged when they happen to be a conformant server's packet
				m, no := envOpen(8, envTok(op[1]), st.data, true)
				if no != "" {
					continue // what the client answers to a packet that is not the server's is C04's subject
				}
				st.enc, st.m = true, m
			}
			conformant := st.m.Mid%4 == 1 || st.m.Mid%4 == 3
			if st.enc && len(st.pad) >= 16 {
				continue
			}
			if !conformant {
				if strings.HasPrefix(outs[i], "enc ") || strings.HasPrefix(outs[i], "unenc ") {
					return fmt.Sprintf("packet %d of %d on one transport: a msg_id without server parity was accepted by ReadMsg", i+1, len(outs))
				}
				continue
			}
			want := "enc " + envShowMsg(st.m)
			if !st.enc {
				want = fmt.Sprintf("unenc mid=%d body=%s", st.m.Mid, showBytes(st.m.Body))
			}
			if outs[i] != want {
				return fmt.Sprintf("packet %d of %d read by ONE transport (%s): the packet a conformant server sealed does not come out of transport.ReadMsg with its content: got %s want %s",
					i+1, len(outs), c03History(op[2:], i), clip(outs[i]), clip(want))
			}
		}
	case "c03.mix":
		return c03MixJudge(op, out)
	case "c03.par":
		if !strings.HasPrefix(out, "par ok ") {
			return "clients of one process working at the same time disturb one another: " + clip(out)
		}
	case "c03.kdf":
		x := 0
		if op[1] == "8" {
			x = 8
		}
		mk, ak := envTok(op[2]), envTok(op[3])
		if len(ak) < 128+x {
			return "" // shorter than the schedule reads: not an auth key
		}
		k, iv := envKeyIv(x, ak, mk)
		if exp := fmt.Sprintf("key=%s iv=%s", hexD(k), hexD(iv)); out != exp {
			return "AES key / IV differ from the MTProto 1.0 schedule: want " + exp
		}
	case "c03.msgkey":
		if exp := "msgkey=" + hexD(envSha1(envTok(op[1]))[4:20]); out != exp {
			return "msg_key is not SHA1(data)[4:20]: want " + exp
		}
	case "c03.keyid":
		if exp := "keyid=" + hexD(envSha1(envTok(op[1]))[12:20]); out != exp {
			return "auth_key_id is not SHA1(key)[12:20]: want " + exp
		}
	case "c03.userial":
		if exp := "bytes=" + showBytes(c03SpecUnenc(envU64(op[1]), envTok(op[2]))); out != exp {
			return "unencrypted message is not 0(8) msg_id(8) length(4) body: want " + exp
		}
		if b := last(); b != nil && !bytes.Equal(b, c03SpecUnenc(envU64(op[1]), envTok(op[2]))) {
			return "unencrypted message bytes differ from 0(8) msg_id(8) length(4) body"
		}
	case "c03.urt":
		mid := envU64(op[1])
		if strings.HasPrefix(out, "panic:") {
			return "unencrypted round trip panics"
		}
		if mid%4 != 1 && mid%4 != 3 {
			if strings.HasPrefix(out, "ok") {
				return "a msg_id without server parity was accepted"
			}
			return ""
		}
		if exp := fmt.Sprintf("ok mid=%d body=%s", mid, showBytes(envTok(op[2]))); out != exp {
			return "unencrypted message does not read back: want " + exp
		}
	case "c03.udeser":
		if strings.HasPrefix(out, "panic:") {
			return "DeserializeUnencrypted panics"
		}
	}
	return ""
}

// c03History says how step i relates to what the transport read before it, and how the peer wrote it.
func c03History(steps []string, i int) string {
	cur := c03ParseStep(steps[i])
	how := "written by the peer in one piece"
	if cur.each {
		how = "written by the peer one byte at a time"
	} else if len(cur.cuts) > 0 {
		n := 4 + len(c03StepPacket(make([]byte, 256), cur))
		how = fmt.Sprintf("its %d-byte frame written by the peer in %d pieces, cut at %v, a short pause between them", n, len(c03Pieces(make([]byte, n), cur)), cur.cuts)
	}
	codes, broken, refusedRaw := 0, 0, 0
	for j := 0; j < i; j++ {
		p := c03ParseStep(steps[j])
		if p.code {
			codes++
		}
		if p.raw {
			refusedRaw++
		}
		if p.each || len(p.cuts) > 0 {
			broken++
		}
	}
	if codes > 0 {
		how += fmt.Sprintf("; %d transport error-code frame(s) among the %d frames before it", codes, i)
	}
	if broken > 0 {
		how += fmt.Sprintf("; %d of the frames before it written in pieces", broken)
	}
	if refusedRaw > 0 {
		how += fmt.Sprintf("; %d of the frames before it packets the client had to refuse", refusedRaw)
	}
	if cur.code {
		return how
	}
	for j := i - 1; j >= 0; j-- {
		p := c03ParseStep(steps[j])
		if p.code || p.raw || p.m.Mid != cur.m.Mid {
			continue
		}
		what := "the same msg_id, sealed anew,"
		if c03Bare(steps[j]) == c03Bare(steps[i]) {
			what = "the same packet"
		}
		if j == i-1 {
			return what + " as the packet read just before; " + how
		}
		return fmt.Sprintf("%s as packet %d, %d other packets in between; %s", what, j+1, i-1-j, how)
	}
	return "a msg_id not seen before on this transport; " + how
}

// c03Bare: the step without its segmentation.
func c03Bare(t string) string {
	if i := strings.Index(t, "/"); i >= 0 {
		return t[i+1:]
	}
	return t
}

// ---- generation -----------------------------------------------------------------------------------

func c03BodyTok(g *G, n int) string {
	switch {
	case n == 0:
		return "-"
	case n <= 40:
		return hexD(g.R.Bytes(n))
	}
	return fmt.Sprintf("x%d:%d", n, g.R.U64()>>1)
}

func c03KeyTok(g *G) string { return fmt.Sprintf("x256:%d", g.R.U64()>>1) }

var c03U64Edge = []uint64{0, 1, 2, 3, 4, 5, 7, 255, 256, 1<<31 - 1, 1 << 31, 1<<32 - 1, 1 << 32, 1<<63 - 1, 1 << 63, 1<<63 + 1, 1<<64 - 4, 1<<64 - 3, 1<<64 - 2, 1<<64 - 1}
var c03U32Edge = []uint64{0, 1, 2, 3, 4, 5, 254, 255, 256, 65535, 65536, 1<<31 - 2, 1<<31 - 1, 1 << 31, 1<<31 + 1, 1<<32 - 2, 1<<32 - 1}

func c03U64(g *G) uint64 {
	if g.R.Intn(3) == 0 {
		return c03U64Edge[g.R.Intn(len(c03U64Edge))]
	}
	return g.R.U64()
}

func c03Seq(g *G) uint64 {
	if g.R.Intn(3) == 0 {
		return c03U32Edge[g.R.Intn(len(c03U32Edge))]
	}
	return g.R.U64() & 0xffffffff
}

func c03ServerMid(g *G) uint64 { return c03U64(g)&^3 | uint64(g.R.Pick(1, 3)) }

func c03PadFor(g *G, bodyLen int) string {
	n := (16 - (32+bodyLen)%16) % 16
	if n == 0 {
		return "-"
	}
	return hexD(g.R.Bytes(n))
}

func c03EmitLen(g *G, l int, tag string) {
	r := g.R
	for _, ack := range []string{"0", "1"} {
		g.Emit(fmt.Sprintf("c03.seal %s %d %d %d %d %s %s", c03KeyTok(g), c03U64(g), c03U64(g), c03U64(g), c03Seq(g), ack, c03BodyTok(g, l)),
			"seal", tag, fmt.Sprintf("seal-residue=%d", l%16))
	}
	// the same with the AuthKeyHash field filled in: correct, stale (another key's), of a wrong length
	akh := []string{"own", hexD(r.Bytes(8)), hexD(r.Bytes(r.Pick(0, 4, 20)))}[r.Intn(3)]
	g.Emit(fmt.Sprintf("c03.seal %s %d %d %d %d %d %s %s", c03KeyTok(g), c03U64(g), c03U64(g), c03U64(g), c03Seq(g), r.Intn(2), c03BodyTok(g, l), akh),
		"seal", "seal-with-keyhash-field", tag)
	g.Emit(fmt.Sprintf("c03.open %s %d %d %d %d %s %s", c03KeyTok(g), c03U64(g), c03U64(g), c03ServerMid(g), c03Seq(g), c03BodyTok(g, l), c03PadFor(g, l)),
		"open", tag, fmt.Sprintf("open-residue=%d", l%16))
	_ = r
}

func c03Gen(g *G) {
	r := g.R
	// (0) what a REFUSED operation leaves behind for the next accepted one: sequences of one process mixing refused
	// and accepted operations of several clients, both sides of the envelope (c03mix.go). They run first: each line
	// is a history of its own, so a failing line replays on its own — single operations that fail only because of
	// what an earlier line left behind come after them
	c03GenMix(g)
	// (a) every residue of the body length mod 16 (= every padding amount) at several magnitudes,
	// both directions, acknowledged and not
	if g.Thorough() {
		for l := 0; l <= 4096; l++ {
			c03EmitLen(g, l, "len<=4096")
		}
		for i := 0; i < 1200; i++ {
			c03EmitLen(g, 4097+r.Intn(65536-4097+1), "len<=65536")
		}
		for l := 65536 - 40; l <= 65536; l++ {
			c03EmitLen(g, l, "len~65536")
		}
		for _, l := range []int{1 << 17, 1<<18 + 5, 1 << 20} {
			c03EmitLen(g, l, "len>65536")
		}
	} else {
		for _, base := range []int{0, 16, 32, 240, 1008, 4080, 16368} {
			for d := 0; d < 16; d++ {
				c03EmitLen(g, base+d, fmt.Sprintf("len~%d", base))
			}
		}
		for l := 65536 - 20; l <= 65536; l++ {
			c03EmitLen(g, l, "len~65536")
		}
	}
	// (b) every field at its extremes (one varied at a time, then all together), short bodies
	for _, ack := range []string{"0", "1"} {
		for _, v := range c03U64Edge {
			g.Emit(fmt.Sprintf("c03.seal %s %d 1 4 0 %s %s", c03KeyTok(g), v, ack, c03BodyTok(g, r.Intn(40))), "seal-edge", "edge=salt")
			g.Emit(fmt.Sprintf("c03.seal %s 1 %d 4 0 %s %s", c03KeyTok(g), v, ack, c03BodyTok(g, r.Intn(40))), "seal-edge", "edge=sid")
			g.Emit(fmt.Sprintf("c03.seal %s 1 1 %d 0 %s %s", c03KeyTok(g), v, ack, c03BodyTok(g, r.Intn(40))), "seal-edge", "edge=mid")
		}
		for _, v := range c03U32Edge {
			g.Emit(fmt.Sprintf("c03.seal %s 1 1 4 %d %s %s", c03KeyTok(g), v, ack, c03BodyTok(g, r.Intn(40))), "seal-edge", "edge=seq")
		}
	}
	for _, v := range c03U64Edge {
		mid := v&^3 | 1
		g.Emit(fmt.Sprintf("c03.open %s %d 1 5 0 %s %s", c03KeyTok(g), v, "01020304", c03PadFor(g, 4)), "open-edge", "edge=salt")
		g.Emit(fmt.Sprintf("c03.open %s 1 %d 5 0 %s %s", c03KeyTok(g), v, "01020304", c03PadFor(g, 4)), "open-edge", "edge=sid")
		g.Emit(fmt.Sprintf("c03.open %s 1 1 %d 0 %s %s", c03KeyTok(g), mid, "01020304", c03PadFor(g, 4)), "open-edge", "edge=mid")
		g.Emit(fmt.Sprintf("c03.open %s 1 1 %d 0 %s %s", c03KeyTok(g), mid|3, "01020304", c03PadFor(g, 4)), "open-edge", "edge=mid")
		// a msg_id without server parity must not be opened
		g.Emit(fmt.Sprintf("c03.open %s 1 1 %d 0 %s %s", c03KeyTok(g), v&^3|uint64(r.Pick(0, 2)), "01020304", c03PadFor(g, 4)), "open-parity")
	}
	for _, v := range c03U32Edge {
		g.Emit(fmt.Sprintf("c03.open %s 1 1 5 %d %s %s", c03KeyTok(g), v, "01020304", c03PadFor(g, 4)), "open-edge", "edge=seq")
	}
	// (b2) the server's packets as the client receives them (transport.ReadMsg over a loopback connection):
	// msg_ids over the whole 64-bit range — every boundary value with both server parities, and without —
	// and random ones; encrypted and unencrypted
	for _, v := range c03U64Edge {
		for _, par := range []uint64{1, 3, uint64(r.Pick(0, 2))} {
			mid := v&^3 | par
			l := r.Intn(40)
			g.Emit(fmt.Sprintf("c03.route %s %d %d %d %d %s %s", c03KeyTok(g), c03U64(g), c03U64(g), mid, c03Seq(g), c03BodyTok(g, l), c03PadFor(g, l)),
				"route", "edge=mid", fmt.Sprintf("route-mid-top-bit=%d", mid>>63), fmt.Sprintf("route-parity=%d", par))
			g.Emit(fmt.Sprintf("c03.uroute %d %s", mid, c03BodyTok(g, 1+r.Intn(40))),
				"uroute", "edge=mid", fmt.Sprintf("uroute-mid-top-bit=%d", mid>>63))
		}
	}
	for i := 0; i < g.N(60, 600); i++ {
		l := r.Intn(600)
		mid := c03ServerMid(g)
		g.Emit(fmt.Sprintf("c03.route %s %d %d %d %d %s %s", c03KeyTok(g), c03U64(g), c03U64(g), mid, c03Seq(g), c03BodyTok(g, l), c03PadFor(g, l)),
			"route", "random", fmt.Sprintf("route-mid-top-bit=%d", mid>>63))
		mid = c03ServerMid(g)
		g.Emit(fmt.Sprintf("c03.uroute %d %s", mid, c03BodyTok(g, 1+r.Intn(300))), "uroute", "random", fmt.Sprintf("uroute-mid-top-bit=%d", mid>>63))
	}
	// (b2') one transport reading a sequence of server packets: messages sent again (at once, later, several
	// times), the same msg_id sealed anew (other padding / body / seq_no / salt), new messages in between,
	// encrypted and unencrypted mixed; short fixed shapes first, then random walks
	c03GenSessions(g)
	// (b2'') the same transport object, the stream as a network delivers it and as a server fills it: every
	// frame written by the peer in 1..k pieces (cuts inside the length prefix, between prefix and packet, inside
	// key id / msg_key / ciphertext, before the last byte; one byte at a time; bodies of 4 KB and 64 KB), a short
	// pause after each piece, several packets per connection; 4-byte transport error-code frames (-404, -429,
	// other values) before, between and after the packets, in every order
	c03GenStreams(g)
	// (b2-r) refused packets of every refusal class on ONE transport, conformant packets after each of them (c03mix.go)
	c03GenRefusedOnTransport(g)
	// special keys; padding of 16 and more bytes (not conformant; model and code must still agree)
	for _, k := range []string{"z256", "p256"} {
		g.Emit(fmt.Sprintf("c03.seal %s 0 0 0 0 0 -", k), "seal-edge", "edge=key")
		g.Emit(fmt.Sprintf("c03.seal %s 7 8 12 2 1 p100", k), "seal-edge", "edge=key")
		g.Emit(fmt.Sprintf("c03.open %s 0 0 1 0 - -", k), "open-edge", "edge=key")
		g.Emit(fmt.Sprintf("c03.open %s 7 8 13 3 p100 %s", k, c03PadFor(g, 100)), "open-edge", "edge=key")
	}
	for _, extra := range []int{16, 32, 48} {
		g.Emit(fmt.Sprintf("c03.open %s 1 2 7 1 01020304 %s", c03KeyTok(g), hexD(r.Bytes(12+extra))), "open-longpad")
	}
	// the fixture of the repository's own test: 23-byte body
	nR := g.N(500, 8000)
	for i := 0; i < nR; i++ {
		l := r.Intn(600)
		if r.Intn(8) == 0 {
			l = r.Intn(20000)
		}
		c03EmitLen(g, l, "random")
	}
	// (b3) several clients in one process at the same time: 2, a handful, many
	for _, wr := range [][2]int{{2, g.N(240, 2000)}, {8, g.N(80, 600)}, {32, g.N(24, 200)}} {
		g.Emit(fmt.Sprintf("c03.par %d %d %d 65536", wr[0], wr[1], r.U64()>>1), "concurrent", fmt.Sprintf("concurrent-clients=%d", wr[0]))
	}
	// (c) the key schedule on its own, both directions; keys around the lengths the schedule reads
	for i := 0; i < g.N(40, 600); i++ {
		g.Emit(fmt.Sprintf("c03.kdf %d %s %s", r.Pick(0, 8), hexD(r.Bytes(16)), c03KeyTok(g)), "kdf")
	}
	for _, x := range []int{0, 8} {
		for _, kl := range []int{0, 1, 127, 128, 129, 135, 136, 137, 255, 257, 512} {
			g.Emit(fmt.Sprintf("c03.kdf %d %s x%d:%d", x, hexD(r.Bytes(16)), kl, r.U64()>>1), "kdf-keylen")
		}
		g.Emit(fmt.Sprintf("c03.kdf %d - %s", x, c03KeyTok(g)), "kdf-msgkeylen")
		g.Emit(fmt.Sprintf("c03.kdf %d %s %s", x, hexD(r.Bytes(20)), c03KeyTok(g)), "kdf-msgkeylen")
	}
	for i := 0; i < g.N(30, 300); i++ {
		g.Emit("c03.msgkey "+c03BodyTok(g, r.Intn(200)), "msgkey")
		g.Emit("c03.keyid "+c03KeyTok(g), "keyid")
	}
	// (d) unencrypted key-exchange messages
	lens := []int{}
	for l := 0; l <= 40; l++ {
		lens = append(lens, l)
	}
	lens = append(lens, 255, 256, 1024, 65535, 65536)
	if g.Thorough() {
		for l := 41; l <= 1100; l++ {
			lens = append(lens, l)
		}
		lens = append(lens, 1<<20)
	}
	for _, l := range lens {
		mid := c03ServerMid(g)
		g.Emit(fmt.Sprintf("c03.userial %d %s", c03U64(g), c03BodyTok(g, l)), "unenc-serialize")
		g.Emit(fmt.Sprintf("c03.urt %d %s", mid, c03BodyTok(g, l)), "unenc-roundtrip")
	}
	for _, v := range c03U64Edge {
		g.Emit(fmt.Sprintf("c03.userial %d 01020304", v), "unenc-serialize", "edge=mid")
		g.Emit(fmt.Sprintf("c03.urt %d 01020304", v), "unenc-roundtrip", "edge=mid")
	}
	for i := 0; i < g.N(40, 400); i++ {
		b := c03SpecUnenc(c03ServerMid(g), r.Bytes(r.Intn(64)))
		g.Emit("c03.udeser "+hexD(b), "unenc-deserialize")
	}
}

func c03EncStep(g *G, mid uint64) string {
	l := g.R.Intn(40)
	if g.R.Intn(6) == 0 {
		l = g.R.Intn(600)
	}
	return fmt.Sprintf("e:%d:%d:%d:%d:%s:%s", c03U64(g), c03U64(g), mid, c03Seq(g), c03PadFor(g, l), c03BodyTok(g, l))
}

func c03GenSessions(g *G) {
	r := g.R
	emit := func(steps []string, tags ...string) {
		g.Emit("c03.session "+c03KeyTok(g)+" "+strings.Join(steps, " "), append(tags, "session")...)
	}
	for rep := 0; rep < g.N(3, 20); rep++ {
		a, b, c := c03EncStep(g, c03ServerMid(g)), c03EncStep(g, c03ServerMid(g)), c03EncStep(g, c03ServerMid(g))
		am := c03ParseStep(a).m.Mid
		a2 := c03EncStep(g, am) // the same msg_id sealed anew: other salt/session/seq_no/body/padding
		emit([]string{a, b, c}, "session-distinct")
		emit([]string{a, a}, "session-resent-at-once")
		emit([]string{a, a, a, b}, "session-resent-at-once")
		emit([]string{a, a2}, "session-same-id-other-content")
		emit([]string{a, b, a}, "session-resent-later")
		emit([]string{a, b, c, a, b, b, a2, c}, "session-resent-later", "session-resent-at-once")
		u := fmt.Sprintf("u:%d:%s", c03ServerMid(g), c03BodyTok(g, 1+r.Intn(40)))
		ua := fmt.Sprintf("u:%d:%s", am, c03BodyTok(g, 1+r.Intn(40)))
		emit([]string{u, u, a, ua, a, u}, "session-unencrypted-mixed")
	}
	for i := 0; i < g.N(60, 800); i++ {
		n := 2 + r.Intn(10)
		var steps []string
		for k := 0; k < n; k++ {
			switch c := r.Intn(10); {
			case k > 0 && c < 2: // the packet read just before, again
				steps = append(steps, steps[k-1])
			case k > 0 && c < 4: // an earlier packet again
				steps = append(steps, steps[r.Intn(k)])
			case k > 0 && c < 6: // the msg_id of an earlier packet, sealed anew
				steps = append(steps, c03EncStep(g, c03ParseStep(steps[r.Intn(k)]).m.Mid))
			case c == 6:
				steps = append(steps, fmt.Sprintf("u:%d:%s", c03ServerMid(g), c03BodyTok(g, 1+r.Intn(40))))
			case c == 7 && r.Intn(3) == 0: // not a server's msg_id: refused, and the transport goes on
				steps = append(steps, c03EncStep(g, c03U64(g)&^3|uint64(r.Pick(0, 2))))
			default:
				steps = append(steps, c03EncStep(g, c03ServerMid(g)))
			}
		}
		emit(steps, "session-random")
	}
}

func c03CutsStr(c []int) string {
	s := make([]string, len(c))
	for i, v := range c {
		s[i] = strconv.Itoa(v)
	}
	return strings.Join(s, ",")
}

// c03FrameLen: length of the frame (4-byte length prefix + packet) of a step.
func c03FrameLen(step string) int {
	st := c03ParseStep(step)
	switch {
	case st.code:
		return 8
	case st.raw:
		return 4 + len(st.data)
	case st.enc:
		return 4 + 24 + 32 + len(st.m.Body) + len(st.pad)
	}
	return 4 + 20 + len(st.m.Body)
}

// c03RandCuts: 1..4 cut points of an n-byte frame, clustered where the receiver's reads begin and end.
func c03RandCuts(g *G, n int) string {
	r := g.R
	seen := map[int]bool{}
	var cuts []int
	for k := 1 + r.Intn(4); k > 0; k-- {
		var c int
		switch r.Intn(6) {
		case 0, 1:
			c = 1 + r.Intn(3) // inside the length prefix
		case 2:
			c = 4 // between the prefix and the packet
		case 3:
			c = 5 + r.Intn(24) // inside key id / msg_key
		case 4:
			c = n - 1 - r.Intn(3)
		default:
			c = 1 + r.Intn(n-1)
		}
		if c >= 1 && c < n && !seen[c] {
			seen[c] = true
			cuts = append(cuts, c)
		}
	}
	if len(cuts) == 0 {
		cuts = []int{1 + r.Intn(n-1)}
	}
	sort.Ints(cuts)
	return c03CutsStr(cuts)
}

func c03CodeStep(g *G) string {
	r := g.R
	switch r.Intn(8) {
	case 0:
		return fmt.Sprintf("c:%d", int32(uint32(r.U64())))
	case 1:
		return fmt.Sprintf("c:%d", r.Pick(0, 1, -1, 404, 429, 2147483647, -2147483648))
	}
	return fmt.Sprintf("c:%d", r.Pick(-404, -429, -429, -444, -403))
}

func c03GenStreams(g *G) {
	r := g.R
	emit := func(steps []string, tags ...string) {
		g.Emit("c03.session "+c03KeyTok(g)+" "+strings.Join(steps, " "), append(tags, "session")...)
	}
	cut := func(cuts, step string) string { return cuts + "/" + step }
	encOf := func(l int) string {
		return fmt.Sprintf("e:%d:%d:%d:%d:%s:%s", c03U64(g), c03U64(g), c03ServerMid(g), c03Seq(g), c03PadFor(g, l), c03BodyTok(g, l))
	}
	unenc := func() string { return fmt.Sprintf("u:%d:%s", c03ServerMid(g), c03BodyTok(g, 1+r.Intn(40))) }
	// -- transport error codes and packets on one transport, fixed orders
	for _, code := range []int{-404, -429, -444, -403, 404, 0, -1, 2147483647, -2147483648} {
		c := fmt.Sprintf("c:%d", code)
		a, b := c03EncStep(g, c03ServerMid(g)), c03EncStep(g, c03ServerMid(g))
		emit([]string{c, a}, "session-after-error-code")
		emit([]string{a, c, b}, "session-after-error-code")
		emit([]string{a, c, a, c03CodeStep(g), c03CodeStep(g), b, unenc(), c}, "session-after-error-code", "session-resent-later")
		emit([]string{c, unenc(), a}, "session-after-error-code", "session-unencrypted-mixed")
		if g.Thorough() {
			emit([]string{c, c, a, b}, "session-after-error-code")
		}
	}
	// -- one packet per connection, then several, every frame cut at one fixed kind of place
	for rep := 0; rep < g.N(2, 12); rep++ {
		l := r.Intn(40)
		a := encOf(l)
		n := c03FrameLen(a)
		for _, cs := range [][]int{{1}, {2}, {3}, {4}, {1, 2, 3}, {1, 2, 3, 4}, {5}, {12}, {28}, {29}, {n / 2}, {n - 16}, {n - 1}, {2, n / 2, n - 1}, {4, 12, 28, 44}} {
			emit([]string{cut(c03CutsStr(cs), a)}, "session-segmented", "segmented-single")
		}
		emit([]string{cut("each", a)}, "session-segmented", "segmented-bytewise")
		b, u := encOf(r.Intn(300)), unenc()
		emit([]string{cut(c03RandCuts(g, n), a), cut(c03RandCuts(g, c03FrameLen(b)), b), cut(c03RandCuts(g, c03FrameLen(u)), u), cut(c03RandCuts(g, n), a)},
			"session-segmented", "segmented-several")
		emit([]string{a, cut(c03RandCuts(g, c03FrameLen(b)), b), a, cut("each", u), b}, "session-segmented", "segmented-several", "segmented-bytewise")
	}
	// -- packets longer than one segment: 4 KB in three pieces, around 64 KB in two (and in one: the
	// network cuts it by itself)
	for _, l := range []int{4096, 4080 + r.Intn(16), 65536, 65536 - 1 - r.Intn(20)} {
		a := encOf(l)
		n := c03FrameLen(a)
		emit([]string{a, c03EncStep(g, c03ServerMid(g))}, "session-long-packet")
		emit([]string{cut(c03CutsStr([]int{n / 3, n - n/4}), a), c03EncStep(g, c03ServerMid(g))}, "session-segmented", "session-long-packet")
		emit([]string{cut(c03CutsStr([]int{n - 1 - r.Intn(16)}), a)}, "session-segmented", "session-long-packet")
		emit([]string{cut(c03CutsStr([]int{1 + r.Intn(3), 1000 + r.Intn(n-2000)}), a), cut("2", c03CodeStep(g)), cut(c03RandCuts(g, n), a)}, "session-segmented", "session-long-packet", "session-after-error-code")
	}
	// -- random walks: new packets, packets sent again, unencrypted messages, error codes; each frame whole or in pieces
	for i := 0; i < g.N(140, 2000); i++ {
		n := 2 + r.Intn(7)
		pCode, pCut := r.Pick(0, 1, 3, 5), r.Pick(0, 2, 5, 8) // out of 10, per walk
		var steps, bare []string
		for k := 0; k < n; k++ {
			var st string
			var pk []string // the packets so far
			for _, b := range bare {
				if !strings.HasPrefix(b, "c:") {
					pk = append(pk, b)
				}
			}
			switch c := r.Intn(10); {
			case r.Intn(10) < pCode:
				st = c03CodeStep(g)
			case len(pk) > 0 && c < 2:
				st = pk[len(pk)-1]
			case len(pk) > 0 && c < 3:
				st = pk[r.Intn(len(pk))]
			case len(pk) > 0 && c < 4:
				st = c03EncStep(g, c03ParseStep(pk[r.Intn(len(pk))]).m.Mid)
			case c < 5:
				st = unenc()
			case c == 5 && r.Intn(4) == 0:
				st = encOf(600 + r.Intn(3000))
			default:
				st = c03EncStep(g, c03ServerMid(g))
			}
			bare = append(bare, st)
			if r.Intn(10) < pCut {
				if c03FrameLen(st) <= 120 && r.Intn(12) == 0 {
					st = cut("each", st)
				} else {
					st = cut(c03RandCuts(g, c03FrameLen(st)), st)
				}
			}
			steps = append(steps, st)
		}
		tags := []string{"session-stream-random"}
		if pCode > 0 {
			tags = append(tags, "session-after-error-code")
		}
		if pCut > 0 {
			tags = append(tags, "session-segmented")
		}
		emit(steps, tags...)
	}
}

func init() {
	register(&Prop{Name: "c03", Stateless: true, Gen: c03Gen, Exec: c03Exec, Judge: c03Judge,
		Setup: func(g *G) { c03G = g; envListen() },
		Teardown: func() {
			envUnlisten()
			kinds := map[string]interface{}{}
			for k, v := range c03Kinds {
				kinds[k] = v
			}
			c03G.Extra["result_kinds"] = kinds
		}})
}
