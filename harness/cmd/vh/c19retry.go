package main

// C19 — every g_b the client sends comes from a fresh draw, whatever the server answers set_client_DH_params with.
//
//	c19.retry <script> <k>     script = ok | retry | fail, comma-separated: the server's answers to the successive
//	                           set_client_DH_params it receives
//
// A scripted key-exchange server of the harness (own RSA key, Telegram's 2048-bit prime, g = 3; the plain handshake
// objects are written and read with the hs* helpers of x_hsserver.go: TL by hand, IGE, SHA1) runs a complete exchange
// with the REAL client (NewMTProto + CreateConnection): req_pq, req_DH_params, set_client_DH_params. It answers
// set_client_DH_params with a well-formed dh_gen_retry (right nonces, right new_nonce_hash2), dh_gen_fail
// (new_nonce_hash3) or dh_gen_ok as the script says, on as many connections as the client cares to open. What the
// client does next is its business (give the exchange up, repeat the step with retry_id, start over). What is judged:
// every set_client_DH_params that arrives carries a g_b
//
//   - for which at least 256 bytes were read from the OS random source since the server's previous answer on that
//     connection (crypto/rand.Reader is wrapped by a counting reader for the duration of the exchange), and
//   - that is unrelated to every g_b sent before in this operation: g_b != g_b' * g^k mod dh_prime for |k| <= 16
//     (k = 0: the same exponent again).
//
// Result: fresh | short | repeat | related | error:<why the experiment could not be made>. How many
// set_client_DH_params were seen and how the exchange ended go into c19Detail / the run's extra counters, not into the
// line: a client that gives up after dh_gen_retry and one that follows it with a new exponent both print `fresh`.

import (
	"bytes"
	crand "crypto/rand"
	"crypto/rsa"
	"encoding/binary"
	"fmt"
	"io"
	"math/big"
	"net"
	"strconv"
	"strings"
	"sync"
	"sync/atomic"
	"time"

	"github.com/xelaj/mtproto"
)

const (
	c19rP = 1229739323 // pq = 0x17ED48941A08F981, the example of the protocol description
	c19rQ = 1402015859
)

var (
	c19rKey     *rsa.PrivateKey
	c19rKeyOnce sync.Once
)

type c19rSet struct {
	gb        *big.Int
	retryID   uint64
	readSince int64 // bytes read from the OS source since the server's previous answer on this connection
	conn      int
}

// c19rSecret: a key-agreement secret (or, for b, its public image g_b) as it arrived at the server, and how many bytes
// the OS random source had delivered to the process by then (used by c19.fault, c19fault.go)
type c19rSecret struct {
	kind string // nonce | new_nonce | g_b
	val  []byte
	read int64
}

type c19rServer struct {
	ln     net.Listener
	script []string
	a      *big.Int
	sn     []byte
	ctr    *c19CountingReader

	secrets []c19rSecret

	mu     sync.Mutex
	sets   []c19rSet
	notes  []string
	nconn  int
	msgSeq uint64
}

func (s *c19rServer) note(f string, a ...interface{}) {
	s.mu.Lock()
	s.notes = append(s.notes, fmt.Sprintf(f, a...))
	s.mu.Unlock()
}

func (s *c19rServer) sendPlain(c net.Conn, body []byte) {
	s.mu.Lock()
	s.msgSeq++
	mid := uint64(time.Now().Unix())<<32 | (s.msgSeq*4 + 1)
	s.mu.Unlock()
	var w hsW
	w.u64(0)
	w.u64(mid)
	w.u32(uint32(len(body)))
	w.raw(body)
	var f hsW
	f.u32(uint32(len(w.b)))
	f.raw(w.b)
	_, _ = c.Write(f.b)
}

func (s *c19rServer) serve(c net.Conn, connNo int) {
	defer c.Close()
	ann := make([]byte, 4)
	if _, err := io.ReadFull(c, ann); err != nil || !bytes.Equal(ann, []byte{0xee, 0xee, 0xee, 0xee}) {
		return
	}
	prime := hsTelegramPrime()
	var nonce, newNonce []byte
	stage := 0
	var mark int64 // OS bytes read when the server's previous answer went out
	for {
		hdr := make([]byte, 4)
		if _, err := io.ReadFull(c, hdr); err != nil {
			return
		}
		n := binary.LittleEndian.Uint32(hdr)
		if n > 1<<20 {
			return
		}
		pkt := make([]byte, n)
		if _, err := io.ReadFull(c, pkt); err != nil {
			return
		}
		readNow := atomic.LoadInt64(&s.ctr.n)
		if len(pkt) < 20 || binary.LittleEndian.Uint64(pkt) != 0 {
			continue // an encrypted frame (the exchange is over for the client) or rubbish
		}
		body := pkt[20:]
		rd := &hsR{b: body}
		id := rd.u32()
		switch {
		case id == hsIDReqPQ:
			nonce = append([]byte{}, rd.take(16)...)
			if rd.bad {
				s.note("req_pq malformed")
				return
			}
			stage = 1
			s.mu.Lock()
			s.secrets = append(s.secrets, c19rSecret{"nonce", nonce, readNow})
			s.mu.Unlock()
			pq := new(big.Int).Mul(big.NewInt(c19rP), big.NewInt(c19rQ)).Bytes()
			s.sendPlain(c, hsResPQ(nonce, s.sn, pq, []uint64{hsFingerprint(&c19rKey.PublicKey)}))
		case id == hsIDReqDH && stage == 1:
			rd.take(32)
			rd.str()
			rd.str()
			rd.u64()
			enc := rd.str()
			if rd.bad || len(enc) != 256 {
				s.note("req_DH_params malformed")
				return
			}
			m := new(big.Int).Exp(new(big.Int).SetBytes(enc), c19rKey.D, c19rKey.N)
			block := hsFixed(m, 255)
			in := &hsR{b: block[20:]}
			if in.u32() != hsIDPQInner {
				s.note("req_DH_params: the RSA block does not hold p_q_inner_data")
				return
			}
			in.str()
			in.str()
			in.str()
			in.take(32)
			newNonce = append([]byte{}, in.take(32)...)
			if in.bad {
				s.note("p_q_inner_data malformed")
				return
			}
			stage = 2
			s.mu.Lock()
			s.secrets = append(s.secrets, c19rSecret{"new_nonce", newNonce, readNow})
			s.mu.Unlock()
			gA := new(big.Int).Exp(big.NewInt(3), s.a, prime)
			answer := hsInnerData(nonce, s.sn, 3, hsFixed(prime, 256), hsFixed(gA, 256), int32(time.Now().Unix()))
			// the mark is taken BEFORE the answer leaves: what the client draws on receiving it counts
			mark = atomic.LoadInt64(&s.ctr.n)
			s.sendPlain(c, hsDHOk(nonce, s.sn, hsWrapAnswer(answer, hsSha1(answer), make([]byte, 16), newNonce, s.sn)))
		case id == hsIDSetClientDH && stage == 2:
			rd.take(32)
			enc := rd.str()
			if rd.bad || len(enc) == 0 || len(enc)%16 != 0 {
				s.note("set_client_DH_params malformed")
				return
			}
			key, iv := hsTmpKeys(newNonce, s.sn)
			plain := hsIGE(key, iv, enc, false)
			in := &hsR{b: plain[20:]}
			if in.u32() != hsIDClientInner {
				s.note("set_client_DH_params does not decrypt to client_DH_inner_data")
				return
			}
			in.take(32)
			retry := in.u64()
			gb := new(big.Int).SetBytes(in.str())
			if in.bad || !bytes.Equal(hsSha1(plain[20:20+in.off]), plain[:20]) {
				s.note("client_DH_inner_data malformed")
				return
			}
			s.mu.Lock()
			s.sets = append(s.sets, c19rSet{gb: gb, retryID: retry, readSince: readNow - mark, conn: connNo})
			s.secrets = append(s.secrets, c19rSecret{"g_b", hsFixed(gb, 256), readNow})
			step := len(s.sets)
			s.mu.Unlock()
			answer := "ok"
			if step <= len(s.script) {
				answer = s.script[step-1]
			}
			authKey := hsFixed(new(big.Int).Exp(gb, s.a, prime), 256)
			mark = atomic.LoadInt64(&s.ctr.n)
			switch answer {
			case "retry":
				s.sendPlain(c, hsTriple(hsIDDHGenRetry, nonce, s.sn, hsNonceHash(newNonce, 2, authKey)))
			case "fail":
				s.sendPlain(c, hsTriple(hsIDDHGenFail, nonce, s.sn, hsNonceHash(newNonce, 3, authKey)))
			default:
				s.sendPlain(c, hsTriple(hsIDDHGenOk, nonce, s.sn, hsNonceHash(newNonce, 1, authKey)))
				stage = 3
			}
		default:
			s.note("unexpected request %08x at stage %d", id, stage)
			return
		}
	}
}

func c19rScript(s string) ([]string, bool) {
	parts := strings.Split(s, ",")
	if len(parts) == 0 || len(parts) > 8 {
		return nil, false
	}
	for _, p := range parts {
		if p != "ok" && p != "retry" && p != "fail" {
			return nil, false
		}
	}
	return parts, true
}

var c19rStats = map[string]int{}

func c19Retry(op, script string, k uint64) string {
	steps, ok := c19rScript(script)
	if !ok {
		return "bad-op"
	}
	srv, end, fail := c19rExchange(steps, k, nil)
	if fail != "" {
		return fail
	}
	srv.mu.Lock()
	sets := append([]c19rSet{}, srv.sets...)
	notes := append([]string{}, srv.notes...)
	srv.mu.Unlock()
	c19rStats[fmt.Sprintf("%s: %d set_client_DH_params, exchange %s", script, len(sets), end)]++
	if theG != nil {
		theG.Extra["retry_exchanges"] = c19rStats
	}
	if end == "panic" {
		return "panic:CreateConnection"
	}
	return c19rJudgeSets(op, steps, sets, notes)
}

// c19rExchange: one real key exchange (NewMTProto + CreateConnection) against the scripted server. crypto/rand.Reader
// is the counting forwarder over `source` (nil: the OS reader itself) for the duration of the exchange. end =
// completed | gave-up | panic | no-return; fail != "": the experiment could not be set up.
func c19rExchange(steps []string, k uint64, source io.Reader) (srv *c19rServer, end string, fail string) {
	c19rKeyOnce.Do(func() { c19rKey, _ = rsa.GenerateKey(crand.Reader, 2048) })
	if c19rKey == nil {
		return nil, "", "error:no-server-key"
	}
	ln, err := net.Listen("tcp", "127.0.0.1:0")
	if err != nil {
		return nil, "", "error:listen"
	}
	r := NewRand(k*0x9E3779B97F4A7C15 + 19)
	a := new(big.Int).SetBytes(r.Bytes(256))
	a.SetBit(a, 2047, 1)
	orig := crand.Reader
	if source == nil {
		source = orig
	}
	ctr := &c19CountingReader{inner: source}
	srv = &c19rServer{ln: ln, script: steps, a: a, sn: r.Bytes(16), ctr: ctr}
	go func() {
		for {
			c, err := ln.Accept()
			if err != nil {
				return
			}
			srv.mu.Lock()
			srv.nconn++
			no := srv.nconn
			srv.mu.Unlock()
			go srv.serve(c, no)
		}
	}()
	m, err := mtproto.NewMTProto(mtproto.Config{SessionStorage: c19MemStore{}, ServerHost: ln.Addr().String(), PublicKey: &c19rKey.PublicKey})
	if err != nil {
		_ = ln.Close()
		return nil, "", "error:NewMTProto"
	}
	crand.Reader = ctr
	done := make(chan string, 1)
	go func() {
		defer func() {
			if r := recover(); r != nil {
				done <- "panic"
			}
		}()
		if err := m.CreateConnection(); err != nil {
			done <- "gave-up"
			return
		}
		done <- "completed"
	}()
	end = "no-return"
	select {
	case end = <-done:
	case <-time.After(6 * time.Second):
	}
	// a request that is on its way arrives before the count
	time.Sleep(5 * time.Millisecond)
	crand.Reader = orig
	stop := make(chan struct{})
	go func() { defer func() { _ = recover() }(); _ = m.Disconnect(); close(stop) }()
	select {
	case <-stop:
	case <-time.After(time.Second):
	}
	_ = ln.Close()
	return srv, end, ""
}

func c19rJudgeSets(op string, steps []string, sets []c19rSet, notes []string) string {
	if len(sets) == 0 {
		return "error:no-set_client_DH_params(" + strings.ReplaceAll(strings.Join(notes, ";"), " ", "_") + ")"
	}
	prime := hsTelegramPrime()
	g := big.NewInt(3)
	gInv := new(big.Int).ModInverse(g, prime)
	for i, st := range sets {
		after := "server_DH_params_ok"
		if i > 0 {
			after = "dh_gen_" + steps[min(i-1, len(steps)-1)]
			if sets[i-1].conn != st.conn {
				after += " and a new connection"
			}
		}
		if st.readSince < 256 {
			c19Detail[op] = fmt.Sprintf("set_client_DH_params no. %d of the exchange (retry_id %x, sent after %s) carries a g_b for which %d byte(s) were read from the OS random source since the server's previous answer: "+
				"its exponent b (2048 bits) was not drawn", i+1, st.retryID, after, st.readSince)
			if rel := c19rRelated(sets[:i], st.gb, g, gInv, prime); rel != "" {
				c19Detail[op] += "; " + rel
			}
			return "short"
		}
		if rel := c19rRelated(sets[:i], st.gb, g, gInv, prime); rel != "" {
			c19Detail[op] = fmt.Sprintf("set_client_DH_params no. %d of the exchange (retry_id %x, sent after %s): %s", i+1, st.retryID, after, rel)
			if strings.Contains(rel, "g^0") {
				return "repeat"
			}
			return "related"
		}
	}
	return "fresh"
}

// c19rRelated: gb = gb' * g^k for an earlier gb' and |k| <= 16
func c19rRelated(earlier []c19rSet, gb, g, gInv, prime *big.Int) string {
	for j, e := range earlier {
		up := new(big.Int).Set(e.gb)
		down := new(big.Int).Set(e.gb)
		for k := 0; k <= 16; k++ {
			if up.Cmp(gb) == 0 {
				return fmt.Sprintf("its g_b is the g_b of set_client_DH_params no. %d times g^%d: the exponent is the earlier one plus %d, not a new draw", j+1, k, k)
			}
			if down.Cmp(gb) == 0 {
				return fmt.Sprintf("its g_b is the g_b of set_client_DH_params no. %d times g^-%d: the exponent is the earlier one minus %d, not a new draw", j+1, k, k)
			}
			up.Mul(up, g).Mod(up, prime)
			down.Mul(down, gInv).Mod(down, prime)
		}
	}
	return ""
}

func c19RetryExec(op []string) (string, bool) {
	if len(op) != 3 || op[0] != "c19.retry" {
		return "", false
	}
	k, err := strconv.ParseUint(op[2], 10, 62)
	if err != nil {
		return "bad-op", true
	}
	return c19Retry(strings.Join(op, " "), op[1], k), true
}

func c19RetryJudge(op []string, out string) string {
	line := strings.Join(op, " ")
	switch out {
	case "short":
		return "a DH exponent used in the key exchange was not drawn from the OS random source: " + c19Detail[line]
	case "repeat", "related":
		return "a DH exponent used in the key exchange is a function of an earlier one: " + c19Detail[line]
	}
	return ""
}

func c19RetryGen(g *G) {
	scripts := []string{"retry,ok", "retry", "fail", "ok", "retry,retry,ok", "retry,fail", "fail,ok", "retry,retry,retry,retry,ok"}
	for rep := 0; rep < g.N(1, 6); rep++ {
		for _, s := range scripts {
			g.Emit(fmt.Sprintf("c19.retry %s %d", s, g.R.U64()>>3), "retry:"+strings.SplitN(s, ",", 2)[0])
		}
	}
}
