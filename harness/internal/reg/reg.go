// Package reg reads the TL constructor registry of the working tree by reflection (through the
// verif-tagged hook tl.VerifRegistry) and describes every registered type in the vocabulary of the
// Lean model (Mtv.TL.Types): field types, flag tags, FlagIndex, implemented interfaces.
package reg

import (
	"fmt"
	"reflect"
	"sort"
	"strconv"
	"strings"

	"github.com/xelaj/mtproto/internal/encoding/tl"
	"github.com/xelaj/mtproto/internal/mtproto/objects"
	"github.com/xelaj/mtproto/telegram"
)

type Field struct {
	Name    string
	Type    reflect.Type
	Ty      string // Lean term of type Mtv.TL.Ty
	HasFlag bool
	Bit     int
	InBits  bool
	Ignore  bool
}

type Ctor struct {
	ID        uint32
	Name      string // Go type name, e.g. telegram.UserObj
	Kind      string // struct | enum | container | gzip
	Type      reflect.Type
	FlagIndex int // -1 when the type is not a FlagIndexGetter
	Ifaces    []string
	Fields    []Field
}

var (
	objectT    = reflect.TypeOf((*tl.Object)(nil)).Elem()
	marshalerT = reflect.TypeOf((*tl.Marshaler)(nil)).Elem()
	int128T    = reflect.TypeOf((*tl.Int128)(nil))
	int256T    = reflect.TypeOf((*tl.Int256)(nil))
	bytesT     = reflect.TypeOf([]byte(nil))
)

// CrcOf returns the constructor id of a pointer-to-struct type that implements tl.Object.
func CrcOf(t reflect.Type) (id uint32, ok bool) {
	if t.Kind() != reflect.Ptr || !t.Implements(objectT) {
		return 0, false
	}
	defer func() {
		if recover() != nil {
			ok = false
		}
	}()
	return reflect.New(t.Elem()).Interface().(tl.Object).CRC(), true
}

// TyOf renders a Go field/element type as a Lean `Ty` term.
func TyOf(t reflect.Type) string {
	switch {
	case t == int128T:
		return ".i128"
	case t == int256T:
		return ".i256"
	case t == bytesT:
		return ".bytes"
	}
	switch t.Kind() {
	case reflect.Int32:
		return ".int32"
	case reflect.Uint32:
		if t.PkgPath() != "" {
			return fmt.Sprintf("(.enum %q)", t.String())
		}
		return ".uint32"
	case reflect.Int64:
		return ".int64"
	case reflect.Float64:
		return ".f64"
	case reflect.Bool:
		return ".bool"
	case reflect.String:
		return ".str"
	case reflect.Slice:
		return "(.vec " + TyOf(t.Elem()) + ")"
	case reflect.Interface:
		return fmt.Sprintf("(.iface %q)", t.String())
	case reflect.Ptr:
		if t.Elem().Kind() == reflect.Struct && !t.Implements(marshalerT) {
			if id, ok := CrcOf(t); ok {
				return fmt.Sprintf("(.ptr 0x%08x)", id)
			}
		}
	}
	return fmt.Sprintf("(.bad %q)", t.String())
}

func parseTag(tag reflect.StructTag) (has bool, bit int, inBits, ignore bool) {
	v, ok := tag.Lookup("tl")
	if !ok {
		return false, 0, false, false
	}
	parts := strings.Split(v, ",")
	if parts[0] == "-" {
		return true, 0, false, true
	}
	if strings.HasPrefix(parts[0], "flag:") {
		bit, _ = strconv.Atoi(strings.TrimPrefix(parts[0], "flag:"))
	}
	for _, o := range parts[1:] {
		if o == "encoded_in_bitflags" {
			inBits = true
		}
	}
	return true, bit, inBits, false
}

// rows per generated Lean definition (registryN, fieldNamesN, allFieldsN)
const chunk = 40

var cached []Ctor

// All returns every registered constructor, sorted by id.
func All() []Ctor {
	if cached != nil {
		return cached
	}
	objs, enums := tl.VerifRegistry()
	// every interface type that occurs as a field or element type
	ifaceSet := map[reflect.Type]bool{objectT: true}
	var walk func(t reflect.Type)
	walk = func(t reflect.Type) {
		switch t.Kind() {
		case reflect.Interface:
			ifaceSet[t] = true
		case reflect.Slice:
			walk(t.Elem())
		}
	}
	for _, t := range objs {
		if t.Kind() == reflect.Ptr && t.Elem().Kind() == reflect.Struct {
			for i := 0; i < t.Elem().NumField(); i++ {
				walk(t.Elem().Field(i).Type)
			}
		}
	}
	// ... and as a result type of a client method (e.g. telegram.AccountThemes)
	ct := reflect.TypeOf(&telegram.Client{})
	for i := 0; i < ct.NumMethod(); i++ {
		mt := ct.Method(i).Type
		for o := 0; o < mt.NumOut(); o++ {
			if ot := mt.Out(o); ot.PkgPath() == ct.Elem().PkgPath() || ot.Kind() == reflect.Slice {
				walk(ot)
			}
		}
	}
	var ifaces []reflect.Type
	for t := range ifaceSet {
		ifaces = append(ifaces, t)
	}
	sort.Slice(ifaces, func(i, j int) bool { return ifaces[i].String() < ifaces[j].String() })

	var out []Ctor
	for id, t := range objs {
		c := Ctor{ID: id, Name: t.String(), Type: t, FlagIndex: -1}
		c.Name = strings.TrimPrefix(c.Name, "*")
		switch {
		case enums[id]:
			c.Kind = "enum"
		case t == reflect.TypeOf((*objects.MessageContainer)(nil)):
			c.Kind = "container"
		case t == reflect.TypeOf((*objects.GzipPacked)(nil)):
			c.Kind = "gzip"
		case t.Kind() == reflect.Ptr && t.Elem().Kind() == reflect.Struct:
			c.Kind = "struct"
		default:
			c.Kind = "struct"
		}
		for _, it := range ifaces {
			if it != objectT && t.Implements(it) {
				c.Ifaces = append(c.Ifaces, it.String())
			}
		}
		if c.Kind == "struct" {
			if g, ok := reflect.New(t.Elem()).Interface().(tl.FlagIndexGetter); ok {
				c.FlagIndex = g.FlagIndex()
			}
			st := t.Elem()
			for i := 0; i < st.NumField(); i++ {
				f := st.Field(i)
				has, bit, inBits, ign := parseTag(f.Tag)
				c.Fields = append(c.Fields, Field{Name: f.Name, Type: f.Type, Ty: TyOf(f.Type), HasFlag: has && !ign, Bit: bit, InBits: inBits, Ignore: ign})
			}
		}
		out = append(out, c)
	}
	sort.Slice(out, func(i, j int) bool { return out[i].ID < out[j].ID })
	cached = out
	return out
}

var (
	byID map[uint32]*Ctor
	aids = map[uint32]*Ctor{}
)

// ByID indexes the registry (plus harness-only aid types) by constructor id.
func ByID() map[uint32]*Ctor {
	if byID != nil {
		return byID
	}
	m := map[uint32]*Ctor{}
	all := All()
	for i := range all {
		m[all[i].ID] = &all[i]
	}
	for k, v := range aids {
		m[k] = v
	}
	byID = m
	return m
}

// RegisterAid adds a harness-only struct type under an id (used for container members).
func RegisterAid(id uint32, t reflect.Type) {
	c := &Ctor{ID: id, Name: t.String(), Kind: "struct", Type: t, FlagIndex: -1}
	for i := 0; i < t.Elem().NumField(); i++ {
		f := t.Elem().Field(i)
		c.Fields = append(c.Fields, Field{Name: f.Name, Type: f.Type, Ty: TyOf(f.Type)})
	}
	aids[id] = c
	byID = nil
}

// LeanSource renders the registry as Lean definitions (Mtv.Gen.registry), in chunks.
func LeanSource() string {
	var b strings.Builder
	b.WriteString("/- GENERATED on every run from the working tree of the repository by harness/cmd/regdump\n   (reflection over tl.VerifRegistry). Never committed. -/\nimport Mtv.TL.Types\nnamespace Mtv.Gen\nopen Mtv.TL\n\n")
	all := All()
	n := 0
	for i := 0; i < len(all); i += chunk {
		fmt.Fprintf(&b, "def registry%d : List CtorDesc := [\n", n)
		end := i + chunk
		if end > len(all) {
			end = len(all)
		}
		for j := i; j < end; j++ {
			c := all[j]
			fi := "none"
			if c.FlagIndex >= 0 {
				fi = fmt.Sprintf("some %d", c.FlagIndex)
			}
			var ifs []string
			for _, s := range c.Ifaces {
				ifs = append(ifs, strconv.Quote(s))
			}
			var fs []string
			for _, f := range c.Fields {
				if f.Ignore {
					continue
				}
				fl := "none"
				if f.HasFlag {
					fl = fmt.Sprintf("some ⟨%d, %v⟩", f.Bit, f.InBits)
				}
				fs = append(fs, fmt.Sprintf("⟨%q, %s, %s⟩", f.Name, f.Ty, fl))
			}
			sep := ","
			if j == end-1 {
				sep = ""
			}
			fmt.Fprintf(&b, "  ⟨0x%08x, %q, .%s, %s, [%s], [%s]⟩%s\n", c.ID, c.Name, c.Kind, fi, strings.Join(ifs, ", "), strings.Join(fs, ", "), sep)
		}
		b.WriteString("]\n\n")
		n++
	}
	b.WriteString("def registryChunks : List (List CtorDesc) := [")
	for k := 0; k < n; k++ {
		if k > 0 {
			b.WriteString(", ")
		}
		fmt.Fprintf(&b, "registry%d", k)
	}
	b.WriteString("]\n\ndef registry : Registry := registryChunks.flatten\n\n")
	// the tables `mkIfaceTable` / `mkEnumTable` compute, as literals (Lean proves them equal)
	type ent struct {
		k   string
		ids []uint32
	}
	var it, et []ent
	add := func(t *[]ent, k string, id uint32) {
		for i := range *t {
			if (*t)[i].k == k {
				(*t)[i].ids = append((*t)[i].ids, id)
				return
			}
		}
		*t = append(*t, ent{k, []uint32{id}})
	}
	for _, c := range all {
		for _, nm := range c.Ifaces {
			add(&it, nm, c.ID)
		}
		if c.Kind == "enum" {
			add(&et, c.Name, c.ID)
		}
	}
	emit := func(name string, t []ent) {
		fmt.Fprintf(&b, "def %s : List (String × List Nat) := [\n", name)
		for i, e := range t {
			var ids []string
			for _, id := range e.ids {
				ids = append(ids, fmt.Sprintf("0x%08x", id))
			}
			sep := ","
			if i == len(t)-1 {
				sep = ""
			}
			fmt.Fprintf(&b, "  (%q, [%s])%s\n", e.k, strings.Join(ids, ", "), sep)
		}
		b.WriteString("]\n\n")
	}
	emit("ifaceTableLit", it)
	emit("enumTableLit", et)
	// the Go field names once more, as byte strings in the form the kernel compares cheaply (length,
	// big-endian value; Mtv.Schema.BStr) — C13 compares them with the schema's parameter names. Same
	// chunks, same order, same fields (those the codec ignores left out) as `registryN` above.
	for k := 0; k < n; k++ {
		fmt.Fprintf(&b, "def fieldNames%d : List (Nat × List (Nat × Nat)) := [\n", k)
		end := (k + 1) * chunk
		if end > len(all) {
			end = len(all)
		}
		for j := k * chunk; j < end; j++ {
			var ns []string
			for _, f := range all[j].Fields {
				if f.Ignore {
					continue
				}
				ns = append(ns, fmt.Sprintf("(%d, 0x%x)", len(f.Name), []byte(f.Name)))
			}
			sep := ","
			if j == end-1 {
				sep = ""
			}
			fmt.Fprintf(&b, "  (0x%08x, [%s])%s\n", all[j].ID, strings.Join(ns, ", "), sep)
		}
		b.WriteString("]\n\n")
	}
	b.WriteString("def fieldNamesChunks : List (List (Nat × List (Nat × Nat))) := [")
	for k := 0; k < n; k++ {
		if k > 0 {
			b.WriteString(", ")
		}
		fmt.Fprintf(&b, "fieldNames%d", k)
	}
	b.WriteString("]\n\ndef fieldNames : List (Nat × List (Nat × Nat)) := fieldNamesChunks.flatten\n\n")
	fmt.Fprintf(&b, "def registryChunkCount : Nat := %d\n\nend Mtv.Gen\n", n)
	return b.String()
}

// LeanFieldsSource renders, for C13, EVERY field of every registered struct type (reflect NumField: exported
// or not, whatever its tag — also those `registryN` / `fieldNamesN` leave out because the encoder ignores
// them) with its struct tag as written; name and tag as byte strings (Mtv.Schema.BStr: length, big-endian
// value). Same chunks and order as `registryN`. C13 requires this list to be the codec's field list and each
// tag to be exactly the text its flag stands for: a field the schema does not define cannot hide behind a tag.
// Kept out of Registry.lean so that file (and the Lake cache of its other users) does not change.
func LeanFieldsSource() string {
	var b strings.Builder
	b.WriteString("/- GENERATED on every run from the working tree of the repository by harness/cmd/c13fields\n   (reflection over tl.VerifRegistry). Never committed. -/\nnamespace Mtv.Gen\n\n")
	all := All()
	n := (len(all) + chunk - 1) / chunk
	for k := 0; k < n; k++ {
		fmt.Fprintf(&b, "def allFields%d : List (Nat × List ((Nat × Nat) × (Nat × Nat))) := [\n", k)
		end := (k + 1) * chunk
		if end > len(all) {
			end = len(all)
		}
		for j := k * chunk; j < end; j++ {
			var ns []string
			if st := all[j].Type; st.Kind() == reflect.Ptr && st.Elem().Kind() == reflect.Struct {
				for i := 0; i < st.Elem().NumField(); i++ {
					f := st.Elem().Field(i)
					tag := "0"
					if f.Tag != "" {
						tag = fmt.Sprintf("0x%x", []byte(f.Tag))
					}
					ns = append(ns, fmt.Sprintf("((%d, 0x%x), (%d, %s))", len(f.Name), []byte(f.Name), len(f.Tag), tag))
				}
			}
			sep := ","
			if j == end-1 {
				sep = ""
			}
			fmt.Fprintf(&b, "  (0x%08x, [%s])%s\n", all[j].ID, strings.Join(ns, ", "), sep)
		}
		b.WriteString("]\n\n")
	}
	b.WriteString("def allFieldsChunks : List (List (Nat × List ((Nat × Nat) × (Nat × Nat)))) := [")
	for k := 0; k < n; k++ {
		if k > 0 {
			b.WriteString(", ")
		}
		fmt.Fprintf(&b, "allFields%d", k)
	}
	b.WriteString("]\n\ndef allFields : List (Nat × List ((Nat × Nat) × (Nat × Nat))) := allFieldsChunks.flatten\n\n")
	b.WriteString("end Mtv.Gen\n")
	return b.String()
}
