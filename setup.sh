#!/bin/sh
# Run once after a fresh restore, offline: builds the Lean project (models, theorems, driver) and
# the Go harness from files on disk only.
set -e
cd "$(dirname "$0")"
export GOFLAGS=-mod=mod GOPROXY=off GOSUMDB=off GOTOOLCHAIN=local CGO_ENABLED=0
mkdir -p .build evidence
(cd harness && go build -tags verif -o ../.build/vh ./cmd/vh)
if [ -x tools/regen_all.sh ]; then tools/regen_all.sh; fi
(cd lean && lake build Mtv mtv-driver)
echo "setup ok"
