#!/bin/sh
# Run once after a fresh restore, offline: regenerates the facts extracted from /repo, then builds the
# Go harness binaries, the Lean models/theorems and the driver executables of every claimed check,
# from files on disk only.
set -e
cd "$(dirname "$0")"
export GOFLAGS=-mod=mod GOPROXY=off GOSUMDB=off GOTOOLCHAIN=local CGO_ENABLED=0
mkdir -p .build evidence
if [ -x tools/regen_all.sh ]; then tools/regen_all.sh || echo "setup: regeneration reported a failure"; fi
python3 tools_setup.py
echo "setup ok"
