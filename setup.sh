#!/bin/sh
# Run once after a fresh restore, offline: builds the Lean project (models, theorems, driver) and
# the Go harness from files on disk only.
set -e
cd "$(dirname "$0")"
export GOFLAGS=-mod=mod GOPROXY=off GOSUMDB=off GOTOOLCHAIN=local CGO_ENABLED=0
mkdir -p .build evidence
true
if [ -x tools/regen_all.sh ]; then tools/regen_all.sh; fi
(cd lean && lake build Mtv Driver && lake build $(for i in 01 02 03 04 05 06 07 08 09 10 11 12 13 14 15 16 17 18 19 20; do echo drv-c$i; done))
echo "setup ok"
