#!/usr/bin/env python3
"""Builds, for every check claimed in MANIFEST.json, its harness binary, its Lean modules and its
driver executable (each check rebuilds incrementally on every run anyway; this warms the caches)."""
import importlib
import json
import os
import subprocess
import sys

HERE = os.path.dirname(os.path.abspath(__file__))
sys.path.insert(0, os.path.join(HERE, "lib"))
sys.path.insert(0, HERE)
import vlib  # noqa: E402


def main():
    man = json.load(open(os.path.join(HERE, "MANIFEST.json")))
    props = [c["property_id"] for c in man["checks"]]
    targets = []
    failed = []
    for p in props:
        mod = importlib.import_module("checks." + p.lower())
        ctx = vlib.Ctx(p, "quick", 1, os.environ.get("VERIF_REPO", "/repo"))
        if not ctx.build_harness(getattr(mod, "EXTRA_FILES", ())):
            failed.append(p + ": harness build")
        targets += list(getattr(mod, "MODULES", [])) + ["drv-" + p.lower()]
    # one lake invocation for everything (parallel inside lake); fall back to per-property on failure
    rc, out = vlib.run(["lake", "build"] + sorted(set(targets)), cwd=vlib.LEAN, timeout=7200)
    if rc != 0:
        print(out[-3000:])
        for p in props:
            mod = importlib.import_module("checks." + p.lower())
            rc2, out2 = vlib.run(["lake", "build"] + list(getattr(mod, "MODULES", [])) + ["drv-" + p.lower()],
                                 cwd=vlib.LEAN, timeout=7200)
            if rc2 != 0:
                failed.append(p + ": lake build")
    for f in failed:
        print("setup: FAILED", f)
    print("setup: %d checks prepared, %d failures" % (len(props), len(failed)))


if __name__ == "__main__":
    main()
